//! C17 — run generated KML statements through the real parser and Executor, dump the full observable
//! space before / after every statement, judge each step with a direct oracle, and print the history as
//! a term for the Coq monitor (`check_history`).
use crate::genstmt::*;
use crate::world::*;
use h_common::*;
use serde_json::{Value, json};
use std::collections::{BTreeMap, BTreeSet};
use std::io::Write;

pub fn eid(id: &str) -> i64 {
    // "C-12" -> 1_000_000_012
    let (k, n) = id.split_once('-').unwrap_or(("?", "0"));
    let code = match k {
        "C" => 1,
        "P" => 2,
        "A" => 3,
        "E" => 4,
        "X" => 5,
        _ => 9,
    };
    code * 1_000_000_000 + n.parse::<i64>().unwrap_or(0)
}
pub fn kind_code(kind: &str) -> i64 {
    match kind {
        "concept" => 1,
        "proposition" => 2,
        "assertion" => 3,
        "evidence" => 4,
        "activity" => 5,
        _ => 9,
    }
}
pub fn state_code(s: &str) -> i64 {
    STATES.iter().position(|x| *x == s).map(|i| i as i64).unwrap_or(7)
}
pub fn time_rank(t: &str) -> i64 {
    let digits: String = t.chars().filter(|c| c.is_ascii_digit()).take(17).collect();
    digits.parse().unwrap_or(0)
}

pub fn obs_digest(d: &Dump) -> i64 {
    hjson(&json!({"answers": d.answers, "other": d.other}))
}

pub fn space_term(d: &Dump) -> Value {
    let elems: Vec<Value> = d
        .elems
        .iter()
        .map(|e| {
            ctor(
                "mkE",
                vec![
                    json!(eid(&e.id)),
                    json!(kind_code(e.kind)),
                    json!(e.version),
                    json!(state_code(&e.state)),
                    json!(e.digest),
                    json!(e.ident.as_ref().map(|s| h62(s.as_bytes())).unwrap_or(0)),
                    json!(e.payload.unwrap_or(0)),
                ],
            )
        })
        .collect();
    let journal: Vec<Value> = d
        .journal
        .iter()
        .map(|j| {
            ctor(
                "mkJ",
                vec![
                    json!(j.seq),
                    json!(if j.status == "committed" { 0 } else if j.status == "no_effect" { 1 } else { 2 }),
                    json!(time_rank(&j.committed_at)),
                    json!(j.changed.iter().map(|c| eid(c)).collect::<Vec<_>>()),
                ],
            )
        })
        .collect();
    let vlog: Vec<Value> = d.vlog.iter().map(vrow_term).collect();
    ctor("mkS", vec![json!(elems), json!(journal), json!(vlog), json!(d.seq), json!(obs_digest(d))])
}

pub fn vrow_term(v: &VRow) -> Value {
    ctor(
        "mkV",
        vec![
            json!(eid(&v.element)),
            json!(kind_code(&v.kind)),
            json!(v.version),
            json!(v.seq),
            json!(v.digest),
            json!(v.payload.unwrap_or(0)),
        ],
    )
}

pub fn resp_term(r: &Resp) -> Value {
    match r.class.as_str() {
        "committed" | "no_effect" => ctor(
            "Committed",
            vec![
                json!(r.seq.unwrap_or(0)),
                json!(if r.class == "committed" { 0 } else { 1 }),
                json!(r.changes.iter().map(|(id, v, _)| tup(vec![json!(eid(id)), json!(v)])).collect::<Vec<_>>()),
            ],
        ),
        "dry_run" => ctor("DryRun", vec![]),
        _ => ctor("Refused", vec![]),
    }
}

/// The direct oracle: an independent reading of the property on two dumps and the response.
pub fn oracle(before: &Dump, r: &Resp, after: &Dump) -> Vec<(String, String)> {
    let mut bad: Vec<(String, String)> = vec![];
    fn ids(d: &Dump) -> BTreeMap<String, &ElemRow> {
        d.elems.iter().map(|e| (e.id.clone(), e)).collect()
    }
    let (eb, ea) = (ids(before), ids(after));
    match r.class.as_str() {
        "committed" | "no_effect" => {
            let q = r.seq.unwrap_or(0);
            if !(q > before.seq && before.journal.iter().all(|j| j.seq < q) && after.seq == q) {
                bad.push(("seq-not-fresh".into(), format!("commit seq {q}, space was at {}, is at {}", before.seq, after.seq)));
            }
            if after.journal.len() != before.journal.len() + 1
                || after.journal[..before.journal.len()] != before.journal[..]
                || after.journal.last().map(|j| (j.seq, j.changed.clone())) != Some((q, r.changes.iter().map(|c| c.0.clone()).collect()))
            {
                bad.push(("journal".into(), format!("journal rows {} -> {}; last {:?}", before.journal.len(), after.journal.len(), after.journal.last())));
            }
            let changed: BTreeSet<&String> = r.changes.iter().map(|c| &c.0).collect();
            if changed.len() != r.changes.len() {
                bad.push(("version-bump".into(), "an element appears twice in the change list".into()));
            }
            if (r.class == "committed") != !r.changes.is_empty() {
                bad.push(("journal".into(), format!("status {} with {} changes", r.class, r.changes.len())));
            }
            for (id, v, _) in &r.changes {
                let was = eb.get(id).map(|e| e.version).unwrap_or(0);
                match ea.get(id) {
                    Some(e) if e.version == *v && *v == was + 1 && e.state != "pending" => {
                        if let Some(b) = eb.get(id) {
                            if b.payload != e.payload {
                                bad.push(("payload-edited".into(), format!("{id}: epistemic payload changed in version {v}")));
                            }
                        }
                    }
                    other => bad.push((
                        "version-bump".into(),
                        format!("{id}: was v{was}, announced v{v}, stored {:?}", other.map(|e| (e.version, e.state.clone()))),
                    )),
                }
            }
            for id in eb.keys().chain(ea.keys()) {
                if !changed.contains(id) && eb.get(id).map(|e| (e.digest, e.version)) != ea.get(id).map(|e| (e.digest, e.version)) {
                    bad.push(("frame".into(), format!("{id} is not in the change list but differs / appeared / vanished")));
                }
            }
            let new_rows: Vec<(String, u64, u64)> = after.vlog.iter().skip(before.vlog.len()).map(|v| (v.element.clone(), v.version, v.seq)).collect();
            let want: Vec<(String, u64, u64)> = r.changes.iter().map(|(id, v, _)| (id.clone(), *v, q)).collect();
            if after.vlog.len() < before.vlog.len() || after.vlog[..before.vlog.len()] != before.vlog[..] || new_rows != want {
                bad.push(("vlog".into(), format!("version rows appended {:?}, expected {:?}", new_rows, want)));
            }
            for (id, v, _) in &r.changes {
                let row = after.vlog.iter().rev().find(|x| &x.element == id);
                if row.map(|x| x.digest) != ea.get(id).map(|e| e.digest) {
                    bad.push(("vlog".into(), format!("{id} v{v}: the version row is not the row that was written")));
                }
            }
            if let Some(p) = after.elems.iter().find(|e| e.state == "pending") {
                bad.push(("pending-left".into(), format!("{} is still pending after a commit", p.id)));
            }
            let mut seen = BTreeMap::new();
            for e in &after.elems {
                if let Some(k) = &e.ident {
                    if let Some(other) = seen.insert((e.kind, k.clone()), e.id.clone()) {
                        bad.push(("identity-duplicate".into(), format!("{} and {} claim {k}", other, e.id)));
                    }
                }
            }
        }
        _ => {
            // refused, dry run, parse error: nothing observable may differ (the counter may move)
            let cls = if r.class == "dry_run" { "dry-run-changed" } else { "refused-changed" };
            let mut diffs = vec![];
            for id in eb.keys().chain(ea.keys()).collect::<BTreeSet<_>>() {
                match (eb.get(id), ea.get(id)) {
                    (None, Some(e)) => diffs.push(format!("+{} v{} {}", id, e.version, e.state)),
                    (Some(e), None) => diffs.push(format!("-{} v{}", id, e.version)),
                    (Some(x), Some(y)) if x != y => diffs.push(format!("~{} v{}->v{}", id, x.version, y.version)),
                    _ => {}
                }
            }
            if after.journal != before.journal {
                diffs.push(format!("journal {} -> {}", before.journal.len(), after.journal.len()));
            }
            if after.vlog != before.vlog {
                diffs.push(format!("vlog {} -> {}", before.vlog.len(), after.vlog.len()));
            }
            if after.other != before.other {
                diffs.push("space/schema rows".into());
            }
            for (k, v) in &after.answers {
                if before.answers.get(k) != Some(v) {
                    diffs.push(format!("answer of `{k}`"));
                }
            }
            if after.seq < before.seq {
                diffs.push(format!("seq went back {} -> {}", before.seq, after.seq));
            }
            if !diffs.is_empty() {
                let only_shells = after.elems.iter().filter(|e| !eb.contains_key(&e.id)).all(|e| e.state == "pending")
                    && after.journal == before.journal
                    && after.vlog == before.vlog
                    && eb.iter().all(|(id, e)| ea.get(id) == Some(e));
                let cls = if only_shells { format!("{cls}-pending-shell") } else { cls.to_string() };
                bad.push((cls, format!("error {}: {}", r.error_code, diffs.join(", "))));
            }
        }
    }
    bad
}

pub async fn main(args: &[String]) {
    let out_path = arg_value(args, "--out").unwrap_or_else(|| "/dev/stdout".into());
    let histories = arg_value(args, "--histories").and_then(|s| s.parse().ok()).unwrap_or(8usize);
    let steps = arg_value(args, "--steps").and_then(|s| s.parse().ok()).unwrap_or(15usize);
    let replay: Option<Vec<Value>> = arg_value(args, "--statements").map(|p| serde_json::from_str(&std::fs::read_to_string(p).expect("file")).expect("json"));
    let mut out = std::io::BufWriter::new(std::fs::File::create(&out_path).expect("out"));
    let mut rng = Rng::from_env();
    let mut failures: Vec<Value> = vec![];
    let mut classes: BTreeMap<String, usize> = BTreeMap::new();
    let mut codes: BTreeMap<String, usize> = BTreeMap::new();
    let mut tags: BTreeMap<String, usize> = BTreeMap::new();
    let mut nstmt = 0usize;
    let mut refused_nontrivial = 0usize;
    let mut max_elems = 0usize;
    // the statement of the known finding is always history 0 (corpus)
    let known = r#"MUTATE { CREATE CONCEPT ?bob {TYPE "Person" NAME "Bob"} CREATE CONCEPT ?x {TYPE "Preference" NAME "X"} ENSURE PROPOSITION ?p1 (?bob,"prefers",?x) ENSURE PROPOSITION ?p2 (?bob,"prefers",?x) }"#;
    let twins = r#"MUTATE { UPSERT CONCEPT ?a { MATCH {type: "Person", key: "k1"} SET FIELDS {name: "A"} } UPSERT CONCEPT ?b { MATCH {type: "Person", key: "k1"} SET FIELDS {name: "B"} } }"#;
    let nhist = if replay.is_some() { 1 } else { histories + 1 };
    for h in 0..nhist {
        let w = World::new(&format!("c17_{h}")).await;
        let mut g = Gen::new(rng.fork(), 35, 15);
        let mut before = w.dump().await;
        let s0 = space_term(&before);
        let mut steps_terms = vec![];
        let mut stmts_meta = vec![];
        let n = if let Some(r) = &replay { r.len() } else if h == 0 { 6 } else { steps };
        for i in 0..n {
            let stmt = if let Some(r) = &replay {
                Stmt {
                    text: r[i]["text"].as_str().unwrap_or("").to_string(),
                    params: r[i].get("params").filter(|p| !p.is_null()).cloned(),
                    dry: r[i]["dry"].as_bool().unwrap_or(false),
                    tag: "replay".into(),
                }
            } else if h == 0 && i == 0 {
                Stmt { text: known.into(), params: None, dry: false, tag: "corpus:duplicate-ensure".into() }
            } else if h == 0 && i == 1 {
                Stmt { text: twins.into(), params: None, dry: false, tag: "corpus:upsert-twins".into() }
            } else {
                g.next(&Mirror::from_dump(&before))
            };
            let r = w.run_with(&stmt.text, stmt.dry, stmt.params.as_ref()).await;
            let after = w.dump().await;
            nstmt += 1;
            *classes.entry(r.class.clone()).or_default() += 1;
            if !r.error_code.is_empty() {
                *codes.entry(r.error_code.split(':').next().unwrap_or("").to_string()).or_default() += 1;
            }
            *tags.entry(stmt.tag.split(':').take(2).collect::<Vec<_>>().join(":")).or_default() += 1;
            if stmt.tag.starts_with("dup") || stmt.tag.starts_with("dry:dup") {
                for seg in stmt.tag.split(':').filter(|x| *x != "dup" && *x != "dry") {
                    *tags.entry(format!("dup-spelling:{seg}:{}", r.class)).or_default() += 1;
                }
            }
            if (r.class == "refused" || r.class == "dry_run") && !before.elems.is_empty() {
                refused_nontrivial += 1;
            }
            max_elems = max_elems.max(after.elems.len());
            let meta = json!({"text": stmt.text, "params": stmt.params, "dry": stmt.dry, "tag": stmt.tag,
                              "class": r.class, "error": r.error_code, "seq": r.seq,
                              "changes": r.changes.iter().map(|c| format!("{} v{} {}", c.0, c.1, c.2)).collect::<Vec<_>>()});
            for (cls, what) in oracle(&before, &r, &after) {
                failures.push(json!({"class": cls, "what": what, "history": h, "step": i,
                                     "statement": stmt.text, "params": stmt.params, "dry_run": stmt.dry,
                                     "response": {"class": r.class, "error": r.error_code, "seq": r.seq},
                                     "history_so_far": stmts_meta.clone()}));
            }
            stmts_meta.push(meta);
            steps_terms.push(tup(vec![resp_term(&r), space_term(&after)]));
            before = after;
        }
        let line = json!({"kind": "model", "case": tup(vec![s0, json!(steps_terms)]), "history": h, "statements": stmts_meta,
                          "elements": before.elems.len(), "journal": before.journal.len(), "vlog": before.vlog.len()});
        writeln!(out, "{line}").unwrap();
    }
    // ---- readers concurrent with writers: whatever a reader is answered is the answer of a quiescent point
    let conc_steps = arg_value(args, "--concurrent").and_then(|s| s.parse().ok()).unwrap_or(0usize);
    let mut reader_answers = 0usize;
    let mut reader_distinct = 0usize;
    if conc_steps > 0 && replay.is_none() {
        use std::sync::Arc;
        use std::sync::atomic::{AtomicBool, Ordering};
        const RQ: [&str; 4] = [
            r#"FIND(?s.id, ?p.id, ?o.id, ?p._system.version) WHERE { ?p PROPOSITION (?s, ?pred, ?o) } ORDER BY ?p.id"#,
            r#"FIND(?c.id, ?c._system.version, ?c._system.state, ?c.name) WHERE { ?c CONCEPT {} } ORDER BY ?c.id"#,
            r#"FIND(?a.id, ?a.lifecycle.status, ?e.id) WHERE { ?a ASSERTION {} OPTIONAL { ?edge STRUCTURAL (?a, "evidence", ?e) } } ORDER BY ?a.id, ?e.id"#,
            "HISTORY SPACE",
        ];
        let w = Arc::new(World::new("c17_conc").await);
        let stop = Arc::new(AtomicBool::new(false));
        let mut readers = vec![];
        for _ in 0..3 {
            let (w, stop) = (w.clone(), stop.clone());
            readers.push(tokio::spawn(async move {
                let mut seen: Vec<(usize, i64)> = vec![];
                while !stop.load(Ordering::Relaxed) {
                    for (qi, text) in RQ.iter().enumerate() {
                        seen.push((qi, hjson(&w.ask(text).await)));
                    }
                    tokio::task::yield_now().await;
                }
                seen
            }));
        }
        let mut quiescent: BTreeSet<(usize, i64)> = BTreeSet::new();
        let mut g = Gen::new(rng.fork(), 25, 10);
        let mut texts = vec![];
        for _ in 0..conc_steps {
            for (qi, text) in RQ.iter().enumerate() {
                quiescent.insert((qi, hjson(&w.ask(text).await)));
            }
            let d = w.dump_store().await;
            let stmt = g.next(&Mirror::from_dump(&d));
            let r = w.run_with(&stmt.text, stmt.dry, stmt.params.as_ref()).await;
            texts.push(json!({"text": stmt.text, "params": stmt.params, "dry": stmt.dry, "class": r.class}));
        }
        for (qi, text) in RQ.iter().enumerate() {
            quiescent.insert((qi, hjson(&w.ask(text).await)));
        }
        stop.store(true, Ordering::Relaxed);
        let mut distinct = BTreeSet::new();
        for rd in readers {
            for obs in rd.await.unwrap_or_default() {
                reader_answers += 1;
                distinct.insert(obs);
                if !quiescent.contains(&obs) && failures.len() < 40 {
                    failures.push(json!({"class": "reader-saw-partial-state", "what": format!("a concurrent reader of `{}` was answered something no point between statements answers", RQ[obs.0]),
                                         "history": "concurrent", "step": 0, "statement": "(see history_so_far)", "history_so_far": texts.clone()}));
                }
            }
        }
        reader_distinct = distinct.len();
    }
    let summary = json!({"kind": "summary", "histories": nhist, "reader_answers": reader_answers, "reader_distinct_answers": reader_distinct, "statements": nstmt, "classes": classes, "error_codes": codes,
                         "tags": tags, "refused_or_dry_on_nonempty_space": refused_nontrivial, "max_elements": max_elems,
                         "oracle_failures": failures.len(), "failures": failures});
    writeln!(out, "{summary}").unwrap();
    out.flush().unwrap();
}
