//! C04 — unique constraints always hold; a rejected write leaves no trace.
//!
//! `seq`:  histories mixing accepted and rejected add/update/remove (schema violation, uniqueness conflict,
//!         unknown field, missing document, empty update) over a schema with a unique scalar field, a unique array
//!         field, a multi-field index and a non-unique index, through the real `Collection` over `InMemory`.
//!         After EVERY operation the full observable state (ids, every document, for every index and every key of
//!         the key universe `query_all_ids(Eq k)` and the raw posting) is read back; the direct oracle checks
//!           U  every unique index has at most one owner per key,
//!           C  every posting equals what the harness's own copy of the documents derives,
//!           R  a rejected write leaves the whole observable state identical,
//!           V  at the end every unique key without an owner is insertable (and the probe is removed again).
//!         One {"kind":"model"} line per history lets the Coq model predict accept/reject and the final state.
//! `conc`: 2–3 tokio tasks contending for one unique value (add / update scalar / update array), backend calls
//!         interleaved by a store that yields a seeded number of times before every call (current-thread runtime,
//!         deterministic in VERIF_SEED) and a multi-thread runtime for true parallelism: exactly one winner, the
//!         final state is that of the winner's operation alone, U and C hold.
use anda_db::{
    collection::{Collection, CollectionConfig},
    database::{AndaDB, DBConfig},
    error::DBError,
    index::virtual_field_value,
    query::{Filter, RangeQuery},
    schema::{Document, FieldEntry, FieldType, Fv, Schema},
    storage::StorageConfig,
};
use anda_object_store::{FaultHandle, FaultOp, FaultRule, FaultStore};
use async_trait::async_trait;
use futures::{FutureExt, StreamExt, stream::BoxStream};
use h_common::*;
use object_store::{
    CopyOptions, GetOptions, GetResult, ListResult, MultipartUpload, ObjectMeta, ObjectStore, ObjectStoreExt,
    PutMultipartOptions, PutOptions, PutPayload, PutResult, Result as OsResult, memory::InMemory, path::Path,
};
use serde_json::{Value, json};
use std::collections::{BTreeMap, BTreeSet};
use std::io::Write;
use std::panic::AssertUnwindSafe;
use std::sync::{Arc, Mutex};

// ------------------------------------------------------------------------------------------ values
#[derive(Clone, Debug, PartialEq, Eq, PartialOrd, Ord)]
enum V {
    Null,
    Int(i64),
    Text(String),
    Arr(Vec<String>),
    ArrI(Vec<i64>),
    Vec(Vec<i64>),
}

impl V {
    fn fv(&self) -> Fv {
        match self {
            V::Null => Fv::Null,
            V::Int(i) => Fv::U64(*i as u64),
            V::Text(s) => Fv::Text(s.clone()),
            V::Arr(l) => Fv::Array(l.iter().map(|s| Fv::Text(s.clone())).collect()),
            V::ArrI(l) => Fv::Array(l.iter().map(|i| Fv::U64(*i as u64)).collect()),
            V::Vec(l) => Fv::Vector(l.iter().map(|i| anda_db::schema::bf16::from_f32(*i as f32)).collect()),
        }
    }
    fn from_fv(fv: Option<&Fv>) -> V {
        match fv {
            None | Some(Fv::Null) => V::Null,
            Some(Fv::U64(u)) => V::Int(*u as i64),
            Some(Fv::I64(i)) => V::Int(*i),
            Some(Fv::Text(s)) => V::Text(s.clone()),
            Some(Fv::Array(l)) => {
                if l.iter().all(|x| matches!(x, Fv::Text(_))) {
                    V::Arr(l.iter().map(|x| if let Fv::Text(s) = x { s.clone() } else { String::new() }).collect())
                } else {
                    V::ArrI(l.iter().map(|x| if let Fv::U64(u) = x { *u as i64 } else { -1 }).collect())
                }
            }
            Some(Fv::Vector(v)) => V::Vec(v.iter().map(|x| x.to_f32() as i64).collect()),
            Some(other) => V::Text(format!("?{other:?}")),
        }
    }
    fn term(&self) -> Value {
        match self {
            V::Null => ctor("VNull", vec![]),
            V::Int(i) => ctor("VS", vec![ctor("SInt", vec![json!(i)])]),
            V::Text(s) => ctor("VS", vec![ctor("SText", vec![json!(s)])]),
            V::Arr(l) => ctor("VArr", vec![Value::Array(l.iter().map(|s| ctor("SText", vec![json!(s)])).collect())]),
            V::ArrI(l) | V::Vec(l) => ctor("VArr", vec![Value::Array(l.iter().map(|i| ctor("SInt", vec![json!(i)])).collect())]),
        }
    }
}

#[derive(Clone, Debug, PartialEq, Eq, PartialOrd, Ord)]
enum Key {
    S(V),
    T(Vec<V>),
}
impl Key {
    fn term(&self) -> Value {
        match self {
            Key::S(V::Int(i)) => ctor("KS", vec![ctor("SInt", vec![json!(i)])]),
            Key::S(V::Text(s)) => ctor("KS", vec![ctor("SText", vec![json!(s)])]),
            Key::S(_) => ctor("KT", vec![json!([])]),
            Key::T(l) => ctor("KT", vec![Value::Array(l.iter().map(|v| v.term()).collect())]),
        }
    }
    fn fv(&self) -> Fv {
        match self {
            Key::S(v) => v.fv(),
            Key::T(l) => {
                let fvs: Vec<Fv> = l.iter().map(|v| v.fv()).collect();
                let opts: Vec<Option<&Fv>> =
                    l.iter().zip(fvs.iter()).map(|(v, f)| if *v == V::Null { None } else { Some(f) }).collect();
                virtual_field_value(&opts).expect("composite key")
            }
        }
    }
}

// ------------------------------------------------------------------------------------------ schema
#[derive(Clone, Copy, Debug, PartialEq)]
enum Ty {
    Int,
    Text,
    ArrText,
    Vector,
}
#[derive(Clone, Debug)]
struct FieldSpec {
    name: &'static str,
    ty: Ty,
    opt: bool,
    unique: bool,
}
#[derive(Clone, Debug)]
struct Spec {
    fields: Vec<FieldSpec>,
    indexes: Vec<Vec<&'static str>>, // creation order
    /// oracle-only shape: an extra vector field, a BM25 index on `note` and an HNSW index on `vec` (not in the Coq model)
    aux: bool,
}

impl Spec {
    fn schema(&self) -> Schema {
        let mut b = Schema::builder();
        for f in &self.fields {
            let base = match f.ty {
                Ty::Int => FieldType::U64,
                Ty::Text => FieldType::Text,
                Ty::ArrText => FieldType::Array(vec![FieldType::Text]),
                Ty::Vector => FieldType::Vector,
            };
            let ft = if f.opt { FieldType::Option(Box::new(base)) } else { base };
            let mut e = FieldEntry::new(f.name.to_string(), ft).unwrap();
            if f.unique {
                e = e.with_unique();
            }
            b.add_field(e).unwrap();
        }
        b.build().unwrap()
    }
    fn term(&self) -> (Value, Value) {
        let fs: Vec<Value> = self
            .fields
            .iter()
            .map(|f| {
                ctor(
                    "mkField",
                    vec![
                        json!(f.name),
                        ctor(match f.ty { Ty::Int => "TInt", Ty::Text => "TText", Ty::ArrText => "TArrText", Ty::Vector => "TArrInt" }, vec![]),
                        json!(f.opt),
                        json!(f.unique),
                    ],
                )
            })
            .collect();
        let ix: Vec<Value> = self.indexes.iter().map(|fs| json!(fs)).collect();
        (Value::Array(fs), Value::Array(ix))
    }
    fn is_unique(&self, j: usize) -> bool {
        let fs = &self.indexes[j];
        fs.len() > 1 || self.fields.iter().any(|f| f.name == fs[0] && f.unique)
    }
}

fn gen_spec(rng: &mut Rng, aux: bool) -> Spec {
    let mut fields = vec![
        FieldSpec { name: "email", ty: Ty::Text, opt: rng.chance(1, 3), unique: true },
        FieldSpec { name: "tags", ty: Ty::ArrText, opt: true, unique: true },
        FieldSpec { name: "a", ty: Ty::Int, opt: false, unique: false },
        FieldSpec { name: "b", ty: Ty::Text, opt: true, unique: false },
        FieldSpec { name: "grp", ty: Ty::Int, opt: true, unique: false },
        FieldSpec { name: "note", ty: Ty::Text, opt: true, unique: false },
    ];
    let mut cands: Vec<Vec<&'static str>> =
        vec![vec!["email"], vec!["tags"], vec!["a", "b"], vec!["grp"], vec!["a"], vec!["email", "grp"]];
    rng.shuffle(&mut cands);
    let mut indexes: Vec<Vec<&'static str>> = Vec::new();
    for (n, c) in cands.into_iter().enumerate() {
        let p = if c.len() == 2 && c[0] == "email" { 1 } else if c == vec!["a"] { 2 } else { 5 };
        if rng.chance(p, 6) || (n >= 4 && indexes.len() < 2) {
            indexes.push(c);
        }
    }
    if aux {
        fields.push(FieldSpec { name: "vec", ty: Ty::Vector, opt: false, unique: false }); // HNSW needs a plain Vector field
    }
    Spec { fields, indexes, aux }
}

type Fields = BTreeMap<String, V>;

/// the harness's own reading of "which keys does this document own in this index"
fn derive(spec: &Spec, j: usize, d: &Fields) -> BTreeSet<Key> {
    let fs = &spec.indexes[j];
    let get = |n: &str| d.get(n).cloned().unwrap_or(V::Null);
    let mut out = BTreeSet::new();
    if fs.len() == 1 {
        match get(fs[0]) {
            V::Null => {}
            V::Arr(l) => {
                for s in l {
                    out.insert(Key::S(V::Text(s)));
                }
            }
            V::ArrI(l) => {
                for s in l {
                    out.insert(Key::S(V::Int(s)));
                }
            }
            v => {
                out.insert(Key::S(v));
            }
        }
    } else {
        out.insert(Key::T(fs.iter().map(|n| get(n)).collect()));
    }
    out
}

const EMAILS: [&str; 6] = ["e0", "e1", "e2", "e3", "e4", "e5"];
const TAGS: [&str; 5] = ["t0", "t1", "t2", "t3", "t4"];

fn universe(spec: &Spec) -> Vec<(usize, Key)> {
    let mut u = Vec::new();
    for (j, fs) in spec.indexes.iter().enumerate() {
        match fs.as_slice() {
            ["email"] => EMAILS.iter().for_each(|e| u.push((j, Key::S(V::Text(e.to_string()))))),
            ["tags"] => TAGS.iter().for_each(|e| u.push((j, Key::S(V::Text(e.to_string()))))),
            ["grp"] | ["a"] => (0..3).for_each(|g| u.push((j, Key::S(V::Int(g))))),
            ["a", "b"] => {
                for a in 0..3 {
                    for b in [V::Null, V::Text("x".into()), V::Text("y".into())] {
                        u.push((j, Key::T(vec![V::Int(a), b])));
                    }
                }
            }
            ["email", "grp"] => {
                for e in EMAILS.iter().take(4) {
                    for g in [V::Null, V::Int(0), V::Int(1)] {
                        u.push((j, Key::T(vec![V::Text(e.to_string()), g])));
                    }
                }
                for g in [V::Null, V::Int(0), V::Int(1)] {
                    u.push((j, Key::T(vec![V::Null, g])));
                }
            }
            _ => {}
        }
    }
    u
}

// ------------------------------------------------------------------------------------------ errors
#[derive(Clone, Debug, PartialEq)]
enum Res {
    Id(u64),
    Ok,
    Removed(bool),
    Err(&'static str),
}
impl Res {
    fn term(&self) -> Value {
        match self {
            Res::Id(i) => ctor("RId", vec![json!(i)]),
            Res::Ok => ctor("ROk", vec![]),
            Res::Removed(b) => ctor("RRemoved", vec![json!(b)]),
            Res::Err(e) => ctor("RErr", vec![ctor(e, vec![])]),
        }
    }
    fn rejected(&self) -> bool {
        matches!(self, Res::Err(_))
    }
}

fn classify_schema_msg(msg: &str) -> &'static str {
    if msg.contains("not found in schema") { "EUnknown" } else { "ESchema" }
}

fn classify(err: &DBError) -> &'static str {
    match err {
        DBError::NotFound { .. } => "ENotFound",
        DBError::AlreadyExists { .. } => "EUnique",
        DBError::Schema { source, .. } => classify_schema_msg(&source.to_string()),
        DBError::Generic { source, .. } if source.to_string().contains("No fields to update") => "EEmpty",
        DBError::Index { .. } => "EIndex",
        _ => "EStorage",
    }
}

// ------------------------------------------------------------------------------------------ ops
#[derive(Clone, Debug)]
enum Op {
    Add(Fields),
    Update(u64, Fields),
    Remove(u64),
}
impl Op {
    /// fault: None = no storage fault armed; Some(cleanup_ok) = the document write of this operation fails
    fn term(&self, fault: Option<bool>) -> Value {
        let fl = |f: &Fields| Value::Array(f.iter().map(|(k, v)| tup(vec![json!(k), v.term()])).collect());
        let ft = match fault {
            None => ctor("NoFault", vec![]),
            Some(c) => ctor("WriteFails", vec![json!(c)]),
        };
        match self {
            Op::Add(f) => ctor("OAdd", vec![fl(f), ft]),
            Op::Update(i, f) => ctor("OUpdate", vec![json!(i), fl(f), ft]),
            Op::Remove(i) => ctor("ORemove", vec![json!(i), ft]),
        }
    }
    fn kind(&self) -> &'static str {
        match self {
            Op::Add(_) => "add",
            Op::Update(..) => "update",
            Op::Remove(_) => "remove",
        }
    }
}

fn gen_value(rng: &mut Rng, name: &str, for_update: bool) -> Option<V> {
    // None = leave the field out
    match name {
        "email" => match rng.below(100) {
            0..=83 => Some(V::Text(rng.pick(&EMAILS).to_string())),
            84..=88 => Some(V::Int(7)),
            89..=93 => Some(V::Null),
            _ => if for_update { Some(V::Text(rng.pick(&EMAILS).to_string())) } else { None },
        },
        "tags" => match rng.below(100) {
            0..=39 => if for_update { Some(V::Null) } else { None },
            40..=44 => Some(V::ArrI(vec![1, 2])),
            45..=49 => Some(V::Text("t0".into())),
            _ => {
                let n = rng.below(4) as usize;
                let mut l: Vec<String> = (0..n).map(|_| rng.pick(&TAGS).to_string()).collect();
                if !rng.chance(1, 6) {
                    l.dedup();
                }
                Some(V::Arr(l))
            }
        },
        "a" => match rng.below(100) {
            0..=91 => Some(V::Int(rng.below(3) as i64)),
            92..=95 => Some(V::Text("no".into())),
            _ => if for_update { Some(V::Null) } else { None },
        },
        "b" => match rng.below(100) {
            0..=44 => if for_update { Some(V::Null) } else { None },
            45..=54 => Some(V::Null),
            55..=58 => Some(V::Int(3)),
            _ => Some(V::Text(if rng.chance(1, 2) { "x" } else { "y" }.into())),
        },
        "grp" => match rng.below(100) {
            0..=39 => if for_update { Some(V::Null) } else { None },
            _ => Some(V::Int(rng.below(2) as i64)),
        },
        _ => if rng.chance(1, 2) { Some(V::Text(format!("n{}", rng.below(3)))) } else { None },
    }
}

const VECS: [[i64; 4]; 4] = [[1, 0, 0, 0], [0, 1, 0, 0], [0, 0, 1, 0], [1, 1, 0, 0]];
fn gen_vec(rng: &mut Rng, for_update: bool) -> Option<V> {
    match rng.below(100) {
        0..=5 => if for_update { Some(V::Null) } else { None },
        6..=16 => Some(V::Vec(vec![1, 2])), // wrong dimension: the HNSW insert fails after the B-tree/BM25 inserts
        _ => Some(V::Vec(rng.pick(&VECS).to_vec())),
    }
}

fn gen_op(rng: &mut Rng, live: &[u64], next: u64, aux: bool) -> Op {
    let pick_id = |rng: &mut Rng| -> u64 {
        if !live.is_empty() && rng.chance(85, 100) { *rng.pick(live) } else { 1 + rng.below(next + 2) }
    };
    let k = rng.below(100);
    if k < 45 || live.is_empty() && k < 80 {
        let mut f = Fields::new();
        for n in ["email", "tags", "a", "b", "grp", "note"] {
            if let Some(v) = gen_value(rng, n, false) {
                f.insert(n.to_string(), v);
            }
        }
        if rng.chance(4, 100) {
            f.insert("zzz".to_string(), V::Text("u".into()));
        }
        if aux {
            if let Some(v) = gen_vec(rng, false) {
                f.insert("vec".to_string(), v);
            }
        }
        Op::Add(f)
    } else if k < 82 {
        let id = pick_id(rng);
        let mut f = Fields::new();
        if !rng.chance(3, 100) {
            let n = 1 + rng.below(3);
            for _ in 0..n {
                let name = *rng.pick(&["email", "tags", "a", "b", "grp", "note", "email", "tags", "b"]);
                if let Some(v) = gen_value(rng, name, true) {
                    f.insert(name.to_string(), v);
                }
            }
            if rng.chance(4, 100) {
                f.insert(if rng.chance(1, 2) { "zzz" } else { "aaa" }.to_string(), V::Text("u".into()));
            }
            if aux && rng.chance(1, 2) {
                if let Some(v) = gen_vec(rng, true) {
                    f.insert("vec".to_string(), v);
                }
            }
        }
        Op::Update(id, f)
    } else {
        Op::Remove(pick_id(rng))
    }
}

// ------------------------------------------------------------------------------------------ store that yields
struct YieldStore {
    inner: Arc<InMemory>,
    rng: Arc<Mutex<Rng>>,
    max_yields: u64,
    park: Option<Arc<Sched>>,
}
impl std::fmt::Debug for YieldStore {
    fn fmt(&self, f: &mut std::fmt::Formatter<'_>) -> std::fmt::Result {
        f.write_str("YieldStore")
    }
}
impl std::fmt::Display for YieldStore {
    fn fmt(&self, f: &mut std::fmt::Formatter<'_>) -> std::fmt::Result {
        f.write_str("YieldStore")
    }
}
tokio::task_local! { static TASK_ID: usize; }

/// Parked backend: every backend call of a contender waits until the explorer releases it.
#[derive(Default)]
struct Sched {
    waiting: Mutex<Vec<(usize, tokio::sync::oneshot::Sender<()>)>>,
}
impl Sched {
    async fn park(&self) {
        let Ok(t) = TASK_ID.try_with(|t| *t) else { return }; // setup / read-back: not a contender
        let (tx, rx) = tokio::sync::oneshot::channel();
        self.waiting.lock().unwrap().push((t, tx));
        let _ = rx.await;
    }
    fn parked(&self) -> Vec<usize> {
        let mut v: Vec<usize> = self.waiting.lock().unwrap().iter().map(|(t, _)| *t).collect();
        v.sort();
        v
    }
    fn release(&self, task: usize) {
        let mut w = self.waiting.lock().unwrap();
        if let Some(i) = w.iter().position(|(t, _)| *t == task) {
            let (_, tx) = w.remove(i);
            let _ = tx.send(());
        }
    }
}

impl YieldStore {
    async fn pause(&self) {
        if self.park.is_some() {
            return;
        }
        let n = { let mut r = self.rng.lock().unwrap(); if self.max_yields == 0 { 0 } else { r.below(self.max_yields + 1) } };
        for _ in 0..n {
            tokio::task::yield_now().await;
        }
    }
}
#[async_trait]
impl ObjectStore for YieldStore {
    async fn put_opts(&self, location: &Path, payload: PutPayload, opts: PutOptions) -> OsResult<PutResult> {
        if let Some(p) = &self.park { p.park().await; }
        self.pause().await;
        let r = self.inner.put_opts(location, payload, opts).await;
        self.pause().await;
        r
    }
    async fn put_multipart_opts(&self, location: &Path, opts: PutMultipartOptions) -> OsResult<Box<dyn MultipartUpload>> {
        self.inner.put_multipart_opts(location, opts).await
    }
    async fn get_opts(&self, location: &Path, options: GetOptions) -> OsResult<GetResult> {
        if let Some(p) = &self.park { p.park().await; }
        self.pause().await;
        let r = self.inner.get_opts(location, options).await;
        self.pause().await;
        r
    }
    fn delete_stream(&self, locations: BoxStream<'static, OsResult<Path>>) -> BoxStream<'static, OsResult<Path>> {
        let inner = self.inner.clone();
        let park = self.park.clone();
        locations
            .then(move |location| {
                let inner = inner.clone();
                let park = park.clone();
                async move {
                    let location = location?;
                    if let Some(p) = &park { p.park().await; }
                    tokio::task::yield_now().await;
                    inner.delete(&location).await?;
                    Ok(location)
                }
            })
            .boxed()
    }
    fn list(&self, prefix: Option<&Path>) -> BoxStream<'static, OsResult<ObjectMeta>> {
        self.inner.list(prefix)
    }
    fn list_with_offset(&self, prefix: Option<&Path>, offset: &Path) -> BoxStream<'static, OsResult<ObjectMeta>> {
        self.inner.list_with_offset(prefix, offset)
    }
    async fn list_with_delimiter(&self, prefix: Option<&Path>) -> OsResult<ListResult> {
        self.inner.list_with_delimiter(prefix).await
    }
    async fn copy_opts(&self, from: &Path, to: &Path, options: CopyOptions) -> OsResult<()> {
        self.inner.copy_opts(from, to, options).await
    }
}

// ------------------------------------------------------------------------------------------ collection
async fn new_collection(spec: &Spec, store: Arc<dyn ObjectStore>) -> (AndaDB, Arc<Collection>) {
    let db = AndaDB::connect(
        store,
        DBConfig {
            name: "c04".to_string(),
            description: "verif C04".to_string(),
            storage: StorageConfig { compress_level: 0, ..Default::default() },
            lock: None,
        },
    )
    .await
    .expect("db");
    let idx = spec.indexes.clone();
    let aux = spec.aux;
    let coll = db
        .open_or_create_collection(
            spec.schema(),
            CollectionConfig { name: "c".to_string(), description: "verif C04".to_string() },
            async move |c: &mut Collection| {
                for fs in &idx {
                    c.create_btree_index_nx(fs).await?;
                }
                if aux {
                    c.create_bm25_index_nx(&["note"]).await?;
                    c.create_hnsw_index_nx("vec", anda_db::index::HnswConfig { dimension: 4, ..Default::default() }).await?;
                }
                Ok(())
            },
        )
        .await
        .expect("collection");
    (db, coll)
}

fn build_doc(coll: &Collection, f: &Fields) -> Result<Document, &'static str> {
    let mut d = Document::new(coll.schema());
    d.set_id(0);
    for (k, v) in f {
        if let Err(e) = d.set_field(k, v.fv()) {
            return Err(classify_schema_msg(&e.to_string()));
        }
    }
    Ok(d)
}

async fn apply(coll: &Collection, op: &Op) -> Res {
    match op {
        Op::Add(f) => match build_doc(coll, f) {
            Err(e) => Res::Err(e),
            Ok(d) => match coll.add(d).await {
                Ok(id) => Res::Id(id),
                Err(e) => Res::Err(classify(&e)),
            },
        },
        Op::Update(id, f) => {
            let m: BTreeMap<String, Fv> = f.iter().map(|(k, v)| (k.clone(), v.fv())).collect();
            match coll.update(*id, m).await {
                Ok(_) => Res::Ok,
                Err(e) => Res::Err(classify(&e)),
            }
        }
        Op::Remove(id) => match coll.remove(*id).await {
            Ok(d) => Res::Removed(d.is_some()),
            Err(e) => Res::Err(classify(&e)),
        },
    }
}

#[derive(Clone, Debug, PartialEq)]
struct Snap {
    ids: Vec<u64>,
    docs: BTreeMap<u64, Vec<V>>,
    look: Vec<Vec<u64>>,
    raw: Vec<Vec<u64>>,
    poisoned: bool,
    errors: Vec<String>,
    bm25: Vec<Vec<u64>>,
    hnsw_n: u64,
    hnsw_ids: Vec<u64>,
}

async fn snapshot(spec: &Spec, coll: &Collection, uni: &[(usize, Key)]) -> Snap {
    let mut ids = coll.ids();
    ids.sort();
    let mut docs = BTreeMap::new();
    let mut errors = Vec::new();
    for id in &ids {
        match coll.get(*id).await {
            Ok(d) => {
                docs.insert(*id, spec.fields.iter().map(|f| V::from_fv(d.get_field(f.name))).collect());
            }
            Err(e) => errors.push(format!("get({id}): {e:?}")),
        }
    }
    let mut look = Vec::new();
    let mut raw = Vec::new();
    for (j, k) in uni {
        let name = spec.indexes[*j].join("-");
        let fv = k.fv();
        match coll.query_all_ids(Filter::Field((name.clone(), RangeQuery::Eq(fv.clone())))).await {
            Ok(mut v) => {
                v.sort();
                look.push(v);
            }
            Err(e) => {
                errors.push(format!("query {name}: {e:?}"));
                look.push(vec![]);
            }
        }
        let fields: Vec<&str> = spec.indexes[*j].to_vec();
        match coll.get_btree_index(&fields) {
            Ok(view) => {
                let mut v = view.query_with(&fv, |ids| Some(ids.clone())).unwrap_or_default();
                v.sort();
                raw.push(v);
            }
            Err(e) => {
                errors.push(format!("view {name}: {e:?}"));
                raw.push(vec![]);
            }
        }
    }
    let mut bm25 = Vec::new();
    let mut hnsw_n = 0;
    let mut hnsw_ids = Vec::new();
    if spec.aux {
        match coll.get_bm25_index(&["note"]) {
            Ok(view) => {
                for t in ["n0", "n1", "n2"] {
                    let mut v: Vec<u64> = view.search(t, 10_000, None).into_iter().map(|(i, _)| i).collect();
                    v.sort();
                    bm25.push(v);
                }
            }
            Err(e) => errors.push(format!("bm25 view: {e:?}")),
        }
        match coll.get_hnsw_index("vec") {
            Ok(view) => {
                hnsw_n = view.stats().num_elements;
                let mut all = BTreeSet::new();
                for q in VECS.iter() {
                    let qf: Vec<f32> = q.iter().map(|x| *x as f32).collect();
                    for (i, _) in view.search(&qf, 1000) {
                        all.insert(i);
                    }
                }
                hnsw_ids = all.into_iter().collect();
            }
            Err(e) => errors.push(format!("hnsw view: {e:?}")),
        }
    }
    Snap { ids, docs, look, raw, poisoned: coll.is_poisoned(), errors, bm25, hnsw_n, hnsw_ids }
}

fn norm(spec: &Spec, f: &Fields) -> Vec<V> {
    spec.fields.iter().map(|fs| f.get(fs.name).cloned().unwrap_or(V::Null)).collect()
}

/// U and C on one snapshot against the harness's copy of the documents
fn check_snapshot(spec: &Spec, uni: &[(usize, Key)], snap: &Snap, copy: &BTreeMap<u64, Fields>, fault_fired: bool) -> Vec<String> {
    let mut bad = Vec::new();
    if !snap.errors.is_empty() {
        bad.push(format!("read errors: {:?}", snap.errors));
    }
    if snap.poisoned && !fault_fired {
        bad.push("handle poisoned without any storage fault".to_string());
    }
    let want_ids: Vec<u64> = copy.keys().cloned().collect();
    if snap.ids != want_ids {
        bad.push(format!("ids {:?} != expected {:?}", snap.ids, want_ids));
    }
    for (id, f) in copy {
        if snap.docs.get(id) != Some(&norm(spec, f)) {
            bad.push(format!("doc {id}: stored {:?} != expected {:?}", snap.docs.get(id), norm(spec, f)));
        }
    }
    for (n, (j, k)) in uni.iter().enumerate() {
        let want: Vec<u64> = copy.iter().filter(|(_, f)| derive(spec, *j, f).contains(k)).map(|(i, _)| *i).collect();
        if snap.look[n] != want {
            bad.push(format!("C: index {:?} key {:?}: query_all_ids {:?} != derived {:?}", spec.indexes[*j], k, snap.look[n], want));
        }
        if snap.raw[n] != snap.look[n] {
            bad.push(format!("C: index {:?} key {:?}: raw posting {:?} != query {:?}", spec.indexes[*j], k, snap.raw[n], snap.look[n]));
        }
        if spec.is_unique(*j) && snap.raw[n].len() > 1 {
            bad.push(format!("U: unique index {:?} key {:?} has owners {:?}", spec.indexes[*j], k, snap.raw[n]));
        }
    }
    if spec.aux {
        for (n, t) in ["n0", "n1", "n2"].iter().enumerate() {
            let want: Vec<u64> = copy.iter().filter(|(_, f)| f.get("note") == Some(&V::Text(t.to_string()))).map(|(i, _)| *i).collect();
            if snap.bm25.get(n) != Some(&want) {
                bad.push(format!("C: BM25 index [note] term {t}: search {:?} != derived {:?}", snap.bm25.get(n), want));
            }
        }
        let want: Vec<u64> = copy.iter().filter(|(_, f)| matches!(f.get("vec"), Some(V::Vec(v)) if v.len() == 4)).map(|(i, _)| *i).collect();
        if snap.hnsw_n != want.len() as u64 {
            bad.push(format!("C: HNSW index [vec] holds {} elements, documents derive {:?}", snap.hnsw_n, want));
        }
        if !snap.hnsw_ids.iter().all(|i| want.contains(i)) {
            bad.push(format!("C: HNSW index [vec] returns ids {:?} not all in derived {:?}", snap.hnsw_ids, want));
        }
    }
    bad
}

fn apply_copy(copy: &mut BTreeMap<u64, Fields>, op: &Op, res: &Res) {
    match (op, res) {
        (Op::Add(f), Res::Id(id)) => {
            copy.insert(*id, f.clone());
        }
        (Op::Update(id, f), Res::Ok) => {
            if let Some(d) = copy.get_mut(id) {
                for (k, v) in f {
                    d.insert(k.clone(), v.clone());
                }
            }
        }
        (Op::Remove(id), Res::Removed(true)) => {
            copy.remove(id);
        }
        _ => {}
    }
}

fn snap_term(spec: &Spec, uni: &[(usize, Key)], results: &[Res], s: &Snap) -> Value {
    let _ = spec;
    tup(vec![
        Value::Array(results.iter().map(|r| r.term()).collect()),
        json!(s.ids),
        Value::Array(s.docs.iter().map(|(i, d)| tup(vec![json!(i), Value::Array(d.iter().map(|v| v.term()).collect())])).collect()),
        Value::Array(uni.iter().zip(s.look.iter()).map(|((j, k), ids)| tup(vec![nat(*j), k.term(), json!(ids)])).collect()),
        json!(s.poisoned),
    ])
}

// ------------------------------------------------------------------------------------------ seq
async fn run_seq(args: &[String], out: &mut dyn Write) {
    let cases = arg_value(args, "--cases").and_then(|s| s.parse().ok()).unwrap_or(150usize);
    let maxlen = arg_value(args, "--len").and_then(|s| s.parse().ok()).unwrap_or(36u64);
    let mut rng = Rng::from_env();
    let mut failures: Vec<Value> = Vec::new();
    let mut n_fail = 0usize;
    let mut evaluations = 0usize;
    let mut kinds: BTreeMap<String, usize> = BTreeMap::new();
    let mut lens: BTreeMap<usize, usize> = BTreeMap::new();
    let mut nix: BTreeMap<usize, usize> = BTreeMap::new();
    let mut probes = 0usize;
    let mut aux_cases = 0usize;
    let mut rejected_checks = 0usize;
    for case in 0..cases {
        let aux = case % 4 == 3;
        let spec = gen_spec(&mut rng, aux);
        let uni = universe(&spec);
        let faulty = rng.chance(1, 4);
        let (fstore, fhandle): (FaultStore<InMemory>, FaultHandle) = FaultStore::wrap(InMemory::new());
        let (db, coll) = new_collection(&spec, Arc::new(fstore)).await;
        let mut faults: Vec<Option<bool>> = Vec::new();
        let mut fault_fired = false;
        let len = 4 + rng.below(maxlen - 3);
        let mut copy: BTreeMap<u64, Fields> = BTreeMap::new();
        let mut ops: Vec<Op> = Vec::new();
        let mut results: Vec<Res> = Vec::new();
        let mut prev = snapshot(&spec, &coll, &uni).await;
        let mut next = 0u64;
        *nix.entry(spec.indexes.len()).or_default() += 1;
        let fail = |what: String, ops: &Vec<Op>, results: &Vec<Res>, failures: &mut Vec<Value>, n_fail: &mut usize| {
            *n_fail += 1;
            if failures.len() < 5 {
                failures.push(json!({
                    "what": what, "case": case,
                    "schema": spec.fields.iter().map(|f| format!("{}:{:?}{}{}", f.name, f.ty, if f.opt {"?"} else {""}, if f.unique {" unique"} else {""})).collect::<Vec<_>>(),
                    "indexes_in_creation_order": spec.indexes,
                    "history": ops.iter().zip(results.iter()).map(|(o, r)| format!("{o:?} => {r:?}")).collect::<Vec<_>>(),
                }));
            }
        };
        for _ in 0..len {
            let live: Vec<u64> = copy.keys().cloned().collect();
            let op = gen_op(&mut rng, &live, next, aux);
            // storage fault on the document write of this operation (only in "faulty" histories)
            let fault: Option<bool> = if faulty && rng.chance(1, 7) { Some(!rng.chance(1, 3)) } else { None };
            if let Some(cleanup_ok) = fault {
                match &op {
                    Op::Add(_) => {
                        fhandle.push_rule(FaultRule::fail_once(FaultOp::Put, "data/"));
                        if !cleanup_ok {
                            fhandle.push_rule(FaultRule::fail_once(FaultOp::Delete, "data/"));
                        }
                    }
                    Op::Update(..) => fhandle.push_rule(FaultRule::fail_once(FaultOp::Put, "data/")),
                    Op::Remove(_) => fhandle.push_rule(FaultRule::fail_once(FaultOp::Delete, "data/")),
                }
            }
            let res = match AssertUnwindSafe(apply(&coll, &op)).catch_unwind().await {
                Ok(r) => r,
                Err(_) => Res::Err("EPanic"),
            };
            fhandle.reset();
            if fault.is_some() && res == Res::Err("EStorage") {
                fault_fired = true;
                *kinds.entry(format!("{}:storage-fault", op.kind())).or_default() += 1;
            }
            faults.push(fault);
            if let Res::Id(id) = res {
                next = next.max(id);
            }
            let key = format!("{}:{}", op.kind(), match &res { Res::Err(e) => e, Res::Removed(false) => "absent", _ => "ok" });
            *kinds.entry(key).or_default() += 1;
            apply_copy(&mut copy, &op, &res);
            ops.push(op);
            results.push(res.clone());
            let snap = snapshot(&spec, &coll, &uni).await;
            evaluations += 1 + uni.len();
            // R: a rejected write (and a remove of an absent id) changes nothing observable
            if res.rejected() || res == Res::Removed(false) {
                rejected_checks += 1;
                let mut before = prev.clone();
                if res == Res::Err("EStorage") {
                    before.poisoned = snap.poisoned; // a storage fault may retire the handle; nothing else may change
                }
                if snap != before {
                    fail(format!("rejected-write-changed-state: before {:?} after {:?}", prev, snap), &ops, &results, &mut failures, &mut n_fail);
                }
            }
            for b in check_snapshot(&spec, &uni, &snap, &copy, fault_fired) {
                let cls = if b.starts_with("U:") { "duplicate-unique-owner" } else { "index-diverged-from-documents" };
                fail(format!("{cls}: {b}"), &ops, &results, &mut failures, &mut n_fail);
            }
            prev = snap;
        }
        *lens.entry(ops.len() / 10 * 10).or_default() += 1;
        let (st, ix) = spec.term();
        if aux {
            aux_cases += 1;
            let _ = db.close().await;
            continue; // oracle only: BM25 / HNSW are not in the Coq model
        }
        let line = json!({"kind": "model",
            "case": tup(vec![st, ix, Value::Array(ops.iter().zip(faults.iter()).map(|(o, f)| o.term(*f)).collect())]),
            "obs": snap_term(&spec, &uni, &results, &prev)});
        writeln!(out, "{line}").unwrap();
        // V: every unique key without an owner is insertable
        for (n, (j, k)) in uni.iter().enumerate() {
            if !spec.is_unique(*j) || !prev.raw[n].is_empty() || prev.poisoned {
                continue;
            }
            let mut f = Fields::new();
            f.insert("email".into(), V::Text(format!("probe{n}")));
            f.insert("a".into(), V::Int(1000 + n as i64));
            match (spec.indexes[*j].as_slice(), k) {
                (["email"], Key::S(v)) => { f.insert("email".into(), v.clone()); }
                (["tags"], Key::S(V::Text(t))) => { f.insert("tags".into(), V::Arr(vec![t.clone()])); }
                ([x, y], Key::T(l)) => {
                    if *x == "email" && l[0] == V::Null && !spec.fields[0].opt { continue; }
                    for (nm, v) in [(x, &l[0]), (y, &l[1])] {
                        if *v == V::Null { f.remove(*nm); } else { f.insert(nm.to_string(), v.clone()); }
                    }
                    // the probe must not collide on the other unique indexes
                    if *x == "email" && !copy.values().all(|d| d.get("email") != f.get("email")) { continue; }
                }
                _ => continue,
            }
            // skip probes that would collide on another unique index with a live document
            let collides = (0..spec.indexes.len()).any(|j2| j2 != *j && spec.is_unique(j2)
                && copy.values().any(|d| !derive(&spec, j2, d).is_disjoint(&derive(&spec, j2, &f))));
            if collides { continue; }
            probes += 1;
            evaluations += 1;
            match apply(&coll, &Op::Add(f.clone())).await {
                Res::Id(id) => {
                    let _ = coll.remove(id).await;
                }
                r => fail(format!("free-value-not-insertable: index {:?} key {:?} has no owner but add({:?}) => {:?}", spec.indexes[*j], k, f, r), &ops, &results, &mut failures, &mut n_fail),
            }
        }
        let _ = db.close().await;
    }
    let summary = json!({"kind": "summary", "cases": cases, "evaluations": evaluations, "oracle_failures": n_fail,
        "failures": failures, "op_outcomes": kinds, "history_lengths": lens, "indexes_per_schema": nix,
        "rejected_noop_checks": rejected_checks, "insertable_probes": probes, "aux_cases_bm25_hnsw_oracle_only": aux_cases});
    writeln!(out, "{summary}").unwrap();
}

// ------------------------------------------------------------------------------------------ conc
#[derive(Clone, Debug)]
struct Contender {
    op: Op,
    pre_yields: u64,
}

async fn conc_round(rng: &mut Rng, multi: bool, wide: bool, round: usize) -> (Value, Vec<String>, usize) {
    let spec = Spec {
        fields: vec![
            FieldSpec { name: "email", ty: Ty::Text, opt: true, unique: true },
            FieldSpec { name: "tags", ty: Ty::ArrText, opt: true, unique: true },
            FieldSpec { name: "a", ty: Ty::Int, opt: false, unique: false },
            FieldSpec { name: "b", ty: Ty::Text, opt: true, unique: false },
            FieldSpec { name: "grp", ty: Ty::Int, opt: true, unique: false },
            FieldSpec { name: "note", ty: Ty::Text, opt: true, unique: false },
        ],
        indexes: vec![vec!["grp"], vec!["email"], vec!["a", "b"], vec!["tags"]],
        aux: false,
    };
    let mut uni = universe(&spec);
    let store: Arc<dyn ObjectStore> = Arc::new(YieldStore {
        inner: Arc::new(InMemory::new()),
        rng: Arc::new(Mutex::new(rng.fork())),
        max_yields: if multi { 1 } else { 3 },
        park: None,
    });
    let (db, coll) = new_collection(&spec, store).await;
    let mut copy: BTreeMap<u64, Fields> = BTreeMap::new();
    // pre-existing documents: one per contender (for the update flavours) and possibly a holder of the value
    let n = 2 + rng.below(2) as usize;
    let mode = rng.below(4); // 0 email scalar, 1 tags array, 2 composite (a,b), 3 mixed email
    let mut own: Vec<u64> = Vec::new();
    for i in 0..n {
        let mut f = Fields::new();
        f.insert("email".into(), V::Text(format!("own{i}")));
        f.insert("a".into(), V::Int(10 + i as i64));
        f.insert("tags".into(), V::Arr(vec![format!("own{i}")]));
        let r = apply(&coll, &Op::Add(f.clone())).await;
        if let Res::Id(id) = r {
            copy.insert(id, f);
            own.push(id);
        }
    }
    let held = rng.chance(1, 5);
    let contested: Fields = match mode {
        1 => [("tags".to_string(), V::Arr(vec!["t1".into()]))].into(),
        2 => [("a".to_string(), V::Int(1)), ("b".to_string(), V::Text("x".into()))].into(),
        _ => [("email".to_string(), V::Text("e1".into()))].into(),
    };
    if held {
        let mut f = contested.clone();
        f.entry("a".into()).or_insert(V::Int(99));
        if let Res::Id(id) = apply(&coll, &Op::Add(f.clone())).await {
            copy.insert(id, f);
        }
    }
    let wide_n = if wide { 60 + rng.below(200) as usize } else { 0 };
    let mut cs: Vec<Contender> = Vec::new();
    for i in 0..n {
        let as_update = rng.chance(1, 2);
        let mut f = contested.clone();
        if mode == 1 {
            // array flavour: the contested tag among private ones
            let mut l: Vec<String> = vec![];
            let extra = if wide && i == 0 { wide_n } else { rng.below(3) as usize };
            for x in 0..extra {
                l.push(format!("p{i}_{x}"));
            }
            l.insert(rng.below(l.len() as u64 + 1) as usize, "t1".into());
            f.insert("tags".into(), V::Arr(l));
        }
        let op = if as_update || (wide && i == 0) {
            if mode == 2 && rng.chance(1, 2) {
                // move into the contested tuple by changing one component only
                let id = own[i];
                let mut pre = copy.get(&id).cloned().unwrap();
                pre.insert("a".into(), V::Int(1));
                if apply(&coll, &Op::Update(id, [("a".to_string(), V::Int(1))].into())).await == Res::Ok {
                    copy.insert(id, pre);
                    Op::Update(id, [("b".to_string(), V::Text("x".into()))].into())
                } else {
                    Op::Update(id, f)
                }
            } else {
                Op::Update(own[i], f)
            }
        } else {
            f.entry("a".into()).or_insert(V::Int(50 + i as i64));
            if mode != 0 && mode != 3 {
                f.insert("email".into(), V::Text(format!("new{i}")));
            }
            Op::Add(f)
        };
        cs.push(Contender { op, pre_yields: rng.below(6) });
    }
    for (j, fs) in spec.indexes.iter().enumerate() {
        if fs.as_slice() == ["tags"] {
            for i in 0..n {
                uni.push((j, Key::S(V::Text(format!("own{i}")))));
                for x in 0..(if wide && i == 0 { wide_n } else { 3 }) {
                    uni.push((j, Key::S(V::Text(format!("p{i}_{x}")))));
                }
            }
        }
        if fs.as_slice() == ["email"] {
            for i in 0..n {
                uni.push((j, Key::S(V::Text(format!("own{i}")))));
                uni.push((j, Key::S(V::Text(format!("new{i}")))));
            }
        }
    }
    let mut handles = Vec::new();
    for c in cs.iter().cloned() {
        let coll = coll.clone();
        handles.push(tokio::spawn(async move {
            for _ in 0..c.pre_yields {
                tokio::task::yield_now().await;
            }
            apply(&coll, &c.op).await
        }));
    }
    let mut results = Vec::new();
    for h in handles {
        results.push(h.await.unwrap_or(Res::Err("EPanic")));
    }
    let mut bad = Vec::new();
    let winners = results.iter().filter(|r| !r.rejected()).count();
    let want = if held { 0 } else { 1 };
    if winners != want {
        bad.push(format!("winner-count: {winners} writers succeeded for one contested value (expected {want})"));
    }
    for r in &results {
        if let Res::Err(e) = r {
            if *e != "EUnique" {
                bad.push(format!("loser-error: a contender failed with {e} instead of the uniqueness conflict"));
            }
        }
    }
    // final state = the successful operations alone (any order: at most one touches the contested value)
    for (c, r) in cs.iter().zip(results.iter()) {
        apply_copy(&mut copy, &c.op, r);
    }
    let snap = snapshot(&spec, &coll, &uni).await;
    // a rejected update of the unique array field whose (private) values stayed in the index
    let rejected_array_update = cs.iter().zip(results.iter()).any(|(c, r)| {
        matches!((&c.op, r), (Op::Update(_, f), Res::Err("EUnique")) if matches!(f.get("tags"), Some(V::Arr(_))))
    });
    for b in check_snapshot(&spec, &uni, &snap, &copy, false) {
        let cls = if b.starts_with("U:") {
            "duplicate-unique-owner"
        } else if rejected_array_update && b.contains("index [\"tags\"]") && b.contains("!= derived []") {
            "conc-rejected-array-update-leaves-postings"
        } else {
            "conc-index-diverged-from-documents"
        };
        bad.push(format!("{cls}: {b}"));
    }
    let _ = db.close().await;
    let desc = json!({"round": round, "multi_thread": multi, "wide_array": wide_n, "value_already_held": held,
        "contenders": cs.iter().zip(results.iter()).map(|(c, r)| format!("yields={} {:?} => {:?}", c.pre_yields, c.op, r)).collect::<Vec<_>>()});
    (desc, bad, 1 + uni.len())
}

fn run_conc(args: &[String], out: &mut dyn Write) {
    let rounds = arg_value(args, "--rounds").and_then(|s| s.parse().ok()).unwrap_or(300usize);
    let wide_rounds = arg_value(args, "--wide").and_then(|s| s.parse().ok()).unwrap_or(60usize);
    let mut rng = Rng::from_env();
    let single = tokio::runtime::Builder::new_current_thread().enable_all().build().unwrap();
    let multi = tokio::runtime::Builder::new_multi_thread().worker_threads(4).enable_all().build().unwrap();
    let mut failures: Vec<Value> = Vec::new();
    let mut n_fail = 0usize;
    let mut evaluations = 0usize;
    let mut shapes: BTreeMap<String, usize> = BTreeMap::new();
    for round in 0..(rounds + wide_rounds) {
        let wide = round >= rounds;
        let use_multi = wide || round % 3 == 2;
        let mut r2 = rng.fork();
        let (desc, bad, ev) = if use_multi {
            multi.block_on(conc_round(&mut r2, true, wide, round))
        } else {
            single.block_on(conc_round(&mut r2, false, wide, round))
        };
        evaluations += ev;
        *shapes.entry(format!("{}{}", if use_multi { "multi" } else { "single" }, if wide { "-wide" } else { "" })).or_default() += 1;
        if !bad.is_empty() {
            n_fail += 1;
            if failures.len() < 200 {
                failures.push(json!({"what": bad[0], "all": bad.iter().take(6).collect::<Vec<_>>(), "schedule": desc}));
            }
        }
    }
    let summary = json!({"kind": "summary", "rounds": rounds + wide_rounds, "evaluations": evaluations,
        "oracle_failures": n_fail, "failures": failures, "runtimes": shapes});
    writeln!(out, "{summary}").unwrap();
}


// ------------------------------------------------------------------------------------------ crash
/// One deterministic C04 workload (mixed accepted/rejected writes, a flush every few operations) on `store`.
/// Stops at the first storage error (the simulated power failure). Returns (mutations after setup, versions every
/// id may legally hold after a crash, the last id handed out).
async fn crash_workload(
    spec: &Spec,
    store: Arc<dyn ObjectStore>,
    handle: &FaultHandle,
    seed: u64,
    len: usize,
) -> (u64, BTreeMap<u64, Vec<Vec<V>>>, Vec<String>) {
    let mut rng = Rng::new(seed);
    let mut versions: BTreeMap<u64, Vec<Vec<V>>> = BTreeMap::new();
    let mut trace = Vec::new();
    let opened = AssertUnwindSafe(async {
        let db = AndaDB::connect(store, DBConfig {
            name: "c04".to_string(), description: "verif C04".to_string(),
            storage: StorageConfig { compress_level: 0, ..Default::default() }, lock: None,
        }).await?;
        let idx = spec.indexes.clone();
        let coll = db.open_or_create_collection(spec.schema(),
            CollectionConfig { name: "c".to_string(), description: "verif C04".to_string() },
            async move |c: &mut Collection| { for fs in &idx { c.create_btree_index_nx(fs).await?; } Ok(()) }).await?;
        Ok::<_, DBError>((db, coll))
    }).catch_unwind().await;
    let (db, coll) = match opened { Ok(Ok(x)) => x, _ => return (u64::MAX, versions, trace) };
    let _ = coll.flush(anda_db::unix_ms()).await;
    let setup = handle.mutation_count();
    let mut copy: BTreeMap<u64, Fields> = BTreeMap::new();
    let mut next = 0u64;
    for n in 0..len {
        let live: Vec<u64> = copy.keys().cloned().collect();
        let op = gen_op(&mut rng, &live, next, false);
        let res = match AssertUnwindSafe(apply(&coll, &op)).catch_unwind().await { Ok(r) => r, Err(_) => Res::Err("EPanic") };
        trace.push(format!("{op:?} => {res:?}"));
        if let Res::Id(id) = res { next = next.max(id); }
        if res == Res::Err("EStorage") || res == Res::Err("EPanic") {
            // the in-flight operation may or may not have reached the store
            match &op {
                Op::Add(f) => versions.entry(next + 1).or_default().push(norm(spec, f)),
                Op::Update(id, f) => if let Some(d) = copy.get(id) { let mut m = d.clone(); for (k, v) in f { m.insert(k.clone(), v.clone()); } versions.entry(*id).or_default().push(norm(spec, &m)); },
                Op::Remove(_) => {}
            }
            break;
        }
        apply_copy(&mut copy, &op, &res);
        match (&op, &res) {
            (Op::Add(_), Res::Id(id)) => versions.entry(*id).or_default().push(norm(spec, &copy[id])),
            (Op::Update(id, _), Res::Ok) => versions.entry(*id).or_default().push(norm(spec, &copy[id])),
            _ => {}
        }
        if n % 5 == 4 {
            if coll.flush(anda_db::unix_ms()).await.is_err() { trace.push("flush => Err".into()); break; }
        }
    }
    std::mem::forget(db); // the process dies: no close, no final flush
    (setup, versions, trace)
}

async fn run_crash(args: &[String], out: &mut dyn Write) {
    let cases = arg_value(args, "--cases").and_then(|s| s.parse().ok()).unwrap_or(6usize);
    let points = arg_value(args, "--points").and_then(|s| s.parse().ok()).unwrap_or(10u64); // 0 = every crash point
    let len = arg_value(args, "--len").and_then(|s| s.parse().ok()).unwrap_or(24usize);
    let mut rng = Rng::from_env();
    let mut failures: Vec<Value> = Vec::new();
    let (mut n_fail, mut evaluations, mut recoveries, mut total_points) = (0usize, 0usize, 0usize, 0u64);
    for case in 0..cases {
        let spec = gen_spec(&mut rng, false);
        let uni = universe(&spec);
        let seed = rng.next();
        // dry run: how many backend mutations does the workload make
        let (fs0, h0) = FaultStore::wrap(InMemory::new());
        let (setup, _, _) = crash_workload(&spec, Arc::new(fs0), &h0, seed, len).await;
        let total = h0.mutation_count();
        let span = total.saturating_sub(setup);
        let ks: Vec<u64> = if points == 0 || span <= points { (1..=span).collect() }
            else { let mut v: Vec<u64> = (0..points).map(|i| 1 + i * span / points).collect(); v.push(1 + rng.below(span)); v.sort(); v.dedup(); v };
        total_points += span;
        for k in ks {
            let (fs, h) = FaultStore::wrap(InMemory::new());
            let store: Arc<dyn ObjectStore> = Arc::new(fs);
            h.crash_after_mutations(setup + k);
            let (_, versions, trace) = crash_workload(&spec, store.clone(), &h, seed, len).await;
            h.reset(); // reboot
            let mut bad: Vec<String> = Vec::new();
            let reopened = AssertUnwindSafe(async {
                let db = AndaDB::connect(store.clone(), DBConfig {
                    name: "c04".to_string(), description: "verif C04".to_string(),
                    storage: StorageConfig { compress_level: 0, ..Default::default() }, lock: None,
                }).await?;
                let idx = spec.indexes.clone();
                let coll = db.open_or_create_collection(spec.schema(),
                    CollectionConfig { name: "c".to_string(), description: "verif C04".to_string() },
                    async move |c: &mut Collection| { for fs in &idx { c.create_btree_index_nx(fs).await?; } Ok(()) }).await?;
                Ok::<_, DBError>((db, coll))
            }).catch_unwind().await;
            match reopened {
                Ok(Ok((db, coll))) => {
                    recoveries += 1;
                    let snap = snapshot(&spec, &coll, &uni).await;
                    evaluations += 1 + uni.len();
                    // the recovered documents are the reference: U and C must hold for them
                    let mut copy: BTreeMap<u64, Fields> = BTreeMap::new();
                    for (id, vals) in &snap.docs {
                        let f: Fields = spec.fields.iter().zip(vals.iter()).filter(|(_, v)| **v != V::Null).map(|(fs, v)| (fs.name.to_string(), v.clone())).collect();
                        if !versions.get(id).map(|vs| vs.contains(vals)).unwrap_or(false) {
                            bad.push(format!("crash-recovered-unknown-document: id {id} = {vals:?} is no version this history wrote"));
                        }
                        copy.insert(*id, f);
                    }
                    for b in check_snapshot(&spec, &uni, &snap, &copy, false) {
                        let cls = if b.starts_with("U:") { "crash-duplicate-unique-owner" } else { "crash-index-diverged-from-documents" };
                        bad.push(format!("{cls}: {b}"));
                    }
                    // no two recovered documents share a key of a unique index (read off the documents themselves)
                    for j in 0..spec.indexes.len() {
                        if !spec.is_unique(j) { continue; }
                        let mut seen: BTreeMap<Key, u64> = BTreeMap::new();
                        for (id, f) in &copy {
                            for key in derive(&spec, j, f) {
                                if let Some(o) = seen.insert(key.clone(), *id) {
                                    bad.push(format!("crash-duplicate-unique-owner: documents {o} and {id} both hold {key:?} of unique index {:?} after recovery", spec.indexes[j]));
                                }
                            }
                        }
                    }
                    // the recovered handle accepts a fresh write
                    let mut f = Fields::new();
                    f.insert("email".into(), V::Text("after-crash".into()));
                    f.insert("a".into(), V::Int(4242));
                    if !matches!(apply(&coll, &Op::Add(f)).await, Res::Id(_)) {
                        bad.push("crash-recovered-handle-rejects-fresh-write: add of unused unique values failed after recovery".into());
                    }
                    let _ = db.close().await;
                }
                Ok(Err(e)) => bad.push(format!("crash-reopen-failed: {e:?}")),
                Err(_) => bad.push("crash-reopen-failed: panic".into()),
            }
            if !bad.is_empty() {
                n_fail += 1;
                if failures.len() < 5 {
                    failures.push(json!({"what": bad[0], "all": bad.iter().take(6).collect::<Vec<_>>(), "case": case, "crash_after_mutations": k,
                        "indexes_in_creation_order": spec.indexes, "history": trace}));
                }
            }
        }
    }
    let summary = json!({"kind": "summary", "cases": cases, "evaluations": evaluations, "oracle_failures": n_fail, "failures": failures,
        "recoveries": recoveries, "crash_points_in_histories": total_points});
    writeln!(out, "{summary}").unwrap();
}

// ------------------------------------------------------------------------------------------ systematic interleavings
/// One run of `ops` as concurrent tasks over a parked backend, following `schedule` (choice index at every decision
/// point, 0 beyond its end). Returns the number of options seen at every decision point, the results and the findings.
async fn sys_run(spec: &Spec, pre: &[Fields], ops: &[Op], schedule: &[usize]) -> (Vec<usize>, Vec<Res>, Vec<String>) {
    let sched = Arc::new(Sched::default());
    let store: Arc<dyn ObjectStore> = Arc::new(YieldStore {
        inner: Arc::new(InMemory::new()), rng: Arc::new(Mutex::new(Rng::new(1))), max_yields: 0, park: Some(sched.clone()),
    });
    let (db, coll) = new_collection(spec, store).await;
    let mut copy: BTreeMap<u64, Fields> = BTreeMap::new();
    for f in pre {
        if let Res::Id(id) = apply(&coll, &Op::Add(f.clone())).await {
            copy.insert(id, f.clone());
        }
    }
    let n = ops.len();
    let results: Arc<Mutex<Vec<Option<Res>>>> = Arc::new(Mutex::new(vec![None; n]));
    for (i, op) in ops.iter().cloned().enumerate() {
        let coll = coll.clone();
        let results = results.clone();
        tokio::spawn(TASK_ID.scope(i, async move {
            let r = apply(&coll, &op).await;
            results.lock().unwrap()[i] = Some(r);
        }));
    }
    let mut options = Vec::new();
    let mut bad = Vec::new();
    loop {
        // run until every contender is parked at a backend call, blocked behind a parked one, or finished
        let mut last = (usize::MAX, usize::MAX);
        let mut stable = 0;
        loop {
            tokio::task::yield_now().await;
            let cur = (sched.parked().len(), results.lock().unwrap().iter().filter(|r| r.is_some()).count());
            if cur == last { stable += 1; } else { stable = 0; last = cur; }
            if cur.0 + cur.1 == n || stable >= 40 { break; }
        }
        let done = results.lock().unwrap().iter().filter(|r| r.is_some()).count();
        if done == n { break; }
        let parked = sched.parked();
        if parked.is_empty() {
            bad.push("sys-stuck: contenders neither finished nor waiting for the backend".to_string());
            break;
        }
        let d = options.len();
        let c = schedule.get(d).cloned().unwrap_or(0).min(parked.len() - 1);
        options.push(parked.len());
        sched.release(parked[c]);
    }
    let res: Vec<Res> = results.lock().unwrap().iter().map(|r| r.clone().unwrap_or(Res::Err("EStuck"))).collect();
    for (op, r) in ops.iter().zip(res.iter()) {
        apply_copy(&mut copy, op, r);
    }
    let mut uni = universe(spec);
    for (j, fs) in spec.indexes.iter().enumerate() {
        for v in ["own0", "own1", "own2", "x0", "x1", "x2"] {
            if fs.as_slice() == ["tags"] || fs.as_slice() == ["email"] { uni.push((j, Key::S(V::Text(v.to_string())))); }
        }
    }
    let snap = snapshot(spec, &coll, &uni).await;
    for b in check_snapshot(spec, &uni, &snap, &copy, false) {
        let cls = if b.starts_with("U:") { "duplicate-unique-owner" } else { "conc-index-diverged-from-documents" };
        bad.push(format!("{cls}: {b}"));
    }
    let _ = db.close().await;
    (options, res, bad)
}

/// Every interleaving (at backend-call granularity) of small sets of writers contending for one unique value.
async fn run_sys(args: &[String], out: &mut dyn Write) {
    let cap = arg_value(args, "--cap").and_then(|s| s.parse().ok()).unwrap_or(400usize);
    let spec = Spec {
        fields: vec![
            FieldSpec { name: "email", ty: Ty::Text, opt: true, unique: true },
            FieldSpec { name: "tags", ty: Ty::ArrText, opt: true, unique: true },
            FieldSpec { name: "a", ty: Ty::Int, opt: false, unique: false },
            FieldSpec { name: "b", ty: Ty::Text, opt: true, unique: false },
            FieldSpec { name: "grp", ty: Ty::Int, opt: true, unique: false },
            FieldSpec { name: "note", ty: Ty::Text, opt: true, unique: false },
        ],
        indexes: vec![vec!["grp"], vec!["email"], vec!["a", "b"], vec!["tags"]],
        aux: false,
    };
    let own = |i: usize| -> Fields {
        [("email".to_string(), V::Text(format!("own{i}"))), ("a".to_string(), V::Int(10 + i as i64)), ("tags".to_string(), V::Arr(vec![format!("own{i}")]))].into()
    };
    let add_email = |i: usize| Op::Add([("email".to_string(), V::Text("e1".into())), ("a".to_string(), V::Int(50 + i as i64))].into());
    let upd_email = |i: usize| Op::Update(1 + i as u64, [("email".to_string(), V::Text("e1".into()))].into());
    let upd_tags = |i: usize| Op::Update(1 + i as u64, [("tags".to_string(), V::Arr(vec![format!("x{i}"), "t1".to_string()]))].into());
    let add_tags = |i: usize| Op::Add([("email".to_string(), V::Text(format!("new{i}"))), ("a".to_string(), V::Int(50 + i as i64)), ("tags".to_string(), V::Arr(vec!["t1".to_string()]))].into());
    let upd_tuple = |i: usize| Op::Update(1 + i as u64, [("a".to_string(), V::Int(1)), ("b".to_string(), V::Text("x".into()))].into());
    let rem = |i: usize| Op::Remove(1 + i as u64);
    let scenarios: Vec<(&str, Vec<Op>, usize)> = vec![
        ("add|add scalar", vec![add_email(0), add_email(1)], 1),
        ("add|update scalar", vec![add_email(0), upd_email(1)], 1),
        ("update|update scalar", vec![upd_email(0), upd_email(1)], 1),
        ("update|update array", vec![upd_tags(0), upd_tags(1)], 1),
        ("update|add array", vec![upd_tags(0), add_tags(1)], 1),
        ("update|update tuple", vec![upd_tuple(0), upd_tuple(1)], 1),
        ("update|add scalar (add runs second)", vec![upd_email(1), add_email(0)], 1),
        ("add|update array (add runs first)", vec![add_tags(1), upd_tags(0)], 1),
        ("remove holder|add scalar", vec![rem(0), Op::Add([("email".to_string(), V::Text("own0".into())), ("a".to_string(), V::Int(77))].into())], 0),
        ("update|remove same doc", vec![upd_email(0), rem(0)], 0),
        ("update|update|add scalar", vec![upd_email(0), upd_email(1), add_email(2)], 1),
        ("update|update|update array", vec![upd_tags(0), upd_tags(1), upd_tags(2)], 1),
    ];
    let pre: Vec<Fields> = (0..3).map(own).collect();
    let mut failures: Vec<Value> = Vec::new();
    let (mut n_fail, mut evaluations) = (0usize, 0usize);
    let mut counts: BTreeMap<String, Value> = BTreeMap::new();
    for (name, ops, want_winners) in scenarios {
        let mut schedule: Vec<usize> = Vec::new();
        let mut runs = 0usize;
        let mut exhausted = false;
        loop {
            let (options, res, mut bad) = sys_run(&spec, &pre, &ops, &schedule).await;
            runs += 1;
            evaluations += 1;
            let winners = res.iter().filter(|r| !r.rejected()).count();
            if want_winners > 0 && winners != want_winners {
                bad.insert(0, format!("winner-count: {winners} writers succeeded for one contested value (expected {want_winners})"));
            }
            if !bad.is_empty() {
                n_fail += 1;
                if failures.len() < 5 {
                    failures.push(json!({"what": bad[0], "all": bad.iter().take(6).collect::<Vec<_>>(), "scenario": name,
                        "schedule_choice_at_each_backend_call": schedule, "contenders": ops.iter().zip(res.iter()).map(|(o, r)| format!("{o:?} => {r:?}")).collect::<Vec<_>>()}));
                }
            }
            // next schedule in depth-first order
            let mut full: Vec<usize> = (0..options.len()).map(|d| schedule.get(d).cloned().unwrap_or(0).min(options[d] - 1)).collect();
            loop {
                match full.pop() {
                    None => { exhausted = true; break; }
                    Some(c) => { let d = full.len(); if c + 1 < options[d] { full.push(c + 1); break; } }
                }
            }
            if exhausted || runs >= cap { break; }
            schedule = full;
        }
        counts.insert(name.to_string(), json!({"interleavings": runs, "exhaustive": exhausted}));
    }
    let summary = json!({"kind": "summary", "evaluations": evaluations, "oracle_failures": n_fail, "failures": failures, "scenarios": counts});
    writeln!(out, "{summary}").unwrap();
}

fn main() {
    let args: Vec<String> = std::env::args().collect();
    let out_path = arg_value(&args, "--out").unwrap_or_else(|| "/dev/stdout".to_string());
    let mut out = std::io::BufWriter::new(std::fs::File::create(&out_path).expect("out"));
    match args.get(1).map(|s| s.as_str()) {
        Some("seq") => {
            let rt = tokio::runtime::Builder::new_current_thread().enable_all().build().unwrap();
            rt.block_on(run_seq(&args, &mut out));
        }
        Some("conc") => run_conc(&args, &mut out),
        Some("sys") => {
            let rt = tokio::runtime::Builder::new_current_thread().enable_all().build().unwrap();
            rt.block_on(run_sys(&args, &mut out));
        }
        Some("crash") => {
            let rt = tokio::runtime::Builder::new_current_thread().enable_all().build().unwrap();
            rt.block_on(run_crash(&args, &mut out));
        }
        _ => {
            eprintln!("usage: h_uniq seq|conc --out FILE [--cases N --len L | --rounds N --wide N]");
            std::process::exit(2);
        }
    }
    out.flush().unwrap();
}
