//! C10 — B-tree index vs ordered multimap: histories of mutations, queries, flushes, interrupted
//! flushes and reloads run on the real `BTreeIndex`, judged by a `BTreeMap<u64, BTreeSet<u64>>`
//! oracle, and printed as cases for the Coq model / monitor.
use anda_db_btree::{BTreeConfig, BTreeError, BTreeIndex, BTreeMetadata, BucketObject, RangeQuery};
use h_common::*;
use serde::{Deserialize, Serialize};
use serde_json::{Value, json};
use std::cell::RefCell;
use std::collections::{BTreeMap, BTreeSet, HashMap};
use std::io::Write;
use std::panic::{AssertUnwindSafe, catch_unwind};

mod sched;

type Index = BTreeIndex<u64, u64>;
type Model = BTreeMap<u64, BTreeSet<u64>>;

#[derive(Clone, Copy, Debug, PartialEq, Eq, PartialOrd, Ord, Hash)]
enum Path {
    Meta,
    Bucket(u32, u64),
}
type Store = BTreeMap<Path, Vec<u8>>;

#[derive(Clone, Debug)]
enum Step {
    Put(Path, Vec<u8>),
    Del(Path),
}

fn apply_step(st: &mut Store, s: &Step) {
    match s {
        Step::Put(p, d) => {
            st.insert(*p, d.clone());
        }
        Step::Del(p) => {
            st.remove(p);
        }
    }
}

#[derive(Serialize, Deserialize)]
struct MetaBlob {
    metadata: BTreeMetadata,
}
#[derive(Serialize, Deserialize)]
struct BucketBlob {
    p: HashMap<u64, (u32, u64, Vec<u64>)>,
}

// ------------------------------------------------------------------ queries
#[derive(Clone, Debug)]
enum Spec {
    Eq(u64),
    Gt(u64),
    Ge(u64),
    Lt(u64),
    Le(u64),
    Between(u64, u64),
    Include(Vec<u64>),
    And(Vec<Spec>),
    Or(Vec<Spec>),
    Not(Box<Spec>),
}

impl Spec {
    fn to_query(&self) -> RangeQuery<u64> {
        match self {
            Spec::Eq(v) => RangeQuery::Eq(*v),
            Spec::Gt(v) => RangeQuery::Gt(*v),
            Spec::Ge(v) => RangeQuery::Ge(*v),
            Spec::Lt(v) => RangeQuery::Lt(*v),
            Spec::Le(v) => RangeQuery::Le(*v),
            Spec::Between(a, b) => RangeQuery::Between(*a, *b),
            Spec::Include(vs) => RangeQuery::Include(vs.clone()),
            Spec::And(s) => RangeQuery::And(s.iter().map(|x| Box::new(x.to_query())).collect()),
            Spec::Or(s) => RangeQuery::Or(s.iter().map(|x| Box::new(x.to_query())).collect()),
            Spec::Not(s) => RangeQuery::Not(Box::new(s.to_query())),
        }
    }
    /// reference semantics, independent of the index
    fn matches(&self, key: u64) -> bool {
        match self {
            Spec::Eq(v) => key == *v,
            Spec::Gt(v) => key > *v,
            Spec::Ge(v) => key >= *v,
            Spec::Lt(v) => key < *v,
            Spec::Le(v) => key <= *v,
            Spec::Between(a, b) => *a <= *b && key >= *a && key <= *b,
            Spec::Include(vs) => vs.contains(&key),
            Spec::And(s) => !s.is_empty() && s.iter().all(|x| x.matches(key)),
            Spec::Or(s) => s.iter().any(|x| x.matches(key)),
            Spec::Not(s) => !s.matches(key),
        }
    }
    fn depth(&self) -> usize {
        match self {
            Spec::And(s) | Spec::Or(s) => 1 + s.iter().map(|x| x.depth()).max().unwrap_or(0),
            Spec::Not(s) => 1 + s.depth(),
            _ => 1,
        }
    }
    fn term(&self) -> Value {
        let z = |v: &u64| json!(*v);
        match self {
            Spec::Eq(v) => ctor("QEq", vec![z(v)]),
            Spec::Gt(v) => ctor("QGt", vec![z(v)]),
            Spec::Ge(v) => ctor("QGe", vec![z(v)]),
            Spec::Lt(v) => ctor("QLt", vec![z(v)]),
            Spec::Le(v) => ctor("QLe", vec![z(v)]),
            Spec::Between(a, b) => ctor("QBetween", vec![z(a), z(b)]),
            Spec::Include(vs) => ctor("QInclude", vec![json!(vs)]),
            Spec::And(s) => ctor("QAnd", vec![Value::Array(s.iter().map(|x| x.term()).collect())]),
            Spec::Or(s) => ctor("QOr", vec![Value::Array(s.iter().map(|x| x.term()).collect())]),
            Spec::Not(s) => ctor("QNot", vec![s.term()]),
        }
    }
}

fn gen_leaf(r: &mut Rng) -> Spec {
    let v = r.below(18);
    match r.below(7) {
        0 => Spec::Eq(v),
        1 => Spec::Gt(v),
        2 => Spec::Ge(v),
        3 => Spec::Lt(v),
        4 => Spec::Le(v),
        5 => Spec::Between(v, r.below(18)),
        _ => {
            let n = r.below(4);
            Spec::Include((0..n).map(|_| r.below(18)).collect())
        }
    }
}

fn gen_spec(r: &mut Rng, depth: u32) -> Spec {
    if depth == 0 || r.chance(2, 5) {
        return gen_leaf(r);
    }
    match r.below(3) {
        0 => {
            let n = r.below(3);
            Spec::And((0..n).map(|_| gen_spec(r, depth - 1)).collect())
        }
        1 => {
            let n = r.below(3);
            Spec::Or((0..n).map(|_| gen_spec(r, depth - 1)).collect())
        }
        _ => Spec::Not(Box::new(gen_spec(r, depth - 1))),
    }
}

// ------------------------------------------------------------------ ops
#[derive(Clone, Debug)]
enum Op {
    Insert(u64, u64),
    Remove(u64, u64),
    InsertArray(u64, Vec<u64>),
    RemoveArray(u64, Vec<u64>),
    Batch(u64, Vec<u64>, Vec<u64>),
    Compact,
    Flush,
    CrashReload(usize),
    FlushFail(usize),
    Query(bool, Spec, u64, u64),
    Keys(Option<u64>, Option<u64>),
    Point(u64),
    Stats,
}

fn opt_term(o: &Option<u64>) -> Value {
    match o {
        Some(v) => some(json!(*v)),
        None => Value::Null,
    }
}

fn gen_keys(r: &mut Rng, nk: u64, max: u64) -> Vec<u64> {
    let n = r.below(max + 1);
    (0..n).map(|_| r.below(nk)).collect()
}

fn gen_op(r: &mut Rng, exact_only: bool, npk: u64, nk: u64) -> Op {
    let pk = if r.chance(1, 12) { 200 + r.below(200) } else { r.below(npk) };
    let k = if r.chance(1, 15) { 24 + r.below(300) } else { r.below(nk) };
    let w = r.below(100);
    if exact_only {
        return match w {
            0..=44 => Op::Insert(pk, k),
            45..=59 => Op::Remove(pk, k),
            60..=63 => Op::InsertArray(pk, vec![k]),
            64..=66 => Op::RemoveArray(pk, vec![k]),
            67..=74 => Op::Flush,
            75..=78 => Op::FlushFail(r.below(4) as usize),
            79..=90 => Op::Query(r.chance(1, 2), gen_spec(r, 3), 1 + r.below(8), if r.chance(1, 4) { 2 + r.below(2) } else { 0 }),
            91..=93 => Op::Keys(if r.chance(1, 2) { Some(r.below(nk)) } else { None }, if r.chance(1, 2) { Some(r.below(6)) } else { None }),
            94..=96 => Op::Point(k),
            _ => Op::Stats,
        };
    }
    match w {
        0..=27 => Op::Insert(pk, k),
        28..=39 => Op::Remove(pk, k),
        40..=48 => Op::InsertArray(pk, gen_keys(r, nk, 5)),
        49..=53 => Op::RemoveArray(pk, gen_keys(r, nk, 5)),
        54..=58 => Op::Batch(pk, gen_keys(r, nk, 4), gen_keys(r, nk, 4)),
        59..=61 => Op::Compact,
        62..=68 => Op::Flush,
        69..=72 => Op::CrashReload(r.below(7) as usize),
        73..=75 => Op::FlushFail(r.below(4) as usize),
        76..=89 => Op::Query(r.chance(1, 2), gen_spec(r, 3), 1 + r.below(8), if r.chance(1, 4) { 2 + r.below(2) } else { 0 }),
        90..=92 => Op::Keys(if r.chance(1, 2) { Some(r.below(nk)) } else { None }, if r.chance(1, 2) { Some(r.below(6)) } else { None }),
        93..=96 => Op::Point(k),
        _ => Op::Stats,
    }
}

/// the generator's own picture of the multimap, used only to aim operations at existing pairs / keys
struct Sim {
    m: Model,
    allow_dup: bool,
}
impl Sim {
    fn insert(&mut self, pk: u64, k: u64) {
        if !self.allow_dup && self.m.get(&k).map(|s| !s.contains(&pk)).unwrap_or(false) {
            return;
        }
        self.m.entry(k).or_default().insert(pk);
    }
    fn remove(&mut self, pk: u64, k: u64) {
        if let Some(s) = self.m.get_mut(&k) {
            s.remove(&pk);
            if s.is_empty() {
                self.m.remove(&k);
            }
        }
    }
    fn apply(&mut self, op: &Op) {
        match op {
            Op::Insert(pk, k) => self.insert(*pk, *k),
            Op::Remove(pk, k) => self.remove(*pk, *k),
            Op::InsertArray(pk, ks) => {
                let conflict = !self.allow_dup && ks.iter().any(|k| self.m.get(k).map(|s| !s.contains(pk)).unwrap_or(false));
                if !conflict { for k in ks { self.insert(*pk, *k); } }
            }
            Op::RemoveArray(pk, ks) => { for k in ks { self.remove(*pk, *k); } }
            Op::Batch(pk, old, new) => {
                let ins: Vec<u64> = new.iter().copied().filter(|k| !old.contains(k)).collect();
                let conflict = !self.allow_dup && ins.iter().any(|k| self.m.get(k).map(|s| !s.contains(pk)).unwrap_or(false));
                if !conflict {
                    for k in &ins { self.insert(*pk, *k); }
                    for k in old.iter().filter(|k| !new.contains(k)) { self.remove(*pk, *k); }
                }
            }
            _ => {}
        }
    }
    fn some_pair(&self, r: &mut Rng) -> Option<(u64, u64)> {
        if self.m.is_empty() { return None; }
        let ks: Vec<&u64> = self.m.keys().collect();
        // prefer keys shared by several ids (a removal there shrinks the posting without emptying it)
        let shared: Vec<&u64> = ks.iter().copied().filter(|k| self.m[*k].len() >= 2).collect();
        let k = if !shared.is_empty() && r.chance(2, 3) { **r.pick(&shared) } else { **r.pick(&ks) };
        let ids: Vec<&u64> = self.m[&k].iter().collect();
        Some((**r.pick(&ids), k))
    }
    fn some_key(&self, r: &mut Rng) -> Option<u64> {
        if self.m.is_empty() { return None; }
        let ks: Vec<&u64> = self.m.keys().collect();
        Some(**r.pick(&ks))
    }
}

/// aim a freshly drawn operation at what is actually in the index
fn aim(r: &mut Rng, sim: &Sim, op: Op, npk: u64) -> Op {
    match op {
        Op::Remove(pk, k) => match sim.some_pair(r) { Some((p, kk)) if r.chance(7, 10) => Op::Remove(p, kk), _ => Op::Remove(pk, k) },
        Op::Insert(pk, k) => match sim.some_key(r) { Some(kk) if r.chance(4, 10) => Op::Insert(r.below(npk), kk), _ => Op::Insert(pk, k) },
        Op::RemoveArray(pk, mut ks) => match sim.some_pair(r) {
            Some((p, kk)) if r.chance(6, 10) => {
                if ks.is_empty() { ks.push(kk); } else { ks[0] = kk; }
                // further keys this id really holds
                for (k2, ids) in sim.m.iter() { if ids.contains(&p) && ks.len() < 4 && r.chance(1, 2) { ks.push(*k2); } }
                Op::RemoveArray(p, ks)
            }
            _ => Op::RemoveArray(pk, ks),
        },
        Op::Batch(pk, old, new) => match sim.some_pair(r) {
            Some((p, _)) if r.chance(6, 10) => {
                let held: Vec<u64> = sim.m.iter().filter(|(_, ids)| ids.contains(&p)).map(|(k, _)| *k).collect();
                let mut old2 = held.clone();
                old2.truncate(4);
                let mut new2 = new.clone();
                if let Some(h) = held.first() { if r.chance(1, 2) { new2.push(*h); } }
                let _ = old;
                Op::Batch(p, old2, new2)
            }
            _ => Op::Batch(pk, old, new),
        },
        o => o,
    }
}

/// a whole history: random operations aimed at the current content, with "quiet windows" (flush, ONE
/// mutation, flush / crash+reload) so that the dirty marking of every single mutation is what decides
/// whether the next flush persists it
fn gen_history(r: &mut Rng, exact_only: bool, allow_dup: bool, npk: u64, nk: u64, n: u64) -> Vec<Op> {
    let mut sim = Sim { m: Model::new(), allow_dup };
    let mut ops: Vec<Op> = Vec::new();
    while (ops.len() as u64) < n {
        let op = gen_op(r, exact_only, npk, nk);
        let op = aim(r, &sim, op, npk);
        let is_flush = matches!(op, Op::Flush);
        sim.apply(&op);
        if matches!(op, Op::CrashReload(_)) {
            // the generator cannot know which side of the commit the crash fell on; forget
            sim.m.clear();
        }
        ops.push(op);
        if is_flush && r.chance(1, 2) {
            // quiet window
            let mut m;
            loop {
                let g = gen_op(r, exact_only, npk, nk);
                m = aim(r, &sim, g, npk);
                if matches!(m, Op::Insert(..) | Op::Remove(..) | Op::InsertArray(..) | Op::RemoveArray(..) | Op::Batch(..) | Op::Compact) { break; }
            }
            sim.apply(&m);
            ops.push(m);
            if exact_only || r.chance(1, 2) { ops.push(Op::Flush); } else { ops.push(Op::CrashReload(99)); sim.m.clear(); }
        }
    }
    ops
}

/// dirty-tracking probe: build a state, make it clean (flush), apply ONE mutation of a given kind, persist,
/// reload.  Whatever the mutation changed must have dirtied the buckets it changed.
fn probe_history(r: &mut Rng, kind: u64, allow_dup: bool) -> Vec<Op> {
    let (npk, nk) = if allow_dup { (12, 8) } else { (6, 12) };
    let mut sim = Sim { m: Model::new(), allow_dup };
    let mut ops = Vec::new();
    for _ in 0..(6 + r.below(24)) {
        let g = Op::Insert(r.below(npk), r.below(nk));
        let op = aim(r, &sim, g, npk);
        sim.apply(&op);
        ops.push(op);
    }
    ops.push(Op::Flush);
    for round in 0..2 {
        let pair = sim.some_pair(r);
        let m = match ((kind + round) % 9, pair) {
            (0, Some((p, k))) => Op::Remove(p, k),
            (1, Some((p, k))) => Op::RemoveArray(p, vec![k]),
            (2, Some((p, _))) => {
                let held: Vec<u64> = sim.m.iter().filter(|(_, ids)| ids.contains(&p)).map(|(k, _)| *k).collect();
                Op::RemoveArray(p, held)
            }
            (3, Some((_, k))) => Op::Insert(100 + r.below(5), k),
            (4, _) => Op::Insert(r.below(npk), 20 + r.below(4)),
            (5, Some((_, k))) => Op::InsertArray(100 + r.below(5), vec![k, 20 + r.below(4), r.below(nk)]),
            (6, Some((p, k))) => Op::Batch(p, vec![k], vec![r.below(nk), 20 + r.below(4)]),
            (7, _) => Op::Compact,
            (_, Some((p, k))) => Op::Remove(p, k),
            (_, None) => Op::Insert(r.below(npk), r.below(nk)),
        };
        sim.apply(&m);
        ops.push(m);
        if round == 0 { ops.push(Op::Flush); } else { ops.push(Op::CrashReload(99)); }
        ops.push(Op::Query(false, Spec::Ge(0), 99, 0));
    }
    ops
}

// ------------------------------------------------------------------ store <-> terms
fn path_term(p: &Path) -> Value {
    match p {
        Path::Meta => ctor("PMeta", vec![]),
        Path::Bucket(b, g) => ctor("PBucket", vec![json!(*b), json!(*g)]),
    }
}

fn obj_term(p: &Path, data: &[u8]) -> Value {
    match p {
        Path::Meta => {
            let m: MetaBlob = cbor2::from_reader(data).expect("metadata decodes");
            let mf: Vec<Value> = m.metadata.buckets.iter().map(|(b, g)| tup(vec![json!(*b), json!(*g)])).collect();
            ctor("OMeta", vec![Value::Array(mf), json!(m.metadata.stats.max_bucket_id), json!(m.metadata.stats.version)])
        }
        Path::Bucket(..) => {
            let b: BucketBlob = cbor2::from_reader(data).expect("bucket decodes");
            let mut ps: Vec<(u64, u64, Vec<u64>)> = b.p.into_iter().map(|(k, (_, v, ids))| (k, v, ids)).collect();
            ps.sort();
            let l: Vec<Value> = ps.into_iter().map(|(k, v, ids)| tup(vec![json!(k), tup(vec![json!(v), json!(ids)])])).collect();
            ctor("OBucket", vec![Value::Array(l)])
        }
    }
}

fn store_term(st: &Store) -> Value {
    Value::Array(st.iter().map(|(p, d)| tup(vec![path_term(p), obj_term(p, d)])).collect())
}

fn step_term(s: &Step) -> Value {
    match s {
        Step::Put(p, d) => ctor("Put", vec![path_term(p), obj_term(p, d)]),
        Step::Del(p) => json!({"raw": format!("(@Del path obj {})", raw_path(p))}),
    }
}

fn raw_path(p: &Path) -> String {
    match p {
        Path::Meta => "PMeta".into(),
        Path::Bucket(b, g) => format!("(PBucket ({b})%Z ({g})%Z)"),
    }
}

fn content_term(m: &Model) -> Value {
    Value::Array(m.iter().map(|(k, ids)| tup(vec![json!(*k), json!(ids.iter().copied().collect::<Vec<_>>())])).collect())
}

/// canonical dump of the store reachable from the metadata
fn dump_term(st: &Store) -> Value {
    let Some(meta) = st.get(&Path::Meta) else {
        return tup(vec![json!([]), json!([])]);
    };
    let m: MetaBlob = cbor2::from_reader(&meta[..]).expect("metadata decodes");
    let mf: Vec<Value> = m.metadata.buckets.iter().map(|(b, g)| tup(vec![json!(*b), json!(*g)])).collect();
    let mut objs = Vec::new();
    for (b, g) in m.metadata.buckets.iter() {
        if let Some(d) = st.get(&Path::Bucket(*b, *g)) {
            let bl: BucketBlob = cbor2::from_reader(&d[..]).expect("bucket decodes");
            let mut ps: Vec<(u64, u64, Vec<u64>)> = bl.p.into_iter().map(|(k, (_, v, mut ids))| { ids.sort(); (k, v, ids) }).collect();
            ps.sort();
            let l: Vec<Value> = ps.into_iter().map(|(k, v, ids)| tup(vec![json!(k), json!(v), json!(ids)])).collect();
            objs.push(tup(vec![json!(*b), json!(*g), Value::Array(l)]));
        }
    }
    tup(vec![Value::Array(mf), Value::Array(objs)])
}

// ------------------------------------------------------------------ running the implementation
fn load_from(st: &Store) -> Result<Option<Index>, String> {
    let Some(meta) = st.get(&Path::Meta) else {
        return Ok(None);
    };
    let r = catch_unwind(AssertUnwindSafe(|| {
        futures::executor::block_on(Index::load_all(&meta[..], async |o: BucketObject| {
            Ok(st.get(&Path::Bucket(o.bucket_id, o.generation)).cloned())
        }))
    }));
    match r {
        Ok(Ok(ix)) => Ok(Some(ix)),
        Ok(Err(e)) => Err(format!("load_all error: {e:?}")),
        Err(_) => Err("load_all panicked".into()),
    }
}

fn index_content(ix: &Index) -> Model {
    let mut m = Model::new();
    for k in ix.keys(None, None) {
        let ids: BTreeSet<u64> = ix.query_with(&k, |ids| Some(ids.iter().copied().collect())).unwrap_or_default();
        m.insert(k, ids);
    }
    m
}

/// full observable comparison against the oracle (keys, len, every posting); returns a description on mismatch
fn diff_index(ix: &Index, model: &Model) -> Option<String> {
    let got = index_content(ix);
    if &got != model {
        return Some(format!("index content {:?} != multimap {:?}", got, model));
    }
    if ix.len() != model.len() {
        return Some(format!("len {} != {}", ix.len(), model.len()));
    }
    // a key listed by the btree with no ids, or a posting with no btree key
    for (k, ids) in &got {
        if ids.is_empty() {
            return Some(format!("ghost key {k}"));
        }
    }
    None
}

/// one owning bucket per posting, read off the durable state: no key may be stored in two bucket
/// objects referenced by the committed manifest (a stale copy that survived a migration)
fn stale_copies(st: &Store) -> Option<String> {
    let meta = st.get(&Path::Meta)?;
    let m: MetaBlob = cbor2::from_reader(&meta[..]).ok()?;
    let mut seen: BTreeMap<u64, u32> = BTreeMap::new();
    for (b, g) in m.metadata.buckets.iter() {
        if let Some(d) = st.get(&Path::Bucket(*b, *g)) {
            let bl: BucketBlob = cbor2::from_reader(&d[..]).ok()?;
            for k in bl.p.keys() {
                if let Some(prev) = seen.insert(*k, *b) {
                    return Some(format!("key {k} is stored in bucket objects {prev} and {b}"));
                }
            }
        }
    }
    None
}

/// run a flush, recording every backend step; `fail_at = Some(n)`: the n-th write (0-based) returns an error
fn flush_logged(ix: &Index, st: &mut Store, fail_at: Option<usize>) -> (Result<bool, String>, Vec<Step>) {
    let (r, l, _) = flush_logged_kind(ix, st, fail_at);
    (r, l)
}

/// as `flush_logged`, also reporting which write failed: 0 none, 1 a bucket write, 2 the metadata write
fn flush_logged_kind(ix: &Index, st: &mut Store, fail_at: Option<usize>) -> (Result<bool, String>, Vec<Step>, u8) {
    let kind = std::cell::Cell::new(0u8);
    let log: RefCell<Vec<Step>> = RefCell::new(Vec::new());
    let res = futures::executor::block_on(ix.flush_owned_with(
        1_000,
        |data: Vec<u8>| {
            let fail = fail_at == Some(log.borrow().len());
            if !fail {
                log.borrow_mut().push(Step::Put(Path::Meta, data));
            } else {
                kind.set(2);
            }
            async move { if fail { Err("injected metadata write failure".into()) } else { Ok(()) } }
        },
        |o: BucketObject, data: Vec<u8>| {
            let fail = fail_at == Some(log.borrow().len());
            if !fail {
                log.borrow_mut().push(Step::Put(Path::Bucket(o.bucket_id, o.generation), data));
            } else {
                kind.set(1);
            }
            async move { if fail { Err("injected bucket write failure".into()) } else { Ok(()) } }
        },
    ));
    let mut log = log.into_inner();
    let out = match res {
        Ok(outcome) => {
            // the production adapter retires what the manifest replaced (anda_db index/btree.rs)
            for o in &outcome.obsolete {
                log.push(Step::Del(Path::Bucket(o.bucket_id, o.generation)));
            }
            Ok(outcome.saved)
        }
        Err(e) => Err(format!("{e:?}")),
    };
    for s in &log {
        apply_step(st, s);
    }
    (out, log, kind.get())
}

fn ref_query(model: &Model, desc: bool, spec: &Spec, stop: u64, skipmod: u64) -> (Vec<(u64, u64)>, u64) {
    if model.is_empty() || spec.depth() > 64 {
        return (vec![], 0);
    }
    let mut keys: Vec<u64> = model.keys().copied().filter(|k| spec.matches(*k)).collect();
    if desc {
        keys.reverse();
    }
    let mut visited: Vec<u64> = Vec::new();
    let mut calls = 0;
    for k in keys {
        calls += 1;
        visited.push(k);
        if let Spec::Eq(_) = spec {
            break;
        }
        if !(calls < stop) {
            break;
        }
    }
    visited.sort();
    let mut out = Vec::new();
    for k in visited {
        if skipmod > 0 && k % skipmod == 0 {
            continue;
        }
        for id in &model[&k] {
            out.push((k, *id));
        }
    }
    (out, calls)
}

struct Summary {
    evaluations: u64,
    failures: Vec<Value>,
    op_hist: BTreeMap<&'static str, u64>,
    flushes: u64,
    flushes_multi_dirty: u64,
    crash_points: u64,
    migrations_seen: u64,
    unique_errors: u64,
    early_stops: u64,
    legacy_loads: u64,
}

fn fail(sum: &mut Summary, what: &str, detail: Value) {
    if sum.failures.len() < 20 {
        sum.failures.push(json!({"what": what, "detail": detail}));
    } else {
        sum.failures.push(json!({"what": what}));
    }
}

/// every crash prefix of a recorded flush: loading it yields the old or the new content, old before the
/// metadata write and new from it on
fn explore_prefixes(pre: &Store, log: &[Step], old: &Model, new: &Model, sum: &mut Summary, ctx: &Value, out: &mut impl Write, emit_load: bool) {
    let commit = log.iter().position(|s| matches!(s, Step::Put(Path::Meta, _)));
    let mut st = pre.clone();
    for k in 0..=log.len() {
        if k > 0 {
            apply_step(&mut st, &log[k - 1]);
        }
        sum.crash_points += 1;
        sum.evaluations += 1;
        let expect = match commit {
            Some(c) if k > c => new,
            _ => old,
        };
        match load_from(&st) {
            Ok(Some(ix)) => {
                let got = index_content(&ix);
                if &got != expect || diff_index(&ix, expect).is_some() {
                    let which = if &got == old { "old" } else if &got == new { "new" } else { "mixture-or-loss" };
                    fail(sum, "crash-prefix: loaded content is neither the last committed flush nor the interrupted one at this prefix",
                         json!({"ctx": ctx, "prefix": k, "of": log.len(), "loaded": format!("{got:?}"), "expected": format!("{expect:?}"), "loaded_is": which}));
                }
                if emit_load && (k == 0 || k == log.len() || k % 3 == 1) {
                    writeln!(out, "{}", json!({"kind": "load", "case": tup(vec![store_term(&st), content_term(&got)])})).unwrap();
                }
            }
            Ok(None) => {
                if !expect.is_empty() {
                    fail(sum, "crash-prefix: no metadata but content expected", json!({"ctx": ctx, "prefix": k}));
                }
            }
            Err(e) => fail(sum, "crash-prefix: load failed", json!({"ctx": ctx, "prefix": k, "error": e})),
        }
    }
}

fn run_history(seq: u64, overload: usize, allow_dup: bool, ops: &[Op], sum: &mut Summary, out: &mut impl Write, emit_model: bool) {
    let cfg = BTreeConfig { bucket_overload_size: overload, allow_duplicates: allow_dup };
    let mut ix = Index::new("c10".to_string(), Some(cfg.clone()));
    let mut model = Model::new();
    let mut committed = Model::new(); // content of the last committed flush
    let mut store = Store::new();
    let mut op_terms: Vec<Value> = Vec::new();
    let mut obs: Vec<Value> = Vec::new();
    let ctx = |i: usize| json!({"seq": seq, "op_index": i, "overload": overload, "allow_duplicates": allow_dup, "history": format!("{:?}", &ops[..=i])});
    for (i, op) in ops.iter().enumerate() {
        sum.evaluations += 1;
        let name: &'static str;
        match op {
            Op::Insert(pk, k) => {
                name = "insert";
                let exp: Result<bool, ()> = match model.get(k) {
                    Some(set) if !allow_dup && !set.contains(pk) => Err(()),
                    _ => Ok(model.entry(*k).or_default().insert(*pk)),
                };
                let got = ix.insert(*pk, *k, i as u64);
                let g2: Result<bool, ()> = match &got {
                    Ok(b) => Ok(*b),
                    Err(BTreeError::AlreadyExists { .. }) => Err(()),
                    Err(e) => { fail(sum, "insert: unexpected error", json!({"ctx": ctx(i), "error": format!("{e:?}")})); Err(()) }
                };
                if g2.is_err() { sum.unique_errors += 1; }
                if g2 != exp {
                    fail(sum, "insert: result differs from the multimap (uniqueness / idempotence)", json!({"ctx": ctx(i), "got": format!("{g2:?}"), "expected": format!("{exp:?}")}));
                }
                op_terms.push(ctor("OInsert", vec![json!(*pk), json!(*k)]));
                obs.push(match g2 { Ok(b) => ctor("RBool", vec![json!(b)]), Err(()) => ctor("RErr", vec![]) });
            }
            Op::Remove(pk, k) => {
                name = "remove";
                let exp = match model.get_mut(k) {
                    Some(set) => { let r = set.remove(pk); if set.is_empty() { model.remove(k); } r }
                    None => false,
                };
                let got = ix.remove(*pk, *k, i as u64);
                if got != exp {
                    fail(sum, "remove: result differs from the multimap", json!({"ctx": ctx(i), "got": got, "expected": exp}));
                }
                op_terms.push(ctor("ORemove", vec![json!(*pk), json!(*k)]));
                obs.push(ctor("RBool", vec![json!(got)]));
            }
            Op::InsertArray(pk, ks) => {
                name = "insert_array";
                let conflict = !allow_dup && ks.iter().any(|k| model.get(k).map(|s| !s.contains(pk)).unwrap_or(false));
                let exp: Result<usize, ()> = if conflict { Err(()) } else {
                    let mut n = 0;
                    for k in ks { if model.entry(*k).or_default().insert(*pk) { n += 1; } }
                    Ok(n)
                };
                let got = ix.insert_array(*pk, ks.clone(), i as u64);
                let g2: Result<usize, ()> = match &got {
                    Ok(n) => Ok(*n),
                    Err(BTreeError::AlreadyExists { .. }) => Err(()),
                    Err(e) => { fail(sum, "insert_array: unexpected error", json!({"ctx": ctx(i), "error": format!("{e:?}")})); Err(()) }
                };
                if g2.is_err() { sum.unique_errors += 1; }
                if g2 != exp {
                    fail(sum, "insert_array: result differs from the multimap", json!({"ctx": ctx(i), "got": format!("{g2:?}"), "expected": format!("{exp:?}")}));
                }
                op_terms.push(ctor("OInsertArray", vec![json!(*pk), json!(ks)]));
                obs.push(match g2 { Ok(n) => ctor("RCount", vec![json!(n)]), Err(()) => ctor("RErr", vec![]) });
            }
            Op::RemoveArray(pk, ks) => {
                name = "remove_array";
                let mut exp = 0;
                for k in ks {
                    if let Some(set) = model.get_mut(k) {
                        if set.remove(pk) { exp += 1; }
                        if set.is_empty() { model.remove(k); }
                    }
                }
                let got = ix.remove_array(*pk, ks.clone(), i as u64);
                if got != exp {
                    fail(sum, "remove_array: count differs from the multimap", json!({"ctx": ctx(i), "got": got, "expected": exp}));
                }
                op_terms.push(ctor("ORemoveArray", vec![json!(*pk), json!(ks)]));
                obs.push(ctor("RCount", vec![json!(got)]));
            }
            Op::Batch(pk, old, new) => {
                name = "batch_update";
                let olds: BTreeSet<u64> = old.iter().copied().collect();
                let news: BTreeSet<u64> = new.iter().copied().collect();
                let to_insert: Vec<u64> = news.difference(&olds).copied().collect();
                let to_remove: Vec<u64> = olds.difference(&news).copied().collect();
                let conflict = !allow_dup && to_insert.iter().any(|k| model.get(k).map(|s| !s.contains(pk)).unwrap_or(false));
                let exp: Result<(usize, usize), ()> = if conflict { Err(()) } else {
                    let mut ins = 0;
                    for k in &to_insert { if model.entry(*k).or_default().insert(*pk) { ins += 1; } }
                    let mut rem = 0;
                    for k in &to_remove {
                        if let Some(set) = model.get_mut(k) {
                            if set.remove(pk) { rem += 1; }
                            if set.is_empty() { model.remove(k); }
                        }
                    }
                    Ok((rem, ins))
                };
                let got = ix.batch_update(*pk, old.clone(), new.clone(), i as u64);
                let g2: Result<(usize, usize), ()> = match &got {
                    Ok(x) => Ok(*x),
                    Err(BTreeError::AlreadyExists { .. }) => Err(()),
                    Err(e) => { fail(sum, "batch_update: unexpected error", json!({"ctx": ctx(i), "error": format!("{e:?}")})); Err(()) }
                };
                if g2.is_err() { sum.unique_errors += 1; }
                if g2 != exp {
                    fail(sum, "batch_update: result differs from the multimap", json!({"ctx": ctx(i), "got": format!("{g2:?}"), "expected": format!("{exp:?}")}));
                }
                op_terms.push(ctor("OBatch", vec![json!(*pk), json!(old), json!(new)]));
                obs.push(match g2 { Ok((a, b)) => ctor("RPair", vec![json!(a), json!(b)]), Err(()) => ctor("RErr", vec![]) });
            }
            Op::Compact => {
                name = "compact";
                let (a, b) = ix.compact_buckets();
                op_terms.push(ctor("OCompact", vec![]));
                obs.push(ctor("RCompact", vec![json!(a), json!(b)]));
            }
            Op::Flush => {
                name = "flush";
                let pre = store.clone();
                let (res, log) = flush_logged(&ix, &mut store, None);
                match res {
                    Ok(saved) => {
                        if saved {
                            sum.flushes += 1;
                            let nb = log.iter().filter(|s| matches!(s, Step::Put(Path::Bucket(..), _))).count();
                            if nb >= 2 { sum.flushes_multi_dirty += 1; }
                            explore_prefixes(&pre, &log, &committed, &model, sum, &ctx(i), out, emit_model && seq % 4 == 0);
                            if emit_model {
                                writeln!(out, "{}", json!({"kind": "flushlog", "case": tup(vec![store_term(&pre), Value::Array(log.iter().map(step_term).collect())])})).unwrap();
                            }
                            committed = model.clone();
                        }
                        // what a loader sees now
                        let loaded = match load_from(&store) { Ok(Some(l)) => index_content(&l), Ok(None) => Model::new(), Err(e) => { fail(sum, "flush: reload failed", json!({"ctx": ctx(i), "error": e})); Model::new() } };
                        if loaded != committed {
                            fail(sum, "flush: a clean flush/load round trip lost or invented postings", json!({"ctx": ctx(i), "loaded": format!("{loaded:?}"), "expected": format!("{committed:?}")}));
                        }
                        if let Some(d) = stale_copies(&store) {
                            fail(sum, "flush: stale copy - a posting is stored in more than one referenced bucket object", json!({"ctx": ctx(i), "detail": d}));
                        }
                        op_terms.push(ctor("OFlush", vec![]));
                        obs.push(ctor("RFlush", vec![json!(saved), content_term(&loaded), dump_term(&store)]));
                    }
                    Err(e) => {
                        fail(sum, "flush: unexpected error", json!({"ctx": ctx(i), "error": e}));
                        op_terms.push(ctor("OFlush", vec![]));
                        obs.push(ctor("RErr", vec![]));
                    }
                }
            }
            Op::CrashReload(kreq) => {
                name = "crash_reload";
                // the process dies after k backend steps of this flush; a new process loads what is there
                let pre = store.clone();
                let mut full = store.clone();
                let (res, log) = flush_logged(&ix, &mut full, None);
                if let Err(e) = &res { fail(sum, "flush: unexpected error", json!({"ctx": ctx(i), "error": e})); }
                let k = (*kreq).min(log.len());
                let nw = log.iter().filter(|s| matches!(s, Step::Put(Path::Bucket(..), _))).count();
                store = pre.clone();
                for s in &log[..k] { apply_step(&mut store, s); }
                let committed_now = log.iter().position(|s| matches!(s, Step::Put(Path::Meta, _))).map(|c| k > c).unwrap_or(false);
                if committed_now { committed = model.clone(); }
                if emit_model && !log.is_empty() {
                    writeln!(out, "{}", json!({"kind": "flushlog", "case": tup(vec![store_term(&pre), Value::Array(log.iter().map(step_term).collect())])})).unwrap();
                }
                sum.crash_points += 1;
                match load_from(&store) {
                    Ok(Some(l)) => ix = l,
                    Ok(None) => ix = Index::new("c10".to_string(), Some(cfg.clone())),
                    Err(e) => { fail(sum, "crash-reload: load failed", json!({"ctx": ctx(i), "error": e})); ix = Index::new("c10".to_string(), Some(cfg.clone())); }
                }
                model = committed.clone();
                if let Some(d) = diff_index(&ix, &model) {
                    fail(sum, "crash-reload: loaded content is neither the last committed flush nor the interrupted one", json!({"ctx": ctx(i), "prefix": k, "of": log.len(), "diff": d}));
                    model = index_content(&ix);
                    committed = model.clone();
                }
                op_terms.push(ctor("OCrashReload", vec![json!(k), json!(nw)]));
                obs.push(ctor("RReload", vec![content_term(&index_content(&ix))]));
            }
            Op::FlushFail(at) => {
                name = "flush_fail";
                // the at-th backend write of this flush fails; the index stays in use and retries later
                let pre = store.clone();
                let (res, log, kind) = flush_logged_kind(&ix, &mut store, Some(*at));
                let failed = res.is_err();
                if failed != (kind != 0) { fail(sum, "flush: error without an injected failure", json!({"ctx": ctx(i), "error": format!("{res:?}")})); }
                let committed_now = log.iter().any(|s| matches!(s, Step::Put(Path::Meta, _)));
                if committed_now {
                    explore_prefixes(&pre, &log, &committed, &model, sum, &ctx(i), out, false);
                    committed = model.clone();
                }
                if emit_model && !log.is_empty() {
                    writeln!(out, "{}", json!({"kind": "flushlog", "case": tup(vec![store_term(&pre), Value::Array(log.iter().map(step_term).collect())])})).unwrap();
                }
                let loaded = match load_from(&store) { Ok(Some(l)) => index_content(&l), Ok(None) => Model::new(), Err(e) => { fail(sum, "flush-fail: reload failed", json!({"ctx": ctx(i), "error": e})); Model::new() } };
                if loaded != committed {
                    fail(sum, "failed flush changed what a loader sees", json!({"ctx": ctx(i), "loaded": format!("{loaded:?}"), "expected": format!("{committed:?}")}));
                }
                op_terms.push(ctor("OFlushFail", vec![json!(*at), json!(kind)]));
                obs.push(ctor("RFlush", vec![json!(!failed && res == Ok(true)), content_term(&loaded), dump_term(&store)]));
            }
            Op::Query(desc, spec, stop, skipmod) => {
                name = "range_query";
                let calls = RefCell::new(0u64);
                let f = |k: &u64, ids: &Vec<u64>| {
                    *calls.borrow_mut() += 1;
                    let mut ids = ids.clone();
                    ids.sort();
                    let rt: Vec<(u64, u64)> = if *skipmod > 0 && *k % *skipmod == 0 { vec![] } else { ids.into_iter().map(|i| (*k, i)).collect() };
                    (*calls.borrow() < *stop, rt)
                };
                let got = if *desc { ix.range_query_rev_with(spec.to_query(), f) } else { ix.range_query_with(spec.to_query(), f) };
                let calls = *calls.borrow();
                let (exp, exp_calls) = ref_query(&model, *desc, spec, *stop, *skipmod);
                let nmatch = model.keys().filter(|k| spec.matches(**k)).count() as u64;
                if exp_calls < nmatch { sum.early_stops += 1; }
                if got != exp || calls != exp_calls {
                    fail(sum, "range query differs from the ordered multimap (direction / early stop / boolean tree)",
                         json!({"ctx": ctx(i), "got": format!("{got:?}"), "expected": format!("{exp:?}"), "calls": calls, "expected_calls": exp_calls}));
                }
                op_terms.push(ctor("OQuery", vec![json!(*desc), spec.term(), json!(*stop), json!(*skipmod)]));
                obs.push(ctor("RQuery", vec![Value::Array(got.iter().map(|(a, b)| tup(vec![json!(*a), json!(*b)])).collect()), json!(calls)]));
            }
            Op::Keys(cursor, limit) => {
                name = "keys";
                let got = ix.keys(*cursor, limit.map(|l| l as usize));
                let mut exp: Vec<u64> = model.keys().copied().filter(|k| cursor.map(|c| *k > c).unwrap_or(true)).collect();
                if let Some(l) = limit { exp.truncate(*l as usize); }
                if got != exp {
                    fail(sum, "keys(cursor, limit) differs from the ordered key set", json!({"ctx": ctx(i), "got": format!("{got:?}"), "expected": format!("{exp:?}")}));
                }
                op_terms.push(ctor("OKeys", vec![opt_term(cursor), opt_term(limit)]));
                obs.push(ctor("RKeys", vec![json!(got)]));
            }
            Op::Point(k) => {
                name = "point";
                let got: Option<Vec<u64>> = ix.query_with(k, |ids| { let mut v = ids.clone(); v.sort(); Some(v) });
                let exp: Option<Vec<u64>> = model.get(k).map(|s| s.iter().copied().collect());
                if got != exp {
                    fail(sum, "point query differs from the multimap", json!({"ctx": ctx(i), "got": format!("{got:?}"), "expected": format!("{exp:?}")}));
                }
                op_terms.push(ctor("OPoint", vec![json!(*k)]));
                obs.push(ctor("RPoint", vec![match got { Some(v) => some(json!(v)), None => Value::Null }]));
            }
            Op::Stats => {
                name = "stats";
                let s = ix.stats();
                if s.max_bucket_id > 0 { sum.migrations_seen += 1; }
                op_terms.push(ctor("OStats", vec![]));
                obs.push(ctor("RStats", vec![json!(s.version), json!(s.max_bucket_id)]));
            }
        }
        *sum.op_hist.entry(name).or_insert(0) += 1;
        // the whole observable state after every mutation
        if matches!(op, Op::Insert(..) | Op::Remove(..) | Op::InsertArray(..) | Op::RemoveArray(..) | Op::Batch(..) | Op::Compact) {
            if let Some(d) = diff_index(&ix, &model) {
                fail(sum, "index content differs from the ordered multimap after a mutation", json!({"ctx": ctx(i), "diff": d}));
                // resynchronise so that one defect is reported once
                model = index_content(&ix);
            }
        }
    }
    if emit_model {
        let case = tup(vec![json!(overload), json!(allow_dup), Value::Array(op_terms)]);
        writeln!(out, "{}", json!({"kind": "ops", "seq": seq, "case": case, "obs": obs})).unwrap();
    }
}

/// legacy (manifest-less) layouts: a flushed index rewritten into the pre-manifest format, with an
/// optional stale duplicate in a lower bucket and an optional empty-posting tombstone
fn legacy_cases(r: &mut Rng, n: u64, sum: &mut Summary, out: &mut impl Write) {
    for c in 0..n {
        let ix = Index::new("c10".to_string(), Some(BTreeConfig { bucket_overload_size: 64, allow_duplicates: true }));
        let mut model = Model::new();
        for i in 0..(5 + r.below(30)) {
            let (pk, k) = (r.below(40), r.below(16));
            let _ = ix.insert(pk, k, i);
            model.entry(k).or_default().insert(pk);
        }
        let mut st = Store::new();
        let (res, _) = flush_logged(&ix, &mut st, None);
        if res.is_err() { continue; }
        // rewrite as legacy: objects at generation 0, empty manifest
        let meta: MetaBlob = cbor2::from_reader(&st[&Path::Meta][..]).unwrap();
        let mut legacy = Store::new();
        let mut blobs: BTreeMap<u32, BucketBlob> = BTreeMap::new();
        for (b, g) in meta.metadata.buckets.iter() {
            let bl: BucketBlob = cbor2::from_reader(&st[&Path::Bucket(*b, *g)][..]).unwrap();
            blobs.insert(*b, bl);
        }
        let mut expect = model.clone();
        let variant = r.below(3);
        let ids: Vec<u32> = blobs.keys().copied().collect();
        if variant == 1 && ids.len() >= 2 {
            // a stale duplicate of a posting owned by the highest bucket, left in the lowest bucket
            let hi = *ids.last().unwrap();
            if let Some((k, p)) = blobs[&hi].p.iter().next().map(|(k, p)| (*k, p.clone())) {
                blobs.get_mut(&ids[0]).unwrap().p.insert(k, (ids[0], 1, vec![999]));
                let _ = p;
            }
        } else if variant == 2 && ids.len() >= 2 {
            // an empty posting persisted by a crash window in the highest bucket: a tombstone for the
            // stale copy in a lower bucket
            let lo = ids[0];
            if let Some(k) = blobs[&lo].p.keys().next().copied() {
                let hi = *ids.last().unwrap();
                blobs.get_mut(&hi).unwrap().p.insert(k, (hi, 9, vec![]));
                expect.remove(&k);
            }
        }
        for (b, bl) in &blobs {
            let mut data = Vec::new();
            cbor2::to_writer(bl, &mut data).unwrap();
            legacy.insert(Path::Bucket(*b, 0), data);
        }
        let mut m2 = meta.metadata.clone();
        m2.buckets.clear();
        let mut data = Vec::new();
        cbor2::to_writer(&MetaBlob { metadata: m2 }, &mut data).unwrap();
        legacy.insert(Path::Meta, data);
        sum.legacy_loads += 1;
        sum.evaluations += 1;
        match load_from(&legacy) {
            Ok(Some(l)) => {
                let got = index_content(&l);
                if got != expect {
                    fail(sum, "legacy layout: loaded content differs (newest bucket must win, tombstones must hide stale copies)",
                         json!({"case": c, "variant": variant, "loaded": format!("{got:?}"), "expected": format!("{expect:?}")}));
                }
                writeln!(out, "{}", json!({"kind": "load", "case": tup(vec![store_term(&legacy), content_term(&got)])})).unwrap();
                // first flush after a legacy load upgrades to a manifest; every prefix of it is old-or-new
                let pre = legacy.clone();
                let _ = l.insert(7, 3, 1);
                let mut new = got.clone();
                new.entry(3).or_default().insert(7);
                let mut st2 = legacy.clone();
                let (res, log) = flush_logged(&l, &mut st2, None);
                if res.is_ok() {
                    explore_prefixes(&pre, &log, &got, &new, sum, &json!({"legacy_case": c, "variant": variant}), out, true);
                    writeln!(out, "{}", json!({"kind": "flushlog", "case": tup(vec![store_term(&pre), Value::Array(log.iter().map(step_term).collect())])})).unwrap();
                }
            }
            Ok(None) => fail(sum, "legacy layout: no metadata", json!({"case": c})),
            Err(e) => fail(sum, "legacy layout: load failed", json!({"case": c, "error": e})),
        }
    }
}

/// a flush whose write callbacks are overlapped by mutations: the mutation lands after its bucket was serialized
/// (inside the bucket or metadata write of flush #1).  Whatever flush #1 committed, the next quiet flush must
/// persist the late mutation: reload(flush #2) == the in-memory index == the oracle.
fn overlap_probes(rng: &mut Rng, n: u64, sum: &mut Summary) -> u64 {
    let mut landed = 0u64;
    for p in 0..n {
        let mut r = rng.fork();
        let allow_dup = p % 4 != 3;
        let overload = *r.pick(&[64usize, 96, 200]);
        let ix = Index::new("c10".to_string(), Some(BTreeConfig { bucket_overload_size: overload, allow_duplicates: allow_dup }));
        let mut model = Model::new();
        let mut hist: Vec<String> = Vec::new();
        let mutate = |ix: &Index, model: &mut Model, hist: &mut Vec<String>, ins: bool, pk: u64, k: u64, now: u64| {
            if ins {
                if let Ok(true) = ix.insert(pk, k, now) { model.entry(k).or_default().insert(pk); }
                hist.push(format!("insert({pk},{k})"));
            } else {
                if ix.remove(pk, k, now) { if let Some(s) = model.get_mut(&k) { s.remove(&pk); if s.is_empty() { model.remove(&k); } } }
                hist.push(format!("remove({pk},{k})"));
            }
        };
        let mut st = Store::new();
        let base = 1 + r.below(12);
        for i in 0..base {
            let (pk, k) = if allow_dup { (r.below(10), r.below(6)) } else { (i, i) };
            mutate(&ix, &mut model, &mut hist, true, pk, k, i);
        }
        if r.chance(1, 2) { let _ = flush_logged(&ix, &mut st, None); hist.push("flush".into()); }
        // dirty something so that flush #1 writes at least one bucket
        let (pk0, k0) = if allow_dup { (r.below(10), r.below(6)) } else { (100, 100) };
        mutate(&ix, &mut model, &mut hist, true, pk0, k0, 50);
        // the late mutations: at which write (0-based) each lands
        let late: Vec<(usize, bool, u64, u64)> = (0..1 + r.below(2)).map(|j| {
            let ins = r.chance(2, 3) || !allow_dup;
            let (pk, k) = if allow_dup { (r.below(10), r.below(6)) } else { (200 + j, 200 + j) };
            (r.below(3) as usize, ins, pk, k)
        }).collect();
        let log: RefCell<Vec<Step>> = RefCell::new(Vec::new());
        let cell = RefCell::new((&mut model, &mut hist, 0u64));
        let at_write = |n: usize| {
            let mut g = cell.borrow_mut();
            for (w, ins, pk, k) in late.iter() {
                if *w == n {
                    let (m, h, c) = &mut *g;
                    h.push(format!("-- during write #{n} of flush #1:"));
                    mutate(&ix, m, h, *ins, *pk, *k, 60);
                    *c += 1;
                }
            }
        };
        let res = futures::executor::block_on(ix.flush_owned_with(
            1_000,
            |data: Vec<u8>| { let n = log.borrow().len(); log.borrow_mut().push(Step::Put(Path::Meta, data)); at_write(n); async move { Ok::<(), anda_db_btree::BoxError>(()) } },
            |o: BucketObject, data: Vec<u8>| { let n = log.borrow().len(); log.borrow_mut().push(Step::Put(Path::Bucket(o.bucket_id, o.generation), data)); at_write(n); async move { Ok::<(), anda_db_btree::BoxError>(()) } },
        ));
        let (_, _, c) = cell.into_inner();
        landed += c;
        let mut log = log.into_inner();
        if let Ok(outcome) = &res { for o in &outcome.obsolete { log.push(Step::Del(Path::Bucket(o.bucket_id, o.generation))); } }
        for s in &log { apply_step(&mut st, s); }
        hist.push("flush #1 (overlapped)".into());
        // quiet flushes until nothing is pending (a second one must be a no-op)
        let _ = flush_logged(&ix, &mut st, None);
        let _ = flush_logged(&ix, &mut st, None);
        hist.push("flush #2; reload".into());
        sum.evaluations += 1;
        if let Some(d) = diff_index(&ix, &model) {
            fail(sum, "overlapped flush: in-memory index differs from the oracle", json!({"probe": p, "history": hist, "diff": d}));
            continue;
        }
        match load_from(&st) {
            Ok(Some(re)) => {
                if let Some(d) = diff_index(&re, &model) {
                    fail(sum, "round trip: a mutation that landed during an in-flight flush is lost (or a removed id resurrected) after the next flush and reload",
                         json!({"probe": p, "overload": overload, "allow_dup": allow_dup, "history": hist, "diff": d}));
                }
            }
            Ok(None) => fail(sum, "round trip: overlapped flush left no metadata", json!({"probe": p, "history": hist})),
            Err(e) => fail(sum, "round trip: reload after overlapped flush failed", json!({"probe": p, "history": hist, "error": e})),
        }
    }
    landed
}

fn main() {
    let args: Vec<String> = std::env::args().collect();
    let out_path = arg_value(&args, "--out").expect("--out");
    let seqs: u64 = arg_value(&args, "--seqs").and_then(|s| s.parse().ok()).unwrap_or(200);
    let max_ops: u64 = arg_value(&args, "--max-ops").and_then(|s| s.parse().ok()).unwrap_or(60);
    let model_every: u64 = arg_value(&args, "--model-every").and_then(|s| s.parse().ok()).unwrap_or(1);
    let legacy: u64 = arg_value(&args, "--legacy").and_then(|s| s.parse().ok()).unwrap_or(20);
    let mut out = std::io::BufWriter::new(std::fs::File::create(&out_path).expect("create out"));
    let mut rng = Rng::from_env();
    let mut sum = Summary {
        evaluations: 0, failures: vec![], op_hist: BTreeMap::new(), flushes: 0, flushes_multi_dirty: 0,
        crash_points: 0, migrations_seen: 0, unique_errors: 0, early_stops: 0, legacy_loads: 0,
    };
    let mut lens: BTreeMap<u64, u64> = BTreeMap::new();
    for seq in 0..seqs {
        let mut r = rng.fork();
        let exact_only = seq % 2 == 0;
        let overload = *r.pick(&[64usize, 64, 96, 128, 200]);
        let allow_dup = !r.chance(1, 4);
        let n = 1 + r.below(max_ops);
        let (npk, nk) = if allow_dup { (40, 16) } else { (6, 12) };
        let ops: Vec<Op> = gen_history(&mut r, exact_only, allow_dup, npk, nk, n);
        *lens.entry(n / 10 * 10).or_insert(0) += 1;
        let res = catch_unwind(AssertUnwindSafe(|| {
            run_history(seq, overload, allow_dup, &ops, &mut sum, &mut out, seq % model_every == 0);
        }));
        if res.is_err() {
            fail(&mut sum, "panic inside the index", json!({"seq": seq, "history": format!("{ops:?}")}));
        }
    }
    let probes: u64 = arg_value(&args, "--probes").and_then(|s| s.parse().ok()).unwrap_or(54);
    for p in 0..probes {
        let mut r = rng.fork();
        let allow_dup = p % 5 != 4;
        let ops = probe_history(&mut r, p, allow_dup);
        let overload = *r.pick(&[64usize, 64, 96]);
        let res = catch_unwind(AssertUnwindSafe(|| {
            run_history(1_000_000 + p, overload, allow_dup, &ops, &mut sum, &mut out, p % model_every == 0);
        }));
        if res.is_err() {
            fail(&mut sum, "panic inside the index", json!({"probe": p, "history": format!("{ops:?}")}));
        }
    }
    legacy_cases(&mut rng, legacy, &mut sum, &mut out);
    let overlaps: u64 = arg_value(&args, "--overlaps").and_then(|s| s.parse().ok()).unwrap_or(120);
    let overlap_landed = overlap_probes(&mut rng, overlaps, &mut sum);
    let t0 = std::time::Instant::now();
    let ss = if arg_value(&args, "--sched").as_deref() == Some("0") { None } else { Some(sched::main(&args, &mut out)) };
    let sched_json = match &ss {
        Some(ss) => {
            for f in &ss.failures { sum.failures.push(f.clone()); }
            sum.evaluations += ss.schedules;
            json!({"scenarios": ss.scenarios, "schedules": ss.schedules, "blocked_steps": ss.blocked, "distinct_outcomes": ss.distinct_outcomes,
                   "yield_points_per_mutation": ss.yield_hist, "wall_ms": t0.elapsed().as_millis() as u64})
        }
        None => json!(null),
    };
    let summary = json!({
        "kind": "summary", "evaluations": sum.evaluations, "histories": seqs, "oracle_failures": sum.failures.len(),
        "failures": sum.failures.iter().take(20).collect::<Vec<_>>(),
        "op_histogram": sum.op_hist, "history_lengths": lens, "flushes": sum.flushes,
        "flushes_with_2plus_dirty_buckets": sum.flushes_multi_dirty, "crash_points": sum.crash_points,
        "stats_with_migration": sum.migrations_seen, "unique_rejections": sum.unique_errors,
        "early_stopped_queries": sum.early_stops, "legacy_loads": sum.legacy_loads, "dirty_tracking_probes": probes, "overlapped_flush_probes": overlaps, "mutations_landed_during_flush": overlap_landed, "schedule_explorer": sched_json,
    });
    writeln!(out, "{}", summary).unwrap();
}
