//! C10 — schedule explorer.  No hook in the crate under test: the index is instantiated with a key type
//! whose `Hash` impl is a yield point (every DashMap / UniqueVec access hashes the key before or while it
//! takes its lock), so a controller can park a mutation at its n-th key access, let other threads run, and
//! resume it.  For every scenario (initial content, 2 or 3 concurrent mutations on overlapping keys) all
//! schedules with one preemption per thread pair position (A^a B A), two preemptions (A^a B^b A B) and, with
//! three threads, nested preemptions are executed on the real `BTreeIndex`; the final index (point queries,
//! key listing, len, range queries in both directions, flush + reload) together with the values the calls
//! returned must equal what SOME sequential order of the same calls gives on an ordered multimap.
use anda_db_btree::{BTreeConfig, BTreeError, BTreeIndex, BucketObject, RangeQuery};
use h_common::*;
use serde::{Deserialize, Serialize};
use serde_json::{Value, json};
use std::cell::RefCell;
use std::collections::{BTreeMap, BTreeSet};
use std::hash::{Hash, Hasher};
use std::io::Write;
use std::sync::{Arc, Condvar, Mutex};
use std::time::Duration;

struct St {
    count: usize,
    park_at: usize,
    parked: bool,
    resume: bool,
    done: bool,
    result: Option<Result<TRes, ()>>,
}
struct Ctl {
    m: Mutex<St>,
    cv: Condvar,
}
thread_local! { static CTL: RefCell<Option<Arc<Ctl>>> = const { RefCell::new(None) }; }

fn yield_point() {
    let ctl = CTL.with(|c| c.borrow().clone());
    if let Some(ctl) = ctl {
        let mut st = ctl.m.lock().unwrap();
        st.count += 1;
        if st.count == st.park_at {
            st.parked = true;
            st.resume = false;
            ctl.cv.notify_all();
            while !st.resume {
                st = ctl.cv.wait(st).unwrap();
            }
        }
    }
}

#[derive(Clone, Debug, PartialEq, Eq, PartialOrd, Ord, Serialize, Deserialize)]
#[serde(transparent)]
pub struct YK(pub u64);
impl Hash for YK {
    fn hash<H: Hasher>(&self, h: &mut H) {
        yield_point();
        self.0.hash(h)
    }
}

type Index = BTreeIndex<u64, YK>;
type Model = BTreeMap<u64, BTreeSet<u64>>;

#[derive(Clone, Debug, PartialEq, Eq)]
pub enum TOp {
    Insert(u64, u64),
    Remove(u64, u64),
    InsertArray(u64, Vec<u64>),
    RemoveArray(u64, Vec<u64>),
    Compact,
}
#[derive(Clone, Debug, PartialEq, Eq, PartialOrd, Ord)]
pub enum TRes {
    B(bool),
    N(usize),
    Err,
    Unit,
}

fn run_op(ix: &Index, op: &TOp) -> TRes {
    match op {
        TOp::Insert(p, k) => match ix.insert(*p, YK(*k), 1) {
            Ok(b) => TRes::B(b),
            Err(BTreeError::AlreadyExists { .. }) => TRes::Err,
            Err(_) => TRes::Err,
        },
        TOp::Remove(p, k) => TRes::B(ix.remove(*p, YK(*k), 1)),
        TOp::InsertArray(p, ks) => match ix.insert_array(*p, ks.iter().map(|k| YK(*k)).collect(), 1) {
            Ok(n) => TRes::N(n),
            Err(_) => TRes::Err,
        },
        TOp::RemoveArray(p, ks) => TRes::N(ix.remove_array(*p, ks.iter().map(|k| YK(*k)).collect(), 1)),
        TOp::Compact => {
            ix.compact_buckets();
            TRes::Unit
        }
    }
}

fn model_op(m: &mut Model, unique: bool, op: &TOp) -> TRes {
    let conflict = |m: &Model, p: &u64, k: &u64| unique && m.get(k).map(|s| !s.contains(p)).unwrap_or(false);
    let rem = |m: &mut Model, p: &u64, k: &u64| -> bool {
        let mut r = false;
        if let Some(s) = m.get_mut(k) {
            r = s.remove(p);
            if s.is_empty() {
                m.remove(k);
            }
        }
        r
    };
    match op {
        TOp::Insert(p, k) => {
            if conflict(m, p, k) { TRes::Err } else { TRes::B(m.entry(*k).or_default().insert(*p)) }
        }
        TOp::Remove(p, k) => TRes::B(rem(m, p, k)),
        TOp::InsertArray(p, ks) => {
            if ks.iter().any(|k| conflict(m, p, k)) { return TRes::Err; }
            let mut n = 0;
            for k in ks { if m.entry(*k).or_default().insert(*p) { n += 1; } }
            TRes::N(n)
        }
        TOp::RemoveArray(p, ks) => {
            let mut n = 0;
            for k in ks { if rem(m, p, k) { n += 1; } }
            TRes::N(n)
        }
        TOp::Compact => TRes::Unit,
    }
}

struct Th {
    ctl: Arc<Ctl>,
}

/// persistent worker threads (creating a thread costs milliseconds here, a mutation microseconds)
type Job = (Arc<Index>, TOp, Arc<Ctl>);
thread_local! { static POOL: RefCell<Vec<std::sync::mpsc::Sender<Job>>> = const { RefCell::new(Vec::new()) }; }
fn worker(i: usize) -> std::sync::mpsc::Sender<Job> {
    POOL.with(|p| {
        let mut p = p.borrow_mut();
        while p.len() <= i {
            let (tx, rx) = std::sync::mpsc::channel::<Job>();
            std::thread::spawn(move || {
                while let Ok((ix, op, ctl)) = rx.recv() {
                    CTL.with(|c| *c.borrow_mut() = Some(ctl.clone()));
                    let r = std::panic::catch_unwind(std::panic::AssertUnwindSafe(|| run_op(&ix, &op)));
                    CTL.with(|c| *c.borrow_mut() = None);
                    drop(ix);
                    let mut st = ctl.m.lock().unwrap();
                    st.result = Some(r.map_err(|_| ()));
                    st.done = true;
                    ctl.cv.notify_all();
                }
            });
            p.push(tx);
        }
        p[i].clone()
    })
}

#[derive(PartialEq, Debug)]
enum Status {
    Parked,
    Done,
    Blocked,
}

const STEP_TIMEOUT: Duration = Duration::from_micros(400);

fn wait_status(ctl: &Ctl, timeout: Duration) -> Status {
    if timeout > Duration::from_millis(100) {
        let st = ctl.m.lock().unwrap();
        let (st, _) = ctl.cv.wait_timeout_while(st, timeout, |s| !s.done && !s.parked).unwrap();
        return if st.done { Status::Done } else if st.parked { Status::Parked } else { Status::Blocked };
    }
    // busy wait: timer-based waits cost >= 10 ms on this kind of VM, a mutation takes microseconds
    let t0 = std::time::Instant::now();
    loop {
        {
            let st = ctl.m.lock().unwrap();
            if st.done { return Status::Done; }
            if st.parked { return Status::Parked; }
        }
        if t0.elapsed() > timeout { return Status::Blocked; }
        std::thread::yield_now();
    }
}

fn spawn(ix: &Arc<Index>, op: TOp, park_at: usize, slot: usize) -> (Th, Status) {
    let ctl = Arc::new(Ctl { m: Mutex::new(St { count: 0, park_at, parked: false, resume: false, done: false, result: None }), cv: Condvar::new() });
    worker(slot).send((ix.clone(), op, ctl.clone())).expect("worker alive");
    let s = wait_status(&ctl, STEP_TIMEOUT);
    (Th { ctl }, s)
}

fn resume(t: &Th, park_at: usize) -> Status {
    {
        let mut st = t.ctl.m.lock().unwrap();
        if st.done { return Status::Done; }
        st.park_at = park_at;
        if st.parked {
            st.parked = false;
            st.resume = true;
            t.ctl.cv.notify_all();
        }
    }
    wait_status(&t.ctl, STEP_TIMEOUT)
}

/// let everybody run to the end, in the given priority order; a thread blocked on a lock held by a parked
/// thread simply finishes later
fn finish(ths: &mut [Th], order: &[usize]) -> Result<Vec<TRes>, String> {
    for &i in order {
        let _ = resume(&ths[i], usize::MAX);
    }
    let mut out = Vec::new();
    for t in ths.iter_mut() {
        if wait_status(&t.ctl, Duration::from_secs(5)) != Status::Done {
            return Err("deadlock: a mutation did not finish within 5 s after every thread was resumed".into());
        }
        match t.ctl.m.lock().unwrap().result.take() {
            Some(Ok(r)) => out.push(r),
            _ => return Err("panic inside a mutation".into()),
        }
    }
    Ok(out)
}

pub struct Scenario {
    pub overload: usize,
    pub unique: bool,
    pub setup: Vec<(u64, u64)>,
    pub ops: Vec<TOp>,
}

fn build(sc: &Scenario) -> (Arc<Index>, Model) {
    let ix = Index::new("c10s".into(), Some(BTreeConfig { bucket_overload_size: sc.overload, allow_duplicates: !sc.unique }));
    let mut m = Model::new();
    for (p, k) in &sc.setup {
        if model_op(&mut m, sc.unique, &TOp::Insert(*p, *k)) != TRes::Err {
            let _ = ix.insert(*p, YK(*k), 0);
        }
    }
    (Arc::new(ix), m)
}

fn yields_of(sc: &Scenario, i: usize) -> usize {
    let (ix, _) = build(sc);
    let (t, _) = spawn(&ix, sc.ops[i].clone(), usize::MAX, 0);
    let _ = wait_status(&t.ctl, Duration::from_secs(5));
    let n = t.ctl.m.lock().unwrap().count;
    n
}

fn content(ix: &Index) -> Model {
    let mut m = Model::new();
    for k in ix.keys(None, None) {
        let ids: BTreeSet<u64> = ix.query_with(&k, |ids| Some(ids.iter().copied().collect())).unwrap_or_default();
        m.insert(k.0, ids);
    }
    m
}

/// every observable view of the final index must tell the same story
fn views(ix: &Index) -> Result<Model, String> {
    let c = content(ix);
    if c.values().any(|s| s.is_empty()) {
        return Err(format!("ghost key: the key listing has a key without ids: {c:?}"));
    }
    if ix.len() != c.len() {
        return Err(format!("len() = {} but the key listing has {} keys ({c:?})", ix.len(), c.len()));
    }
    for rev in [false, true] {
        let mut m = Model::new();
        let f = |k: &YK, ids: &Vec<u64>| (true, vec![(k.0, ids.clone())]);
        let rows = if rev { ix.range_query_rev_with(RangeQuery::Ge(YK(0)), f) } else { ix.range_query_with(RangeQuery::Ge(YK(0)), f) };
        for (k, ids) in rows { m.entry(k).or_default().extend(ids); }
        if m != c {
            return Err(format!("range query (rev={rev}) {m:?} != key listing + point queries {c:?}"));
        }
    }
    // flush + reload
    let mut meta: Vec<u8> = Vec::new();
    let objs: RefCell<BTreeMap<(u32, u64), Vec<u8>>> = RefCell::new(BTreeMap::new());
    let r = futures::executor::block_on(ix.flush(&mut meta, 1, |o: BucketObject, d: Vec<u8>| {
        objs.borrow_mut().insert((o.bucket_id, o.generation), d);
        std::future::ready(Ok(()))
    }));
    if let Err(e) = r { return Err(format!("flush failed: {e:?}")); }
    let objs = objs.into_inner();
    let l = futures::executor::block_on(Index::load_all(&meta[..], async |o: BucketObject| Ok(objs.get(&(o.bucket_id, o.generation)).cloned())));
    match l {
        Ok(l) => {
            let lc = content(&l);
            if lc != c { return Err(format!("after flush + reload {lc:?} != live index {c:?}")); }
        }
        Err(e) => return Err(format!("reload failed: {e:?}")),
    }
    Ok(c)
}

fn permutations(n: usize) -> Vec<Vec<usize>> {
    if n == 2 { vec![vec![0, 1], vec![1, 0]] } else {
        vec![vec![0, 1, 2], vec![0, 2, 1], vec![1, 0, 2], vec![1, 2, 0], vec![2, 0, 1], vec![2, 1, 0]]
    }
}

/// The atomic steps a call consists of at the level of the multimap: `insert` / `remove` are one step;
/// the array calls are documented as a loop over their values (a unique-index `insert_array` first
/// pre-checks all values, then re-checks each one and keeps what was applied before a late conflict).
#[derive(Clone, Debug)]
enum Sub {
    Ins(u64, u64),
    Rem(u64, u64),
    Pre(u64, Vec<u64>),
}
fn subs(op: &TOp, unique: bool) -> Vec<Sub> {
    match op {
        TOp::Insert(p, k) => vec![Sub::Ins(*p, *k)],
        TOp::Remove(p, k) => vec![Sub::Rem(*p, *k)],
        TOp::InsertArray(p, ks) => {
            let mut v = Vec::new();
            if unique && !ks.is_empty() { v.push(Sub::Pre(*p, ks.clone())); }
            v.extend(ks.iter().map(|k| Sub::Ins(*p, *k)));
            v
        }
        TOp::RemoveArray(p, ks) => ks.iter().map(|k| Sub::Rem(*p, *k)).collect(),
        TOp::Compact => vec![],
    }
}

#[derive(Clone)]
struct ThState { pos: usize, count: usize, err: bool }

fn merges(sc: &Scenario, all: &[Vec<Sub>], m: Model, st: Vec<ThState>, out: &mut Vec<(Model, Vec<TRes>)>) {
    let mut any = false;
    for t in 0..all.len() {
        if st[t].err || st[t].pos >= all[t].len() { continue; }
        any = true;
        let mut m2 = m.clone();
        let mut st2 = st.clone();
        match &all[t][st[t].pos] {
            Sub::Ins(p, k) => match model_op(&mut m2, sc.unique, &TOp::Insert(*p, *k)) {
                TRes::B(true) => st2[t].count += 1,
                TRes::Err => st2[t].err = true,
                _ => {}
            },
            Sub::Rem(p, k) => { if model_op(&mut m2, sc.unique, &TOp::Remove(*p, *k)) == TRes::B(true) { st2[t].count += 1; } }
            Sub::Pre(p, ks) => { if ks.iter().any(|k| m2.get(k).map(|s| !s.contains(p)).unwrap_or(false)) { st2[t].err = true; } }
        }
        st2[t].pos += 1;
        merges(sc, all, m2, st2, out);
    }
    if !any {
        let res: Vec<TRes> = sc.ops.iter().enumerate().map(|(t, op)| match op {
            TOp::Insert(..) => if st[t].err { TRes::Err } else { TRes::B(st[t].count > 0) },
            TOp::Remove(..) => TRes::B(st[t].count > 0),
            TOp::InsertArray(..) => if st[t].err { TRes::Err } else { TRes::N(st[t].count) },
            TOp::RemoveArray(..) => TRes::N(st[t].count),
            TOp::Compact => TRes::Unit,
        }).collect();
        let key = (m, res);
        if !out.contains(&key) { out.push(key); }
    }
}

/// every (final multimap, returned values) that some interleaving of the calls' atomic steps produces;
/// for single-pair calls this is exactly "some sequential order of the calls"
fn sequential_outcomes(sc: &Scenario, base: &Model) -> Vec<(Model, Vec<TRes>)> {
    let all: Vec<Vec<Sub>> = sc.ops.iter().map(|o| subs(o, sc.unique)).collect();
    let mut out = Vec::new();
    merges(sc, &all, base.clone(), vec![ThState { pos: 0, count: 0, err: false }; sc.ops.len()], &mut out);
    out
}

pub struct SchedSummary {
    pub scenarios: u64,
    pub schedules: u64,
    pub blocked: u64,
    pub distinct_outcomes: u64,
    pub failures: Vec<Value>,
    pub yield_hist: BTreeMap<usize, u64>,
}

fn op_term(o: &TOp) -> Value {
    match o {
        TOp::Insert(p, k) => ctor("OInsert", vec![json!(*p), json!(*k)]),
        TOp::Remove(p, k) => ctor("ORemove", vec![json!(*p), json!(*k)]),
        TOp::InsertArray(p, ks) => ctor("OInsertArray", vec![json!(*p), json!(ks)]),
        TOp::RemoveArray(p, ks) => ctor("ORemoveArray", vec![json!(*p), json!(ks)]),
        TOp::Compact => ctor("OCompact", vec![]),
    }
}
fn res_term(r: &TRes) -> Value {
    match r {
        TRes::B(b) => ctor("RBool", vec![json!(*b)]),
        TRes::N(n) => ctor("RCount", vec![json!(*n)]),
        TRes::Err => ctor("RErr", vec![]),
        TRes::Unit => ctor("RCompact", vec![json!(0), json!(0)]),
    }
}

/// one schedule: `plan` = (thread, park_at) prefix steps, then everybody finishes in `order`
fn run_schedule(sc: &Scenario, plan: &[(usize, usize)], order: &[usize], sum: &mut SchedSummary,
                seen: &mut BTreeSet<(Model, Vec<TRes>)>, outcomes: &[(Model, Vec<TRes>)], out: &mut impl Write, base: &Model) {
    let (ix, _) = build(sc);
    sum.schedules += 1;
    let n = sc.ops.len();
    let mut ths: Vec<Option<Th>> = (0..n).map(|_| None).collect();
    for (t, park) in plan {
        let st = match &ths[*t] {
            None => { let (th, st) = spawn(&ix, sc.ops[*t].clone(), *park, *t); ths[*t] = Some(th); st }
            Some(th) => resume(th, *park),
        };
        if st == Status::Blocked { sum.blocked += 1; }
    }
    for t in 0..n {
        if ths[t].is_none() {
            // not yet started: started by `finish` order below, to the end
        }
    }
    // start the remaining threads in `order`
    for &t in order {
        if ths[t].is_none() {
            let (th, st) = spawn(&ix, sc.ops[t].clone(), usize::MAX, t);
            if st == Status::Blocked { sum.blocked += 1; }
            ths[t] = Some(th);
        }
    }
    let mut ths: Vec<Th> = ths.into_iter().map(|t| t.unwrap()).collect();
    let describe = |what: &str, detail: String| json!({
        "what": what,
        "detail": {"overload": sc.overload, "unique": sc.unique, "initial": format!("{:?}", sc.setup), "threads": format!("{:?}", sc.ops),
                   "schedule": format!("park plan (thread, n-th key access) {:?}, then finish in order {:?}", plan, order), "observed": detail}});
    match finish(&mut ths, order) {
        Err(e) => { if sum.failures.len() < 40 { sum.failures.push(describe(&format!("schedule explorer: {e}"), String::new())); } }
        Ok(results) => match views(&ix) {
            Err(e) => { if sum.failures.len() < 40 { sum.failures.push(describe("concurrent mutations: the views of the final index disagree (lost or phantom posting)", format!("{e}; returned {results:?}"))); } }
            Ok(c) => {
                let key = (c.clone(), results.clone());
                if !outcomes.contains(&key) {
                    if sum.failures.len() < 40 {
                        sum.failures.push(describe("concurrent mutations: final index + returned values match NO sequential order of the calls (lost / duplicated update)",
                            format!("final {c:?}, returned {results:?}; sequential outcomes {outcomes:?}")));
                    } else { sum.failures.push(json!({"what": "concurrent mutations: final index + returned values match NO sequential order of the calls (lost / duplicated update)"})); }
                }
                if seen.insert(key) {
                    sum.distinct_outcomes += 1;
                    let mut setup_ops: Vec<Value> = Vec::new();
                    let mut m = Model::new();
                    for (p, k) in &sc.setup { if model_op(&mut m, sc.unique, &TOp::Insert(*p, *k)) != TRes::Err { setup_ops.push(op_term(&TOp::Insert(*p, *k))); } }
                    let _ = base;
                    let cont: Vec<Value> = c.iter().map(|(k, ids)| tup(vec![json!(*k), json!(ids.iter().copied().collect::<Vec<_>>())])).collect();
                    writeln!(out, "{}", json!({"kind": "conc", "case": tup(vec![
                        tup(vec![json!(sc.overload), json!(!sc.unique), Value::Array(setup_ops)]),
                        Value::Array(sc.ops.iter().map(op_term).collect()),
                        Value::Array(results.iter().map(res_term).collect()),
                        Value::Array(cont)])})).unwrap();
                }
            }
        },
    }
}

fn explore(sc: &Scenario, deep: bool, sum: &mut SchedSummary, out: &mut impl Write) {
    sum.scenarios += 1;
    let (_, base) = build(sc);
    let outcomes = sequential_outcomes(sc, &base);
    let n = sc.ops.len();
    let ys: Vec<usize> = (0..n).map(|i| yields_of(sc, i)).collect();
    for y in &ys { *sum.yield_hist.entry(*y).or_insert(0) += 1; }
    let mut seen = BTreeSet::new();
    if n == 2 {
        for (a, b) in [(0usize, 1usize), (1, 0)] {
            for pa in 1..=ys[a] {
                // A^pa B A
                run_schedule(sc, &[(a, pa)], &[b, a], sum, &mut seen, &outcomes, out, &base);
                if deep {
                    for pb in 1..=ys[b] {
                        // A^pa B^pb A B   and   A^pa B^pb B A
                        run_schedule(sc, &[(a, pa), (b, pb)], &[a, b], sum, &mut seen, &outcomes, out, &base);
                        // three segments of A: A^pa B^pb A^(pa+1..) B A
                        if pa < ys[a] {
                            run_schedule(sc, &[(a, pa), (b, pb), (a, pa + 1)], &[b, a], sum, &mut seen, &outcomes, out, &base);
                        }
                    }
                }
            }
        }
    } else {
        for perm in permutations(3) {
            let (a, b, c) = (perm[0], perm[1], perm[2]);
            for pa in 1..=ys[a] {
                for pb in 1..=ys[b] {
                    // A^pa B^pb C B A
                    run_schedule(sc, &[(a, pa), (b, pb)], &[c, b, a], sum, &mut seen, &outcomes, out, &base);
                    if deep { run_schedule(sc, &[(a, pa), (b, pb)], &[c, a, b], sum, &mut seen, &outcomes, out, &base); }
                }
            }
        }
    }
}

fn templates(hot: u64, other: u64) -> Vec<TOp> {
    vec![
        TOp::Insert(2, hot),
        TOp::Insert(1, hot),
        TOp::Insert(3, 9),
        TOp::Remove(1, hot),
        TOp::Remove(2, hot),
        TOp::InsertArray(3, vec![hot, other]),
        TOp::InsertArray(2, vec![9, hot]),
        TOp::RemoveArray(1, vec![hot, other]),
        TOp::RemoveArray(2, vec![other, hot]),
        TOp::Compact,
    ]
}

pub fn main(args: &[String], out: &mut impl Write) -> SchedSummary {
    let deep_every: u64 = arg_value(args, "--sched-deep-every").and_then(|s| s.parse().ok()).unwrap_or(6);
    let three: u64 = arg_value(args, "--sched-three").and_then(|s| s.parse().ok()).unwrap_or(0);
    let random: u64 = arg_value(args, "--sched-random").and_then(|s| s.parse().ok()).unwrap_or(40);
    let mut rng = Rng::from_env();
    let mut sum = SchedSummary { scenarios: 0, schedules: 0, blocked: 0, distinct_outcomes: 0, failures: vec![], yield_hist: BTreeMap::new() };
    // initial contents: the hot key 5 held by one id / two ids / nobody; a second key; a crowded index with tiny
    // buckets (migrations and several buckets, so compaction has something to do)
    let crowded: Vec<(u64, u64)> = (0..14).map(|i| (1 + i % 3, 20 + i)).chain([(1, 5), (1, 6)]).collect();
    let inits: Vec<Vec<(u64, u64)>> = vec![
        vec![(1, 5)],
        vec![(1, 5), (2, 5)],
        vec![(1, 5), (1, 6), (2, 6)],
        vec![],
        crowded,
    ];
    let ts = templates(5, 6);
    let mut idx = 0u64;
    for (ii, init) in inits.iter().enumerate() {
        for unique in [false, true] {
            if unique && init.iter().any(|(p, k)| init.iter().any(|(p2, k2)| k == k2 && p != p2)) { continue; }
            for a in 0..ts.len() {
                for b in a..ts.len() {
                    if ts[a] == TOp::Compact && ts[b] == TOp::Compact { continue; }
                    let sc = Scenario { overload: 64, unique, setup: init.clone(), ops: vec![ts[a].clone(), ts[b].clone()] };
                    idx += 1;
                    let deep = deep_every > 0 && (idx % deep_every == 0 || ii == 0);
                    explore(&sc, deep, &mut sum, out);
                }
            }
        }
    }
    // random scenarios
    for _ in 0..random {
        let mut r = rng.fork();
        let nsetup = r.below(10);
        let setup: Vec<(u64, u64)> = (0..nsetup).map(|_| (1 + r.below(3), *r.pick(&[5u64, 5, 6, 7, 21, 22, 23, 24]))).collect();
        let pick = |r: &mut Rng| -> TOp {
            let k = *r.pick(&[5u64, 5, 6, 7]);
            let p = 1 + r.below(3);
            match r.below(9) {
                0..=2 => TOp::Insert(p, k),
                3..=5 => TOp::Remove(p, k),
                6 => TOp::InsertArray(p, vec![k, 5 + r.below(3)]),
                7 => TOp::RemoveArray(p, vec![5 + r.below(3), k]),
                _ => TOp::Compact,
            }
        };
        let sc = Scenario { overload: 64, unique: r.chance(1, 4), setup, ops: vec![pick(&mut r), pick(&mut r)] };
        explore(&sc, true, &mut sum, out);
    }
    // three threads
    for _ in 0..three {
        let mut r = rng.fork();
        let nsetup = r.below(8);
        let setup: Vec<(u64, u64)> = (0..nsetup).map(|_| (1 + r.below(3), *r.pick(&[5u64, 5, 6, 21, 22, 23]))).collect();
        let pick = |r: &mut Rng| -> TOp {
            let k = *r.pick(&[5u64, 5, 6]);
            let p = 1 + r.below(3);
            match r.below(8) { 0..=2 => TOp::Insert(p, k), 3..=5 => TOp::Remove(p, k), 6 => TOp::InsertArray(p, vec![k, 6]), _ => TOp::Compact }
        };
        let sc = Scenario { overload: 64, unique: r.chance(1, 5), setup, ops: vec![pick(&mut r), pick(&mut r), pick(&mut r)] };
        explore(&sc, false, &mut sum, out);
    }
    sum
}
