//! C09 harness: single-site tamper enumeration against the real `EncryptedStore` over `InMemory`.
//!
//! Honest phase: objects of sizes across chunk boundaries are written through the store (put,
//! multipart, overwrite, copy, rename).  Adversarial phase: the inner store is forked, one tamper is
//! applied, a *fresh* `EncryptedStore` (empty metadata cache) is opened over it and every read path
//! is exercised.  Direct oracle: each outcome is the honest outcome or an error, never different
//! bytes / metadata.  Further oracles: no plaintext window in any inner object ever written, chunk
//! and seal nonces recomputed from all metadata documents are pairwise distinct, every honest chunk
//! and seal verifies under an independent AES-GCM with the harness's own AAD/nonce transcription.
use aes_gcm::{AeadInOut, Aes256Gcm, Key, KeyInit, Nonce, Tag};
use anda_object_store::{EncryptedStore, EncryptedStoreBuilder};
use bytes::Bytes;
use futures::{FutureExt, StreamExt, TryStreamExt};
use h_common::{Rng, arg_value, ctor, some, tup};
use object_store::{
    GetOptions, GetRange, ObjectStore, ObjectStoreExt, PutPayload, memory::InMemory, path::Path,
};
use serde::{Deserialize, Serialize};
use serde_bytes::ByteArray;
use serde_json::{Value, json};
use std::collections::{BTreeMap, BTreeSet};
use std::io::Write;
use std::panic::AssertUnwindSafe;
use std::sync::Arc;

const SECRET: [u8; 32] = [0x42; 32];

/// Mirror of `encryption::Metadata` (same serde layout) so the harness can decode and edit documents.
#[derive(Clone, Debug, Deserialize, Serialize, PartialEq)]
struct MetaDoc {
    #[serde(rename = "s")]
    size: u64,
    #[serde(rename = "e")]
    e_tag: Option<String>,
    #[serde(rename = "o")]
    original_tag: Option<String>,
    #[serde(rename = "v")]
    original_version: Option<String>,
    #[serde(rename = "n")]
    aes_nonce: ByteArray<12>,
    #[serde(rename = "t")]
    aes_tags: Vec<ByteArray<16>>,
    #[serde(rename = "c", default, skip_serializing_if = "Option::is_none")]
    chunk_size: Option<u64>,
    #[serde(rename = "av", default, skip_serializing_if = "Option::is_none")]
    chunk_aad_version: Option<u8>,
    #[serde(rename = "an", default, skip_serializing_if = "Option::is_none")]
    auth_nonce: Option<ByteArray<12>>,
    #[serde(rename = "at", default, skip_serializing_if = "Option::is_none")]
    auth_tag: Option<ByteArray<16>>,
    #[serde(rename = "g", default, skip_serializing_if = "Option::is_none")]
    generation: Option<String>,
    #[serde(rename = "m", default, skip_serializing_if = "Option::is_none")]
    committed_at_ms: Option<u64>,
}

fn decode_doc(b: &[u8]) -> Option<MetaDoc> {
    cbor2::from_reader(b).ok()
}
fn encode_doc(m: &MetaDoc) -> Vec<u8> {
    let mut v = Vec::new();
    cbor2::to_writer(m, &mut v).unwrap();
    v
}

// ---- the harness's own transcription of the authenticated encodings (checked against the real
// ---- tags with an independent AES-GCM instance, and against the Coq encoder by Run.check_aad)
fn push_bytes(out: &mut Vec<u8>, v: &[u8]) {
    out.extend_from_slice(&(v.len() as u64).to_le_bytes());
    out.extend_from_slice(v);
}
fn push_opt_str(out: &mut Vec<u8>, v: Option<&str>) {
    match v {
        Some(s) => {
            out.push(1);
            push_bytes(out, s.as_bytes());
        }
        None => out.push(0),
    }
}
fn my_meta_aad(loc: &str, m: &MetaDoc) -> Vec<u8> {
    let mut a = Vec::new();
    a.extend_from_slice(b"anda_object_store.encrypted.metadata.v1");
    push_bytes(&mut a, loc.as_bytes());
    a.extend_from_slice(&m.size.to_le_bytes());
    push_opt_str(&mut a, m.e_tag.as_deref());
    push_opt_str(&mut a, m.original_tag.as_deref());
    push_opt_str(&mut a, m.original_version.as_deref());
    push_bytes(&mut a, m.aes_nonce.as_slice());
    match m.chunk_size {
        Some(c) => {
            a.push(1);
            a.extend_from_slice(&c.to_le_bytes());
        }
        None => a.push(0),
    }
    match m.chunk_aad_version {
        Some(c) => {
            a.push(1);
            a.push(c);
        }
        None => a.push(0),
    }
    a.extend_from_slice(&(m.aes_tags.len() as u64).to_le_bytes());
    for t in &m.aes_tags {
        push_bytes(&mut a, t.as_slice());
    }
    if let Some(g) = &m.generation {
        a.extend_from_slice(b".g");
        push_bytes(&mut a, g.as_bytes());
    }
    if let Some(ms) = m.committed_at_ms {
        a.extend_from_slice(b".m");
        a.extend_from_slice(&ms.to_le_bytes());
    }
    a
}
fn my_chunk_aad(cs: u64, idx: u64) -> Vec<u8> {
    let mut a = Vec::new();
    a.extend_from_slice(b"anda_object_store.encrypted.chunk.v1");
    a.extend_from_slice(&cs.to_le_bytes());
    a.extend_from_slice(&idx.to_le_bytes());
    a
}
fn my_nonce(base: &[u8; 12], idx: u64) -> [u8; 12] {
    let mut n = *base;
    let c = u64::from_le_bytes(n[4..12].try_into().unwrap()).wrapping_add(idx);
    n[4..12].copy_from_slice(&c.to_le_bytes());
    n
}
fn cipher() -> Aes256Gcm {
    Aes256Gcm::new(&Key::<Aes256Gcm>::from(SECRET))
}
fn gcm_open(c: &Aes256Gcm, nonce: [u8; 12], aad: &[u8], ct: &[u8], tag: [u8; 16]) -> Option<Vec<u8>> {
    let mut buf = ct.to_vec();
    c.decrypt_inout_detached(&Nonce::from(nonce), aad, (&mut buf[..]).into(), &Tag::from(tag))
        .ok()
        .map(|_| buf)
}
fn gcm_seal(c: &Aes256Gcm, nonce: [u8; 12], aad: &[u8], pt: &[u8]) -> (Vec<u8>, [u8; 16]) {
    let mut buf = pt.to_vec();
    let tag = c
        .encrypt_inout_detached(&Nonce::from(nonce), aad, (&mut buf[..]).into())
        .unwrap();
    (buf, tag.into())
}

fn hex(b: &[u8]) -> String {
    let mut s = String::with_capacity(b.len() * 2);
    for x in b {
        s.push_str(&format!("{:02x}", x));
    }
    s
}
fn hexv(b: &[u8]) -> Value {
    json!({"raw": format!("(hx \"{}\"%string)", hex(b))})
}
fn opt<T>(o: Option<T>, f: impl Fn(T) -> Value) -> Value {
    match o {
        Some(x) => some(f(x)),
        None => Value::Null,
    }
}
fn meta_term(m: &MetaDoc) -> Value {
    ctor(
        "mkMetaH",
        vec![
            json!(m.size),
            opt(m.e_tag.as_deref(), |s| hexv(s.as_bytes())),
            opt(m.original_tag.as_deref(), |s| hexv(s.as_bytes())),
            opt(m.original_version.as_deref(), |s| hexv(s.as_bytes())),
            hexv(m.aes_nonce.as_slice()),
            Value::Array(m.aes_tags.iter().map(|t| hexv(t.as_slice())).collect()),
            opt(m.chunk_size, |c| json!(c)),
            opt(m.chunk_aad_version, |c| json!(c)),
            opt(m.auth_nonce.as_ref(), |n| hexv(n.as_slice())),
            opt(m.auth_tag.as_ref(), |n| hexv(n.as_slice())),
            opt(m.generation.as_deref(), |s| hexv(s.as_bytes())),
            opt(m.committed_at_ms, |c| json!(c)),
        ],
    )
}

// ------------------------------------------------------------------------------------------ reads
#[derive(Clone, Debug, PartialEq, Eq, PartialOrd, Ord)]
enum Op {
    Get(Option<Rg>),
    Ranges(Vec<(u64, u64)>),
    Head,
}
#[derive(Clone, Debug, PartialEq, Eq, PartialOrd, Ord)]
enum Rg {
    Bounded(u64, u64),
    Offset(u64),
    Suffix(u64),
}
impl Op {
    fn term(&self) -> Value {
        match self {
            Op::Get(None) => ctor("OGet", vec![Value::Null]),
            Op::Get(Some(r)) => ctor(
                "OGet",
                vec![some(match r {
                    Rg::Bounded(s, e) => ctor("RBounded", vec![json!(s), json!(e)]),
                    Rg::Offset(o) => ctor("ROffset", vec![json!(o)]),
                    Rg::Suffix(n) => ctor("RSuffix", vec![json!(n)]),
                })],
            ),
            Op::Ranges(rs) => ctor(
                "ORanges",
                vec![Value::Array(rs.iter().map(|(s, e)| tup(vec![json!(s), json!(e)])).collect())],
            ),
            Op::Head => ctor("OHead", vec![]),
        }
    }
    fn name(&self) -> String {
        format!("{:?}", self)
    }
}

#[derive(Clone, Debug, PartialEq, Eq)]
enum Out {
    Err(String),
    Panic(String),
    Bytes { data: Vec<Vec<u8>>, size: u64, etag: Option<String>, lm: i64 },
    Meta { size: u64, etag: Option<String>, lm: i64 },
}
impl Out {
    fn is_fail(&self) -> bool {
        matches!(self, Out::Err(_) | Out::Panic(_))
    }
    fn term(&self, sealed: &[Sealed]) -> Value {
        match self {
            Out::Err(_) | Out::Panic(_) => ctor("OErr", vec![]),
            Out::Bytes { data, size, etag, lm } => ctor(
                "OBytes",
                vec![Value::Array(data.iter().map(|d| hexv(d)).collect()), json!(size), etag_ref(sealed, etag.as_deref()), json!(lm)],
            ),
            Out::Meta { size, etag, lm } => ctor("OMeta", vec![json!(size), etag_ref(sealed, etag.as_deref()), json!(lm)]),
        }
    }
    fn short(&self) -> Value {
        match self {
            Out::Err(e) => json!({"err": e.chars().take(160).collect::<String>()}),
            Out::Panic(e) => json!({"panic": e}),
            Out::Bytes { data, size, etag, lm } => {
                json!({"ok_bytes": data.iter().map(|d| hex(d)).collect::<Vec<_>>(), "size": size, "etag": etag, "lm": lm})
            }
            Out::Meta { size, etag, lm } => json!({"ok_meta": {"size": size, "etag": etag, "lm": lm}}),
        }
    }
}

/// equality of two successful outcomes: bytes, size and ETag for data reads; size, ETag and
/// last_modified for metadata reads
fn same_outcome(a: &Out, b: &Out) -> bool {
    match (a, b) {
        (Out::Bytes { data: d1, size: s1, etag: e1, .. }, Out::Bytes { data: d2, size: s2, etag: e2, .. }) => d1 == d2 && s1 == s2 && e1 == e2,
        _ => a == b,
    }
}

/// keep the first few failing inputs of every class, count all
struct Fails {
    list: Vec<Value>,
    counts: BTreeMap<String, u64>,
}
impl Fails {
    fn push(&mut self, v: Value) {
        let class = v["class"].as_str().unwrap_or("?").to_string();
        let c = self.counts.entry(class).or_default();
        *c += 1;
        if *c <= 4 {
            self.list.push(v);
        }
    }
    fn len(&self) -> usize {
        self.counts.values().sum::<u64>() as usize
    }
}

type Store = EncryptedStore<Arc<dyn ObjectStore>>;

fn open_store(inner: Arc<InMemory>, cs: u64, strict: bool) -> Store {
    let dynstore: Arc<dyn ObjectStore> = inner;
    let b = EncryptedStoreBuilder::with_secret(dynstore, 64, SECRET).with_chunk_size(cs);
    if strict { b.with_strict_metadata_auth().build() } else { b.build() }
}

fn err_kind(e: &object_store::Error) -> String {
    let s = format!("{e}");
    s
}

async fn do_read_inner(store: &Store, loc: &Path, op: &Op) -> Out {
    match op {
        Op::Get(r) => {
            let mut o = GetOptions::default();
            o.range = r.as_ref().map(|r| match r {
                Rg::Bounded(s, e) => GetRange::Bounded(*s..*e),
                Rg::Offset(x) => GetRange::Offset(*x),
                Rg::Suffix(x) => GetRange::Suffix(*x),
            });
            match store.get_opts(loc, o).await {
                Err(e) => Out::Err(err_kind(&e)),
                Ok(res) => {
                    let m = res.meta.clone();
                    let mut s = res.into_stream();
                    let mut data = Vec::new();
                    while let Some(x) = s.next().await {
                        match x {
                            Ok(b) => data.extend_from_slice(&b),
                            Err(e) => return Out::Err(err_kind(&e)),
                        }
                    }
                    Out::Bytes {
                        data: vec![data],
                        size: m.size,
                        etag: m.e_tag,
                        lm: m.last_modified.timestamp_millis(),
                    }
                }
            }
        }
        Op::Ranges(rs) => {
            let rr: Vec<std::ops::Range<u64>> = rs.iter().map(|(s, e)| *s..*e).collect();
            match store.get_ranges(loc, &rr).await {
                Err(e) => Out::Err(err_kind(&e)),
                Ok(v) => Out::Bytes { data: v.iter().map(|b| b.to_vec()).collect(), size: 0, etag: None, lm: 0 },
            }
        }
        Op::Head => match store.head(loc).await {
            Err(e) => Out::Err(err_kind(&e)),
            Ok(m) => Out::Meta { size: m.size, etag: m.e_tag, lm: m.last_modified.timestamp_millis() },
        },
    }
}
async fn do_read(store: &Store, loc: &Path, op: &Op) -> Out {
    match AssertUnwindSafe(do_read_inner(store, loc, op)).catch_unwind().await {
        Ok(o) => o,
        Err(p) => Out::Panic(
            p.downcast_ref::<String>().cloned().or_else(|| p.downcast_ref::<&str>().map(|s| s.to_string())).unwrap_or_default(),
        ),
    }
}

/// listing outcome: Err, or (location -> (size, etag, lm))
fn etag_ref(sealed: &[Sealed], e: Option<&str>) -> Value {
    match e {
        None => ctor("ENone", vec![]),
        Some(x) => match sealed.iter().position(|s| s.doc.e_tag.as_deref() == Some(x)) {
            Some(i) => ctor("ERef", vec![json!(i)]),
            None => ctor("ELit", vec![hexv(x.as_bytes())]),
        },
    }
}

/// the tampered document relative to an honest one: (index, edits), payload by reference when possible
fn doc_term(sealed: &[Sealed], key: &str, doc: &MetaDoc, payload: Option<&Vec<u8>>) -> Value {
    let idx = sealed.iter().rposition(|s| s.loc == key).unwrap_or(0);
    let h = &sealed[idx].doc;
    let ob = |o: &Option<String>| opt(o.as_deref(), |s| hexv(s.as_bytes()));
    let mut ed = Vec::new();
    if doc.size != h.size { ed.push(ctor("ESize", vec![json!(doc.size)])); }
    if doc.e_tag != h.e_tag { ed.push(ctor("EEtag", vec![ob(&doc.e_tag)])); }
    if doc.original_tag != h.original_tag { ed.push(ctor("EOtag", vec![ob(&doc.original_tag)])); }
    if doc.original_version != h.original_version { ed.push(ctor("EOver", vec![ob(&doc.original_version)])); }
    if doc.aes_nonce != h.aes_nonce { ed.push(ctor("ENonce", vec![hexv(doc.aes_nonce.as_slice())])); }
    if doc.aes_tags != h.aes_tags { ed.push(ctor("ETags", vec![Value::Array(doc.aes_tags.iter().map(|t| hexv(t.as_slice())).collect())])); }
    if doc.chunk_size != h.chunk_size { ed.push(ctor("ECs", vec![opt(doc.chunk_size, |c| json!(c))])); }
    if doc.chunk_aad_version != h.chunk_aad_version { ed.push(ctor("EAv", vec![opt(doc.chunk_aad_version, |c| json!(c))])); }
    if doc.auth_nonce != h.auth_nonce { ed.push(ctor("EAn", vec![opt(doc.auth_nonce.as_ref(), |n| hexv(n.as_slice()))])); }
    if doc.auth_tag != h.auth_tag { ed.push(ctor("EAt", vec![opt(doc.auth_tag.as_ref(), |n| hexv(n.as_slice()))])); }
    if doc.generation != h.generation { ed.push(ctor("EGen", vec![ob(&doc.generation)])); }
    if doc.committed_at_ms != h.committed_at_ms { ed.push(ctor("EMs", vec![opt(doc.committed_at_ms, |c| json!(c))])); }
    let pl = match payload {
        None => ctor("PNone", vec![]),
        Some(b) => match sealed.iter().position(|s| &s.ct == b) {
            Some(i) => ctor("PRef", vec![json!(i)]),
            None => ctor("PLit", vec![hexv(b)]),
        },
    };
    ctor("TDoc", vec![json!(idx), Value::Array(ed), pl])
}

type Listing = Result<BTreeMap<String, (u64, Option<String>, i64)>, String>;
async fn do_list(store: &Store, variant: u8) -> Listing {
    let fut = async {
        let metas: Vec<object_store::ObjectMeta> = match variant {
            0 => store.list(None).try_collect().await.map_err(|e| err_kind(&e))?,
            1 => store.list_with_offset(None, &Path::from("")).try_collect().await.map_err(|e| err_kind(&e))?,
            _ => {
                // delimiter listing of the root and, recursively, of every common prefix
                let mut out = Vec::new();
                let mut todo: Vec<Option<Path>> = vec![None];
                while let Some(p) = todo.pop() {
                    let r = store.list_with_delimiter(p.as_ref()).await.map_err(|e| err_kind(&e))?;
                    out.extend(r.objects);
                    todo.extend(r.common_prefixes.into_iter().map(Some));
                }
                out
            }
        };
        Ok(metas.into_iter().map(|m| (m.location.to_string(), (m.size, m.e_tag, m.last_modified.timestamp_millis()))).collect())
    };
    match AssertUnwindSafe(fut).catch_unwind().await {
        Ok(r) => r,
        Err(_) => Err("panic".into()),
    }
}

// --------------------------------------------------------------------------------------- scenario
#[derive(Clone)]
struct HObj {
    loc: String,
    pt: Vec<u8>,
    how: &'static str,
}
/// every honestly sealed document ever observed (current and superseded), with its plaintext and
/// the ciphertext object it pointed to
#[derive(Clone)]
struct Sealed {
    loc: String,
    doc: MetaDoc,
    pt: Vec<u8>,
    ct: Vec<u8>,
}

struct Scenario {
    id: usize,
    cs: u64,
    base: Arc<InMemory>,
    objs: Vec<HObj>,
    sealed: Vec<Sealed>,
    /// inner objects that existed at some point but are gone from `base` (old generations, old docs)
    gone: Vec<(String, Vec<u8>)>,
    /// all (path, bytes) ever seen in the inner store
    ever: BTreeMap<(String, Vec<u8>), ()>,
}

async fn dump(inner: &InMemory) -> BTreeMap<String, Vec<u8>> {
    let metas: Vec<object_store::ObjectMeta> = inner.list(None).try_collect().await.unwrap();
    let mut out = BTreeMap::new();
    for m in metas {
        let b = inner.get(&m.location).await.unwrap().bytes().await.unwrap();
        out.insert(m.location.to_string(), b.to_vec());
    }
    out
}

fn gen_path(loc: &str, g: &str) -> String {
    format!("gen/{loc}/{g}")
}
fn payload_path_of(loc: &str, d: &MetaDoc) -> String {
    match &d.generation {
        Some(g) => Path::from("gen").parts().chain(Path::from(loc).parts()).chain(Path::from(g.as_str()).parts()).collect::<Path>().to_string(),
        None => format!("data/{loc}"),
    }
}

async fn build_scenario(id: usize, cs: u64, rng: &mut Rng, rich: bool) -> Scenario {
    let base = Arc::new(InMemory::new());
    let store = open_store(base.clone(), cs, false);
    let mut objs: Vec<HObj> = Vec::new();
    let mut sealed: Vec<Sealed> = Vec::new();
    let mut ever: BTreeMap<(String, Vec<u8>), ()> = BTreeMap::new();
    let fresh = |n: usize, rng: &mut Rng| -> Vec<u8> { (0..n).map(|_| rng.below(256) as u8).collect() };

    // helper run after every honest operation: record inner objects + sealed docs
    async fn observe(base: &InMemory, ever: &mut BTreeMap<(String, Vec<u8>), ()>, sealed: &mut Vec<Sealed>, cur: &[HObj]) {
        let d = dump(base).await;
        for (p, b) in &d {
            ever.insert((p.clone(), b.clone()), ());
        }
        for (p, b) in &d {
            if let Some(loc) = p.strip_prefix("meta/") {
                if let Some(doc) = decode_doc(b) {
                    if sealed.iter().any(|s| s.loc == loc && s.doc == doc) {
                        continue;
                    }
                    let pt = cur.iter().rev().find(|o| o.loc == loc).map(|o| o.pt.clone()).unwrap_or_default();
                    let ct = d.get(&payload_path_of(loc, &doc)).cloned().unwrap_or_default();
                    sealed.push(Sealed { loc: loc.to_string(), doc, pt, ct });
                }
            }
        }
    }

    let c = cs as usize;
    let mut plan: Vec<(&'static str, String, usize)> = vec![
        ("put", "e0".into(), 0),
        ("put", "k1".into(), 1),
        ("put", "k2".into(), c - 1),
        ("put", "d/k3".into(), c),
        ("put", "k4".into(), c + 1),
        ("mp", "d/k5".into(), 2 * c),
        ("mp", "k6".into(), 2 * c + 3),
    ];
    if rich {
        plan.push(("put", "k7".into(), 3 * c));
        plan.push(("mp", "d/e/k8".into(), 3 * c + 1));
        plan.push(("mp", "m0".into(), 0));
    }
    for (how, loc, n) in plan {
        let pt = fresh(n, rng);
        let p = Path::from(loc.as_str());
        if how == "put" {
            store.put(&p, PutPayload::from(pt.clone())).await.unwrap();
        } else {
            let mut up = store.put_multipart(&p).await.unwrap();
            // irregular part sizes
            let mut i = 0;
            while i < pt.len() {
                let k = (1 + rng.below(cs + 2) as usize).min(pt.len() - i);
                up.put_part(PutPayload::from(pt[i..i + k].to_vec())).await.unwrap();
                i += k;
            }
            up.complete().await.unwrap();
        }
        objs.push(HObj { loc, pt, how });
        observe(&base, &mut ever, &mut sealed, &objs).await;
    }
    // overwrite: two generations of one key
    let p = Path::from("ow");
    let v1 = fresh(c + 2, rng);
    store.put(&p, PutPayload::from(v1.clone())).await.unwrap();
    objs.push(HObj { loc: "ow".into(), pt: v1, how: "put-v1" });
    observe(&base, &mut ever, &mut sealed, &objs).await;
    let v2 = fresh(2 * c + 1, rng);
    store.put(&p, PutPayload::from(v2.clone())).await.unwrap();
    objs.retain(|o| o.loc != "ow");
    objs.push(HObj { loc: "ow".into(), pt: v2, how: "overwrite" });
    observe(&base, &mut ever, &mut sealed, &objs).await;
    // copy and rename
    let src = objs.iter().find(|o| o.loc == "k6").unwrap().clone();
    store.copy(&Path::from("k6"), &Path::from("cp")).await.unwrap();
    objs.push(HObj { loc: "cp".into(), pt: src.pt.clone(), how: "copy" });
    observe(&base, &mut ever, &mut sealed, &objs).await;
    let t = fresh(c + 3, rng);
    store.put(&Path::from("tmp"), PutPayload::from(t.clone())).await.unwrap();
    objs.push(HObj { loc: "tmp".into(), pt: t.clone(), how: "put" });
    observe(&base, &mut ever, &mut sealed, &objs).await;
    store.rename(&Path::from("tmp"), &Path::from("d/rn")).await.unwrap();
    objs.retain(|o| o.loc != "tmp");
    objs.push(HObj { loc: "d/rn".into(), pt: t, how: "rename" });
    observe(&base, &mut ever, &mut sealed, &objs).await;

    let now = dump(&base).await;
    let mut gone = Vec::new();
    for ((p, b), _) in &ever {
        if now.get(p) != Some(b) {
            gone.push((p.clone(), b.clone()));
        }
    }
    Scenario { id, cs, base, objs, sealed, gone, ever }
}

fn ops_for(n: u64, cs: u64, thorough: bool) -> Vec<Op> {
    let mut v = vec![Op::Get(None), Op::Head];
    let mut b: BTreeSet<(u64, u64)> = BTreeSet::new();
    if thorough && n <= 14 {
        for s in 0..=n {
            for e in s..=n + 1 {
                b.insert((s, e));
            }
        }
    } else {
        for (s, e) in [
            (0, 1), (0, n), (n.saturating_sub(1), n), (cs.saturating_sub(1), cs + 1), (1, n.saturating_sub(1)), (cs, n),
            (0, n + 5), (n, n + 1), (1, cs), (cs, 2 * cs), (cs + 1, 2 * cs + 1), (2, 2), (n / 2, n),
        ] {
            b.insert((s, e));
        }
    }
    for (s, e) in b {
        v.push(Op::Get(Some(Rg::Bounded(s, e))));
    }
    for o in [0, n / 2, n.saturating_sub(1), n] {
        v.push(Op::Get(Some(Rg::Offset(o))));
    }
    for k in [0, 1, cs + 1, n + 3] {
        v.push(Op::Get(Some(Rg::Suffix(k))));
    }
    if n > 0 {
        v.push(Op::Ranges(vec![(0, n)]));
        v.push(Op::Ranges(vec![(0, 1), (n - 1, n)]));
        if n > cs {
            v.push(Op::Ranges(vec![(1, 2), (2, 3), (cs, cs + 1), (0, 1)]));
            v.push(Op::Ranges(vec![(cs - 1, cs + 1), (n - 1, n), (0, cs)]));
        }
        v.push(Op::Ranges(vec![(0, n + 1)]));
    }
    v.push(Op::Ranges(vec![(0, 1)]));
    v.sort();
    v.dedup();
    v
}

// ---------------------------------------------------------------------------------------- tampers
#[derive(Clone, Debug)]
struct Tamper {
    class: &'static str,
    desc: String,
    /// full replacement set: path -> Some(bytes) (put) / None (delete)
    edits: Vec<(String, Option<Vec<u8>>)>,
    /// logical keys whose reads are exercised
    keys: Vec<String>,
}

fn key_of_inner(path: &str) -> Option<String> {
    if let Some(l) = path.strip_prefix("meta/") {
        return Some(l.to_string());
    }
    if let Some(l) = path.strip_prefix("gen/") {
        let (loc, _g) = l.rsplit_once('/')?;
        return Some(loc.to_string());
    }
    path.strip_prefix("data/").map(|l| l.to_string())
}

fn tampers(sc: &Scenario, cur: &BTreeMap<String, Vec<u8>>, thorough: bool, rng: &mut Rng) -> Vec<Tamper> {
    let mut out = Vec::new();
    let cs = sc.cs as usize;
    let keys_all: Vec<String> = sc.objs.iter().map(|o| o.loc.clone()).collect();
    out.push(Tamper { class: "identity", desc: "no tamper".into(), edits: vec![], keys: keys_all.clone() });
    for (p, b) in cur {
        let key = key_of_inner(p).unwrap();
        let ks = vec![key.clone()];
        // 1. every byte x every bit
        for i in 0..b.len() {
            for bit in 0..8 {
                let mut nb = b.clone();
                nb[i] ^= 1 << bit;
                out.push(Tamper { class: "bitflip", desc: format!("flip bit {bit} of byte {i} of {p}"), edits: vec![(p.clone(), Some(nb))], keys: ks.clone() });
            }
        }
        // 2. every truncation length
        for l in 0..b.len() {
            out.push(Tamper { class: "truncate", desc: format!("truncate {p} to {l} bytes"), edits: vec![(p.clone(), Some(b[..l].to_vec()))], keys: ks.clone() });
        }
        // 3. extensions
        for k in [1usize, cs - 1, cs, cs + 1, 2 * cs] {
            if k == 0 {
                continue;
            }
            for fill in 0..3 {
                let mut nb = b.clone();
                let ext: Vec<u8> = match fill {
                    0 => vec![0u8; k],
                    1 => (0..k).map(|_| rng.below(256) as u8).collect(),
                    _ => b.iter().cycle().take(k).cloned().collect(),
                };
                if fill == 2 && b.is_empty() {
                    continue;
                }
                nb.extend_from_slice(&ext);
                out.push(Tamper { class: "extend", desc: format!("append {k} bytes (fill {fill}) to {p}"), edits: vec![(p.clone(), Some(nb))], keys: ks.clone() });
            }
        }
        {
            let mut nb = vec![0u8];
            nb.extend_from_slice(b);
            out.push(Tamper { class: "extend", desc: format!("prepend 1 byte to {p}"), edits: vec![(p.clone(), Some(nb))], keys: ks.clone() });
            if b.len() > 1 {
                out.push(Tamper { class: "truncate", desc: format!("drop first byte of {p}"), edits: vec![(p.clone(), Some(b[1..].to_vec()))], keys: ks.clone() });
            }
        }
        // 4. chunk reorderings inside a payload object
        if p.starts_with("gen/") && b.len() > cs {
            let chunks: Vec<&[u8]> = b.chunks(cs).collect();
            for i in 0..chunks.len() {
                for j in 0..chunks.len() {
                    if i == j {
                        continue;
                    }
                    if i < j {
                        let mut c2 = chunks.clone();
                        c2.swap(i, j);
                        out.push(Tamper { class: "chunk-swap", desc: format!("swap chunks {i},{j} of {p}"), edits: vec![(p.clone(), Some(c2.concat()))], keys: ks.clone() });
                    }
                    let mut c3 = chunks.clone();
                    c3[j] = chunks[i];
                    out.push(Tamper { class: "chunk-dup", desc: format!("overwrite chunk {j} with chunk {i} of {p}"), edits: vec![(p.clone(), Some(c3.concat()))], keys: ks.clone() });
                }
                let mut c4 = chunks.clone();
                c4.remove(i);
                out.push(Tamper { class: "chunk-drop", desc: format!("remove chunk {i} of {p}"), edits: vec![(p.clone(), Some(c4.concat()))], keys: ks.clone() });
            }
            let mut r = b.clone();
            r.reverse();
            out.push(Tamper { class: "reorder", desc: format!("reverse bytes of {p}"), edits: vec![(p.clone(), Some(r))], keys: ks.clone() });
        }
        // 8. delete
        out.push(Tamper { class: "delete", desc: format!("delete {p}"), edits: vec![(p.clone(), None)], keys: ks.clone() });
    }
    // 5. pairwise swaps / one-way replacements of whole inner objects (between keys)
    let paths: Vec<&String> = cur.keys().collect();
    for (i, p) in paths.iter().enumerate() {
        for (j, q) in paths.iter().enumerate() {
            if i == j {
                continue;
            }
            let (kp, kq) = (key_of_inner(p).unwrap(), key_of_inner(q).unwrap());
            if i < j {
                out.push(Tamper {
                    class: "object-swap",
                    desc: format!("swap contents of {p} and {q}"),
                    edits: vec![((*p).clone(), Some(cur[*q].clone())), ((*q).clone(), Some(cur[*p].clone()))],
                    keys: vec![kp.clone(), kq.clone()],
                });
            }
            out.push(Tamper { class: "object-replace", desc: format!("overwrite {p} with contents of {q}"), edits: vec![((*p).clone(), Some(cur[*q].clone()))], keys: vec![kp.clone()] });
        }
    }
    // both objects of two keys exchanged (meta<->meta and payload<->payload at once)
    for (i, a) in sc.objs.iter().enumerate() {
        for b in sc.objs.iter().skip(i + 1) {
            let (ma, mb) = (format!("meta/{}", a.loc), format!("meta/{}", b.loc));
            let (Some(da), Some(db)) = (cur.get(&ma).and_then(|x| decode_doc(x)), cur.get(&mb).and_then(|x| decode_doc(x))) else { continue };
            let (pa, pb) = (payload_path_of(&a.loc, &da), payload_path_of(&b.loc, &db));
            // move b's document and payload under a's key, keeping b's generation name
            let gb = db.generation.clone().unwrap_or_default();
            out.push(Tamper {
                class: "key-exchange",
                desc: format!("serve {} from the objects of {} (document + payload under the same generation name)", a.loc, b.loc),
                edits: vec![(ma.clone(), Some(cur[&mb].clone())), (gen_path(&a.loc, &gb), Some(cur[&pb].clone()))],
                keys: vec![a.loc.clone()],
            });
            let _ = pa;
        }
    }
    // 6. generations: superseded documents / payloads of the same key
    for (p, b) in &sc.gone {
        let Some(key) = key_of_inner(p) else { continue };
        if !sc.objs.iter().any(|o| o.loc == key) {
            continue;
        }
        let ks = vec![key.clone()];
        if p.starts_with("meta/") {
            out.push(Tamper { class: "old-doc", desc: format!("restore superseded document {p} (payload of that generation stays deleted)"), edits: vec![(p.clone(), Some(b.clone()))], keys: ks.clone() });
            // old document but pointing at the current generation
            if let (Some(mut old), Some(curdoc)) = (decode_doc(b), cur.get(p).and_then(|x| decode_doc(x))) {
                old.generation = curdoc.generation.clone();
                out.push(Tamper { class: "repoint", desc: format!("superseded document of {key} re-pointed at the current generation"), edits: vec![(p.clone(), Some(encode_doc(&old)))], keys: ks.clone() });
            }
        }
        if p.starts_with("gen/") {
            // current document re-pointed at the old generation (object restored)
            let mp = format!("meta/{key}");
            if let Some(mut d) = cur.get(&mp).and_then(|x| decode_doc(x)) {
                let curp = payload_path_of(&key, &d);
                let g = p.rsplit_once('/').unwrap().1.to_string();
                d.generation = Some(g);
                out.push(Tamper { class: "repoint", desc: format!("document of {key} re-pointed at restored old generation {p}"), edits: vec![(p.clone(), Some(b.clone())), (mp.clone(), Some(encode_doc(&d)))], keys: ks.clone() });
                out.push(Tamper { class: "generation-swap", desc: format!("payload of current generation of {key} replaced by old generation's bytes"), edits: vec![(curp, Some(b.clone()))], keys: ks.clone() });
            }
        }
    }
    // 7. structural edits of each metadata document
    for o in &sc.objs {
        let mp = format!("meta/{}", o.loc);
        let Some(d) = cur.get(&mp).and_then(|x| decode_doc(x)) else { continue };
        let ks = vec![o.loc.clone()];
        let pp = payload_path_of(&o.loc, &d);
        let mut edit = |class: &'static str, desc: &str, nd: MetaDoc, extra: Vec<(String, Option<Vec<u8>>)>| {
            let mut edits = vec![(mp.clone(), Some(encode_doc(&nd)))];
            edits.extend(extra);
            out.push(Tamper { class, desc: format!("{desc} in document of {}", o.loc), edits, keys: ks.clone() });
        };
        // stripping authentication fields, all subsets of the optional fields that include an auth field
        for mask in 1u32..64 {
            // bit0 an, bit1 at, bit2 av, bit3 g, bit4 m, bit5 c
            if mask & 3 == 0 {
                continue;
            }
            let mut nd = d.clone();
            let mut names = vec![];
            if mask & 1 != 0 { nd.auth_nonce = None; names.push("an"); }
            if mask & 2 != 0 { nd.auth_tag = None; names.push("at"); }
            if mask & 4 != 0 { nd.chunk_aad_version = None; names.push("av"); }
            if mask & 8 != 0 { nd.generation = None; names.push("g"); }
            if mask & 16 != 0 { nd.committed_at_ms = None; names.push("m"); }
            if mask & 32 != 0 { nd.chunk_size = None; names.push("c"); }
            edit("strip", &format!("strip {}", names.join("+")), nd.clone(), vec![]);
            if nd.generation.is_none() {
                // also serve the ciphertext at the legacy location the stripped document points to
                if let Some(ct) = cur.get(&pp) {
                    edit("strip+legacy-payload", &format!("strip {} and copy ciphertext to data/", names.join("+")), nd, vec![(format!("data/{}", o.loc), Some(ct.clone()))]);
                }
            }
        }
        // seal stripped AND a field changed (only the downgrade rule stands between this and wrong bytes)
        for keep_av in [true, false] {
            let mut base = d.clone();
            base.auth_nonce = None;
            base.auth_tag = None;
            if !keep_av { base.chunk_aad_version = None; }
            let tag = if keep_av { "strip an+at" } else { "strip an+at+av" };
            if d.size > 0 { let mut nd = base.clone(); nd.size = d.size - 1; edit("strip+field", &format!("{tag}, size-1"), nd, vec![]); }
            if d.aes_tags.len() > 1 {
                let mut nd = base.clone(); nd.size = sc.cs; nd.aes_tags.truncate(1);
                edit("strip+field", &format!("{tag}, keep first chunk only"), nd, vec![]);
                let mut nd = base.clone(); nd.aes_nonce = ByteArray::new(my_nonce(&d.aes_nonce, 1)); nd.aes_tags.remove(0); nd.size = d.size - sc.cs;
                let ct = cur.get(&pp).cloned().unwrap_or_default();
                edit("strip+field", &format!("{tag}, nonce+1, first tag and first chunk dropped"), nd, vec![(pp.clone(), Some(ct[cs.min(ct.len())..].to_vec()))]);
            }
            let mut nd = base.clone(); nd.e_tag = Some("forged".into()); edit("strip+field", &format!("{tag}, e_tag"), nd, vec![]);
            let mut nd = base.clone(); nd.committed_at_ms = Some(1); edit("strip+field", &format!("{tag}, committed_at"), nd, vec![]);
        }
        // field edits
        let mut nd = d.clone(); nd.size = d.size + 1; edit("field", "size+1", nd, vec![]);
        if d.size > 0 { let mut nd = d.clone(); nd.size = d.size - 1; edit("field", "size-1", nd, vec![]); }
        let mut nd = d.clone(); nd.size = 0; edit("field", "size=0", nd, vec![]);
        let mut nd = d.clone(); nd.size = d.size.saturating_sub(sc.cs); edit("field", "size-chunk", nd, vec![]);
        let mut nd = d.clone(); nd.e_tag = Some("forged".into()); edit("field", "e_tag", nd, vec![]);
        let mut nd = d.clone(); nd.e_tag = None; edit("field", "e_tag=None", nd, vec![]);
        let mut nd = d.clone(); nd.original_tag = Some("x".into()); edit("field", "original_tag", nd, vec![]);
        let mut nd = d.clone(); nd.original_version = Some("x".into()); edit("field", "original_version", nd, vec![]);
        for delta in [1u64, u64::MAX] {
            let mut nd = d.clone();
            nd.aes_nonce = ByteArray::new(my_nonce(&d.aes_nonce, delta));
            edit("field", &format!("base nonce counter {:+}", delta as i64), nd.clone(), vec![]);
            if d.aes_tags.len() > 1 && delta == 1 {
                // shift: drop first tag and first chunk, so chunk i+1 is presented as chunk i
                nd.aes_tags.remove(0);
                nd.size = d.size - sc.cs;
                let ct = cur.get(&pp).cloned().unwrap_or_default();
                edit("shift", "nonce+1, first tag and first chunk dropped", nd, vec![(pp.clone(), Some(ct[cs.min(ct.len())..].to_vec()))]);
            }
        }
        if d.aes_tags.len() > 1 {
            let mut nd = d.clone(); nd.aes_tags.swap(0, 1); edit("field", "tags[0]<->tags[1]", nd, vec![]);
            let mut nd = d.clone(); nd.aes_tags.pop(); edit("field", "drop last tag", nd.clone(), vec![]);
            nd.size = (d.aes_tags.len() as u64 - 1) * sc.cs;
            edit("field", "drop last tag and shrink size to chunk boundary", nd.clone(), vec![]);
            let ct = cur.get(&pp).cloned().unwrap_or_default();
            edit("shift", "drop last tag, shrink size, truncate payload", nd.clone(), vec![(pp.clone(), Some(ct[..(nd.size as usize).min(ct.len())].to_vec()))]);
        }
        if !d.aes_tags.is_empty() {
            let mut nd = d.clone(); nd.aes_tags.push(d.aes_tags[0]); edit("field", "duplicate first tag at end", nd, vec![]);
            let mut nd = d.clone(); nd.aes_tags.clear(); edit("field", "no tags", nd, vec![]);
        }
        for c in [1u64, 2, sc.cs - 1, sc.cs + 1, sc.cs * 2, 0, u64::MAX] {
            let mut nd = d.clone(); nd.chunk_size = Some(c); edit("field", &format!("chunk_size={c}"), nd, vec![]);
        }
        for v in [0u8, 2, 255] {
            let mut nd = d.clone(); nd.chunk_aad_version = Some(v); edit("field", &format!("chunk_aad_version={v}"), nd, vec![]);
        }
        let mut nd = d.clone(); nd.generation = Some("0000000000000001-00000001".into()); edit("field", "generation", nd, vec![]);
        let mut nd = d.clone(); nd.committed_at_ms = Some(d.committed_at_ms.unwrap_or(0) + 86_400_000); edit("field", "committed_at+1d", nd, vec![]);
        let mut nd = d.clone(); nd.committed_at_ms = Some(0); edit("field", "committed_at=0", nd, vec![]);
        // auth fields / tags / nonce transplanted from every other document
        for other in &sc.sealed {
            if other.loc == o.loc && other.doc == d {
                continue;
            }
            let mut nd = d.clone(); nd.auth_nonce = other.doc.auth_nonce; nd.auth_tag = other.doc.auth_tag;
            edit("transplant", &format!("seal (an,at) taken from a document of {}", other.loc), nd, vec![]);
            let mut nd = other.doc.clone(); nd.generation = d.generation.clone();
            edit("transplant", &format!("whole document of {} re-pointed at this key's generation", other.loc), nd, vec![]);
            let mut nd = d.clone(); nd.aes_nonce = other.doc.aes_nonce; nd.aes_tags = other.doc.aes_tags.clone(); nd.size = other.doc.size;
            edit("transplant", &format!("nonce+tags+size taken from a document of {} with its ciphertext", other.loc), nd, vec![(pp.clone(), Some(other.ct.clone()))]);
        }
        // forged legacy documents (no key needed): empty object, and honest ciphertext under legacy AAD
        let legacy = MetaDoc { size: 0, e_tag: None, original_tag: None, original_version: None, aes_nonce: d.aes_nonce, aes_tags: vec![], chunk_size: None, chunk_aad_version: None, auth_nonce: None, auth_tag: None, generation: None, committed_at_ms: None };
        edit("forged-legacy", "replace by forged legacy document of size 0 (no payload placed)", legacy.clone(), vec![]);
    }
    if !thorough {
        // nothing dropped in quick: the enumeration is already small for these object sizes
    }
    out
}

/// does meta/<key> of this backend decode as an unauthenticated (legacy) document?
async fn legacy_doc(inner: &InMemory, key: &str) -> bool {
    match inner.get(&Path::from(format!("meta/{key}").as_str())).await {
        Ok(r) => match r.bytes().await {
            // exactly the documents the downgrade rule lets through: no seal, no chunk-AAD version, no generation
            Ok(b) => decode_doc(&b).map(|d| d.auth_nonce.is_none() && d.auth_tag.is_none() && d.chunk_aad_version.is_none() && d.generation.is_none()).unwrap_or(false),
            Err(_) => false,
        },
        Err(_) => false,
    }
}

async fn apply(base: &InMemory, t: &Tamper) -> Arc<InMemory> {
    let f = Arc::new(base.fork());
    for (p, e) in &t.edits {
        let path = Path::from(p.as_str());
        match e {
            Some(b) => {
                f.put(&path, PutPayload::from(b.clone())).await.unwrap();
            }
            None => {
                let _ = f.delete(&path).await;
            }
        }
    }
    f
}

// ------------------------------------------------------------------------- warm caches, two handles
/// Outcome counters of the cached-handle phase.
#[derive(Default)]
struct CachedStats {
    setups: u64,
    evaluations: u64,
    outcomes: BTreeMap<String, u64>,
    replays: u64,
    model_rows: u64,
}

/// A handle `R` with a *warm metadata cache* reads through a tampered backend.
///
/// mode 0 (stale): R cached the superseded version of `key`; the key was then overwritten through
/// another handle (the cached generation is gone), then the backend was tampered.  Every operation of
/// R first hits NotFound on the stale generation and re-resolves the document from the backend.
/// mode 1 (warm): R cached the current version, then the backend was tampered.
///
/// Operations through R: get / ranged get / get_ranges / head / list, and copy / rename as *read paths
/// of the source*: whatever a fresh handle then reads at the target must be bytes honestly committed
/// under the source key, or fail.
#[allow(clippy::too_many_arguments)]
async fn cached_phase(
    sc: &Scenario,
    cur: &BTreeMap<String, Vec<u8>>,
    ts: &[Tamper],
    key: &str,
    thorough: bool,
    per_stratum: u64,
    failures: &mut Fails,
    w: &mut impl Write,
) -> CachedStats {
    let mut st = CachedStats::default();
    let cs = sc.cs;
    let kp = Path::from(key);
    let cur_obj = sc.objs.iter().find(|o| o.loc == key).unwrap();
    // superseded version (document + payload) of the key, if any
    let old: Vec<(String, Vec<u8>)> = sc.gone.iter().filter(|(p, _)| key_of_inner(p).as_deref() == Some(key)).cloned().collect();
    let old_doc = old.iter().find(|(p, _)| p.starts_with("meta/")).and_then(|(_, b)| decode_doc(b));
    let old_pt: Option<Vec<u8>> = old_doc.as_ref().and_then(|d| sc.sealed.iter().find(|s| s.loc == key && &s.doc == d).map(|s| s.pt.clone()));
    let n = cur_obj.pt.len() as u64;
    let read_ops: Vec<Op> = vec![
        Op::Get(None),
        Op::Get(Some(Rg::Bounded(1, n.saturating_sub(1).max(2)))),
        Op::Get(Some(Rg::Bounded(0, cs))),
        Op::Ranges(vec![(0, 1), (n - 1, n)]),
        Op::Head,
    ];
    let versions: Vec<&Vec<u8>> = std::iter::once(&cur_obj.pt).chain(old_pt.iter()).collect();
    let slice_of = |pt: &Vec<u8>, op: &Op| -> Option<Vec<Vec<u8>>> {
        let len = pt.len() as u64;
        match op {
            Op::Get(None) => Some(vec![pt.clone()]),
            Op::Get(Some(Rg::Bounded(s, e))) => if *s < len && s < e { Some(vec![pt[*s as usize..(*e).min(len) as usize].to_vec()]) } else { None },
            Op::Ranges(rs) => rs.iter().map(|(s, e)| if s < e && *e <= len { Some(pt[*s as usize..*e as usize].to_vec()) } else { None }).collect(),
            _ => None,
        }
    };
    let mut strata: BTreeMap<(&'static str, &'static str, u8, bool, &'static str), u64> = BTreeMap::new();
    let modes: Vec<u8> = if old_doc.is_some() { vec![0, 1] } else { vec![1] };
    for t in ts.iter().filter(|t| t.keys.iter().any(|k| k == key)) {
        // backend after the tamper
        let mut s2 = cur.clone();
        for (p, e) in &t.edits {
            match e {
                Some(b) => { s2.insert(p.clone(), b.clone()); }
                None => { s2.remove(p); }
            }
        }
        let meta_side = t.edits.iter().any(|(p, _)| p.starts_with("meta/"));
        let src_doc = s2.get(&format!("meta/{key}")).and_then(|b| decode_doc(b));
        let src_legacy = src_doc.as_ref().map(|d| d.auth_nonce.is_none() && d.auth_tag.is_none() && d.chunk_aad_version.is_none() && d.generation.is_none()).unwrap_or(false);
        for &mode in &modes {
            // payload-side tampers under a warm (current) cache add nothing over the fresh-handle phase
            // beyond the cached document; keep a share of them
            if mode == 1 && !meta_side && !thorough && st.setups % 3 != 0 { st.setups += 1; continue; }
            for strict in [false, true] {
                if strict && !meta_side && !thorough { continue; }
                for opi in 0..(read_ops.len() + 3) {
                    // ---- set the stage: backend in its first state, R reads the key (cache warm)
                    let mut s1 = cur.clone();
                    if mode == 0 {
                        s1.retain(|p, _| key_of_inner(p).as_deref() != Some(key));
                        for (p, b) in &old { s1.insert(p.clone(), b.clone()); }
                    }
                    let b = Arc::new(InMemory::new());
                    for (p, v) in &s1 { b.put(&Path::from(p.as_str()), PutPayload::from(v.clone())).await.unwrap(); }
                    let r = open_store(b.clone(), cs, strict);
                    let warm = do_read(&r, &kp, &Op::Get(None)).await;
                    if warm.is_fail() {
                        failures.push(json!({"class": "honest-read", "what": format!("warming read of {key} failed (mode {mode})")}));
                    }
                    // ---- the other handle overwrote the key, then the backend was tampered
                    for p in s1.keys() { if !s2.contains_key(p) { let _ = b.delete(&Path::from(p.as_str())).await; } }
                    for (p, v) in &s2 { if s1.get(p) != Some(v) { b.put(&Path::from(p.as_str()), PutPayload::from(v.clone())).await.unwrap(); } }
                    st.setups += 1;
                    let mname = if mode == 0 { "stale-cache" } else { "warm-cache" };
                    let mut judge = |what: String, opname: &'static str, data: Option<&Vec<Vec<u8>>>, size: Option<u64>, expect: Option<Vec<Vec<Vec<u8>>>>, failures: &mut Fails, st: &mut CachedStats| {
                        // data: bytes returned (None for metadata reads); size: reported logical size
                        let mut class = "ok-original";
                        if let (Some(d), Some(exp)) = (data, &expect) {
                            match exp.iter().position(|x| x == d) {
                                Some(0) => {}
                                Some(_) => { class = "ok-older-version"; st.replays += 1; }
                                None => class = "DIFFERENT",
                            }
                        }
                        if let Some(sz) = size {
                            match versions.iter().position(|v| v.len() as u64 == sz) {
                                Some(0) => {}
                                Some(_) => { if class == "ok-original" { class = "ok-older-version"; st.replays += 1; } }
                                None => class = "DIFFERENT",
                            }
                        }
                        *st.outcomes.entry(format!("{mname}:{}:{opname}:{class}", t.class)).or_default() += 1;
                        if class == "DIFFERENT" {
                            let nonempty = data.map(|d| d.iter().any(|x| !x.is_empty())).unwrap_or(false);
                            let fclass = if !strict && src_legacy && !nonempty { "compat-legacy-downgrade" } else { "wrong-bytes" };
                            failures.push(json!({
                                "class": fclass, "what": format!("{mname} handle, {} ; {what} (strict={strict}) returned something other than bytes committed under the source key or an error", t.desc),
                                "tamper_class": t.class, "chunk_size": cs, "key": key, "mode": mname, "strict": strict,
                                "got_bytes": data.map(|d| d.iter().map(|x| hex(x)).collect::<Vec<_>>()), "got_size": size,
                                "committed_versions": versions.iter().map(|v| hex(v)).collect::<Vec<_>>(),
                                "edits": t.edits.iter().map(|(p, b)| json!({"path": p, "bytes": b.as_ref().map(|b| hex(b))})).collect::<Vec<_>>(),
                            }));
                        }
                        class
                    };
                    if opi < read_ops.len() {
                        let op = &read_ops[opi];
                        let got = do_read(&r, &kp, op).await;
                        st.evaluations += 1;
                        match &got {
                            Out::Err(_) | Out::Panic(_) => { *st.outcomes.entry(format!("{mname}:{}:read:err", t.class)).or_default() += 1; }
                            Out::Bytes { data, size, .. } => {
                                let exp: Vec<Vec<Vec<u8>>> = versions.iter().filter_map(|v| slice_of(v, op)).collect();
                                let sz = if matches!(op, Op::Get(_)) { Some(*size) } else { None };
                                judge(format!("read {} of {key}", op.name()), "read", Some(data), sz, Some(exp), failures, &mut st);
                            }
                            Out::Meta { size, .. } => { judge(format!("head of {key}"), "head", None, Some(*size), None, failures, &mut st); }
                        }
                    } else if opi == read_ops.len() {
                        // listing through the cached handle: the entry of the key
                        if let Ok(m) = do_list(&r, 0).await {
                            if let Some((sz, _, _)) = m.get(key) { judge(format!("list entry of {key}"), "list", None, Some(*sz), None, failures, &mut st); }
                        }
                        st.evaluations += 1;
                    } else {
                        // copy / rename through the cached handle, then read the target through a fresh handle
                        let rename = opi == read_ops.len() + 2;
                        let opname: &'static str = if rename { "rename" } else { "copy" };
                        let tgt = Path::from("zz/target");
                        let res = match AssertUnwindSafe(async { if rename { r.rename(&kp, &tgt).await } else { r.copy(&kp, &tgt).await } }).catch_unwind().await {
                            Ok(x) => x.map_err(|e| err_kind(&e)),
                            Err(_) => Err("panic".into()),
                        };
                        st.evaluations += 1;
                        let f = open_store(b.clone(), cs, strict);
                        let got = do_read(&f, &tgt, &Op::Get(None)).await;
                        let hd = do_read(&f, &tgt, &Op::Head).await;
                        let via_r = do_read(&r, &tgt, &Op::Get(None)).await;
                        let ls = do_list(&f, 0).await;
                        st.evaluations += 4;
                        let mut class = "err";
                        for (g, how) in [(&got, "get of the target through a fresh handle"), (&via_r, "get of the target through the same handle")] {
                            if let Out::Bytes { data, size, .. } = g {
                                class = judge(format!("{opname} {key} -> zz/target, then {how}"), opname, Some(data), Some(*size), Some(versions.iter().map(|v| vec![(*v).clone()]).collect()), failures, &mut st);
                            }
                        }
                        if let Out::Meta { size, .. } = &hd { judge(format!("{opname} {key} -> zz/target, then head of the target"), opname, None, Some(*size), None, failures, &mut st); }
                        if let Ok(m) = &ls { if let Some((sz, _, _)) = m.get("zz/target") { judge(format!("{opname} {key} -> zz/target, then list entry of the target"), opname, None, Some(*sz), None, failures, &mut st); } }
                        if res.is_err() && !got.is_fail() {
                            failures.push(json!({"class": "wrong-bytes", "what": format!("{mname} handle, {} ; {opname} failed but the target is readable", t.desc)}));
                        }
                        if got.is_fail() { *st.outcomes.entry(format!("{mname}:{}:{opname}:err", t.class)).or_default() += 1; }
                        // model row: (cached document, backend document) -> what the target reads as
                        let seen = strata.entry((t.class, class, mode, strict, opname)).or_insert(0);
                        *seen += 1;
                        if *seen <= per_stratum || class == "DIFFERENT" {
                            let tdoc = |d: Option<&MetaDoc>, present: bool| -> Value {
                                match d {
                                    Some(doc) => doc_term(&sc.sealed, key, doc, s2.get(&payload_path_of(key, doc))),
                                    None => if present { ctor("TUndecodable", vec![]) } else { ctor("TAbsent", vec![]) },
                                }
                            };
                            let cached = if mode == 0 { tdoc(old_doc.as_ref(), true) } else { tdoc(cur.get(&format!("meta/{key}")).and_then(|b| decode_doc(b)).as_ref(), true) };
                            let backend = tdoc(src_doc.as_ref(), s2.contains_key(&format!("meta/{key}")));
                            let obs = match &got { Out::Bytes { data, .. } => ctor("OBytes", vec![Value::Array(data.iter().map(|d| hexv(d)).collect()), json!(0), ctor("ENone", vec![]), json!(0)]), _ => ctor("OErr", vec![]) };
                            let case = tup(vec![json!(strict), json!({"raw": format!("honest_{}", sc.id)}), json!(cs), hexv(key.as_bytes()), cached, backend]);
                            writeln!(w, "{}", json!({"kind": "copy", "case": case, "obs": obs, "tamper": t.desc, "tclass": t.class, "oclass": class, "mode": mname, "op": opname})).unwrap();
                            st.model_rows += 1;
                        }
                    }
                }
            }
        }
    }
    st
}

fn main() {
    let args: Vec<String> = std::env::args().collect();
    let out_path = arg_value(&args, "--out").expect("--out");
    let thorough = std::env::var("VERIF_TIER").map(|t| t == "thorough").unwrap_or(false);
    let model_every: u64 = arg_value(&args, "--model-every").and_then(|s| s.parse().ok()).unwrap_or(997);
    let chunk_sizes: Vec<u64> = arg_value(&args, "--chunk-sizes").map(|s| s.split(',').filter_map(|x| x.parse().ok()).collect()).unwrap_or(vec![4]);
    let rt = tokio::runtime::Builder::new_current_thread().enable_all().build().unwrap();
    std::panic::set_hook(Box::new(|_| {}));
    rt.block_on(run(out_path, thorough, model_every, chunk_sizes));
}

async fn run(out_path: String, thorough: bool, model_every: u64, chunk_sizes: Vec<u64>) {
    let mut rng = Rng::from_env();
    let mut w = std::io::BufWriter::new(std::fs::File::create(&out_path).unwrap());
    let mut failures = Fails { list: Vec::new(), counts: BTreeMap::new() };
    let mut evaluations = 0u64;
    let mut by_class: BTreeMap<String, u64> = BTreeMap::new();
    let mut outcome_counts: BTreeMap<String, u64> = BTreeMap::new();
    let mut panics = 0u64;
    let mut panic_samples: Vec<Value> = Vec::new();
    let mut tamper_count = 0u64;
    let mut sizes: BTreeSet<u64> = BTreeSet::new();
    let mut plaintext_windows = 0u64;
    let mut nonce_count = 0u64;
    let mut seal_checks = 0u64;
    let mut model_cases = 0u64;
    let mut limits: Vec<Value> = Vec::new();
    let mut replays = 0u64;
    let mut cached_setups = 0u64;
    let mut cached_outcomes: BTreeMap<String, u64> = BTreeMap::new();
    let mut strata: BTreeMap<(&'static str, &'static str, &'static str, bool), u64> = BTreeMap::new();
    let per_stratum: u64 = arg_value(&std::env::args().collect::<Vec<_>>(), "--per-stratum").and_then(|s| s.parse().ok()).unwrap_or(if thorough { 24 } else { 4 });
    let c = cipher();

    for (sid, cs) in chunk_sizes.iter().enumerate() {
        let sc = build_scenario(sid, *cs, &mut rng, thorough || sid == 0).await;
        let cur = dump(&sc.base).await;
        // ---------------- honest-state oracles
        // (a) independent AES-GCM: every sealed document and every chunk verifies under the
        //     harness's own transcription of AAD and nonce derivation
        let mut honest_terms = Vec::new();
        let mut aad_rows: Vec<Value> = Vec::new();
        for s in &sc.sealed {
            let aad = my_meta_aad(&s.loc, &s.doc);
            let (Some(an), Some(at)) = (s.doc.auth_nonce.as_ref(), s.doc.auth_tag.as_ref()) else {
                failures.push(json!({"class": "unsealed-document", "what": format!("honest write left an unsealed document at {}", s.loc)}));
                continue;
            };
            seal_checks += 1;
            if gcm_open(&c, **an, &aad, &[], **at).is_none() {
                failures.push(json!({"class": "aad-transcription", "what": format!("metadata seal of {} does not verify under the transcribed AAD layout", s.loc), "doc": format!("{:?}", s.doc)}));
            }
            let csz = s.doc.chunk_size.unwrap_or(sc.cs);
            let mut dec = Vec::new();
            for (i, ch) in s.ct.chunks(csz as usize).enumerate() {
                seal_checks += 1;
                let n = my_nonce(&s.doc.aes_nonce, i as u64);
                match s.doc.aes_tags.get(i).and_then(|t| gcm_open(&c, n, &my_chunk_aad(csz, i as u64), ch, **t)) {
                    Some(p) => dec.extend_from_slice(&p),
                    None => failures.push(json!({"class": "chunk-transcription", "what": format!("chunk {i} of {} does not verify under transcribed nonce/AAD", s.loc)})),
                }
            }
            if dec != s.pt {
                failures.push(json!({"class": "chunk-transcription", "what": format!("independent decryption of {} differs from the plaintext written", s.loc)}));
            }
            if s.doc.aes_tags.len() as u64 != (s.pt.len() as u64).div_ceil(csz) || s.doc.size != s.pt.len() as u64 {
                failures.push(json!({"class": "chunk-transcription", "what": format!("tag count/size of {} inconsistent", s.loc)}));
            }
            let ht = tup(vec![hexv(s.loc.as_bytes()), meta_term(&s.doc), hexv(&s.pt), hexv(&s.ct)]);
            aad_rows.push(json!({"kind": "aad", "case": tup(vec![ht.clone(), hexv(&aad)])}));
            honest_terms.push(ht);
        }
        writeln!(w, "{}", json!({"kind": "honest", "scenario": sc.id, "term": Value::Array(honest_terms)})).unwrap();
        for r in &aad_rows {
            writeln!(w, "{}", r).unwrap();
        }
        // (b) nonce set: (nonce -> set of (aad, tag)) must be a function
        let mut nonces: BTreeMap<[u8; 12], BTreeSet<(Vec<u8>, [u8; 16])>> = BTreeMap::new();
        for s in &sc.sealed {
            let csz = s.doc.chunk_size.unwrap_or(sc.cs);
            for (i, t) in s.doc.aes_tags.iter().enumerate() {
                nonces.entry(my_nonce(&s.doc.aes_nonce, i as u64)).or_default().insert((my_chunk_aad(csz, i as u64), **t));
                writeln!(w, "{}", json!({"kind": "nonce", "case": tup(vec![hexv(s.doc.aes_nonce.as_slice()), json!(i), hexv(&my_nonce(&s.doc.aes_nonce, i as u64)), json!(csz), hexv(&my_chunk_aad(csz, i as u64))])})).unwrap();
            }
            if let (Some(an), Some(at)) = (s.doc.auth_nonce.as_ref(), s.doc.auth_tag.as_ref()) {
                nonces.entry(**an).or_default().insert((my_meta_aad(&s.loc, &s.doc), **at));
            }
        }
        nonce_count += nonces.len() as u64;
        for (n, uses) in &nonces {
            if uses.len() > 1 {
                failures.push(json!({"class": "nonce-reuse", "what": format!("nonce {} used for {} different sealed messages", hex(n), uses.len())}));
            }
        }
        // (c) plaintext windows in anything ever written to the backend (object bytes and paths)
        for o in sc.sealed.iter() {
            if o.pt.len() < 6 {
                continue;
            }
            let wlen = o.pt.len().min(8);
            for win in o.pt.windows(wlen) {
                plaintext_windows += 1;
                for ((p, b), _) in &sc.ever {
                    if b.windows(wlen).any(|x| x == win) || p.as_bytes().windows(wlen).any(|x| x == win) {
                        failures.push(json!({"class": "plaintext-at-rest", "what": format!("{wlen}-byte plaintext window of {} found in inner object {p}", o.loc), "window": hex(win)}));
                    }
                }
            }
        }
        // (d) wrap-around probe: an object sealed by the harness whose counter wraps past 2^64
        {
            let inner = Arc::new(sc.base.fork());
            let mut base = [0x5au8; 12];
            base[4..12].copy_from_slice(&(u64::MAX - 1).to_le_bytes());
            let pt: Vec<u8> = (0..(4 * sc.cs + 1)).map(|_| rng.below(256) as u8).collect();
            let mut ct = Vec::new();
            let mut tags = Vec::new();
            for (i, ch) in pt.chunks(sc.cs as usize).enumerate() {
                let (cc, t) = gcm_seal(&c, my_nonce(&base, i as u64), &my_chunk_aad(sc.cs, i as u64), ch);
                ct.extend_from_slice(&cc);
                tags.push(ByteArray::new(t));
                writeln!(w, "{}", json!({"kind": "nonce", "case": tup(vec![hexv(&base), json!(i), hexv(&my_nonce(&base, i as u64)), json!(sc.cs), hexv(&my_chunk_aad(sc.cs, i as u64))])})).unwrap();
            }
            let g = "00000000000000aa-000000bb".to_string();
            let mut d = MetaDoc { size: pt.len() as u64, e_tag: Some("w".into()), original_tag: None, original_version: None, aes_nonce: ByteArray::new(base), aes_tags: tags, chunk_size: Some(sc.cs), chunk_aad_version: Some(1), auth_nonce: None, auth_tag: None, generation: Some(g.clone()), committed_at_ms: Some(1_700_000_000_000) };
            let an = [0x77u8; 12];
            let (_, at) = gcm_seal(&c, an, &my_meta_aad("wrap", &d), &[]);
            d.auth_nonce = Some(ByteArray::new(an));
            d.auth_tag = Some(ByteArray::new(at));
            inner.put(&Path::from("meta/wrap"), PutPayload::from(encode_doc(&d))).await.unwrap();
            inner.put(&Path::from(gen_path("wrap", &g).as_str()), PutPayload::from(ct)).await.unwrap();
            let st = open_store(inner, sc.cs, true);
            let got = do_read(&st, &Path::from("wrap"), &Op::Get(None)).await;
            evaluations += 1;
            match &got {
                Out::Bytes { data, .. } if data[0] == pt => {}
                other => failures.push(json!({"class": "nonce-wrap", "what": "object whose chunk counter wraps past 2^64 (sealed independently) is not read back", "got": other.short()})),
            }
        }

        // ---------------- honest outcomes
        let mut ops: BTreeMap<String, Vec<Op>> = BTreeMap::new();
        let mut honest_out: BTreeMap<(bool, String, Op), Out> = BTreeMap::new();
        let mut honest_list: BTreeMap<String, (u64, Option<String>, i64)> = BTreeMap::new();
        for strict in [false, true] {
            let st = open_store(Arc::new(sc.base.fork()), sc.cs, strict);
            for o in &sc.objs {
                sizes.insert(o.pt.len() as u64);
                let v = ops_for(o.pt.len() as u64, sc.cs, thorough);
                for op in &v {
                    let r = do_read(&st, &Path::from(o.loc.as_str()), op).await;
                    evaluations += 1;
                    // the honest store itself must return the written bytes
                    if let (Out::Bytes { data, .. }, Op::Get(None)) = (&r, op) {
                        if data[0] != o.pt {
                            failures.push(json!({"class": "honest-read", "what": format!("untampered read of {} ({}) differs from what was written", o.loc, o.how)}));
                        }
                    }
                    if let (Out::Bytes { data, .. }, Op::Ranges(rs)) = (&r, op) {
                        for (d, (s, e)) in data.iter().zip(rs) {
                            if d[..] != o.pt[*s as usize..*e as usize] {
                                failures.push(json!({"class": "honest-read", "what": format!("untampered get_ranges of {} differs from the written slice", o.loc)}));
                            }
                        }
                    }
                    if let (Out::Bytes { data, .. }, Op::Get(Some(Rg::Bounded(s, e)))) = (&r, op) {
                        let e2 = (*e).min(o.pt.len() as u64);
                        if data[0][..] != o.pt[*s as usize..e2 as usize] {
                            failures.push(json!({"class": "honest-read", "what": format!("untampered ranged read {s}..{e} of {} differs from the written slice", o.loc)}));
                        }
                    }
                    honest_out.insert((strict, o.loc.clone(), op.clone()), r);
                }
                ops.insert(o.loc.clone(), v);
            }
            for variant in 0..3 {
                match do_list(&st, variant).await {
                    Ok(l) => {
                        if l.len() != sc.objs.len() {
                            failures.push(json!({"class": "honest-read", "what": format!("untampered listing variant {variant} has {} entries, expected {}", l.len(), sc.objs.len())}));
                        }
                        if variant == 0 {
                            honest_list = l;
                        } else if l != honest_list {
                            failures.push(json!({"class": "honest-read", "what": format!("untampered listing variants disagree ({variant})")}));
                        }
                    }
                    Err(e) => failures.push(json!({"class": "honest-read", "what": format!("untampered listing failed: {e}")})),
                }
            }
        }
        // head and list agree with each other on the honest state
        for o in &sc.objs {
            if let Some(Out::Meta { size, etag, lm }) = honest_out.get(&(false, o.loc.clone(), Op::Head)) {
                if honest_list.get(&o.loc) != Some(&(*size, etag.clone(), *lm)) {
                    failures.push(json!({"class": "honest-read", "what": format!("head and list disagree for {}", o.loc)}));
                }
            }
        }

        // ---------------- tamper enumeration
        let ts = tampers(&sc, &cur, thorough, &mut rng);
        let mut counter = 0u64;
        for t in &ts {
            tamper_count += 1;
            *by_class.entry(t.class.to_string()).or_default() += 1;
            let tampered = apply(&sc.base, t).await;
            let tdump = if t.class == "identity" || counter % 7 == 0 { Some(dump(&tampered).await) } else { None };
            for strict in [false, true] {
                // strict mode only adds rejections; exercise it on every metadata-side tamper and a share of the rest
                let meta_side = t.edits.iter().any(|(p, _)| p.starts_with("meta/"));
                if strict && !meta_side && !thorough && counter % 4 != 0 {
                    continue;
                }
                let st = open_store(tampered.clone(), sc.cs, strict);
                for key in &t.keys {
                    let Some(kops) = ops.get(key) else { continue };
                    let loc = Path::from(key.as_str());
                    for op in kops {
                        let got = do_read(&st, &loc, op).await;
                        evaluations += 1;
                        counter += 1;
                        let want = &honest_out[&(strict, key.clone(), op.clone())];
                        let class = if let Out::Panic(m) = &got {
                            panics += 1;
                            if panic_samples.len() < 3 {
                                panic_samples.push(json!({"tamper": t.desc, "op": op.name(), "panic": m}));
                            }
                            "panic"
                        } else if got.is_fail() {
                            "err"
                        } else if same_outcome(&got, want) {
                            "ok-original"
                        } else {
                            "DIFFERENT"
                        };
                        *outcome_counts.entry(format!("{}:{}", t.class, class)).or_default() += 1;
                        if class == "DIFFERENT" {
                            // compatibility mode accepts unauthenticated ("legacy") documents by design; a
                            // tamper that leaves such a document is reported under its own class
                            // (a legacy document can never yield non-empty bytes: no honest seal uses the empty AAD)
                            let nonempty = matches!(&got, Out::Bytes { data, .. } if data.iter().any(|d| !d.is_empty()));
                            let fclass = if !strict && !nonempty && legacy_doc(&tampered, key).await { "compat-legacy-downgrade" } else { "wrong-bytes" };
                            failures.push(json!({
                                "class": fclass, "what": format!("{} ; read {} of {} (strict={strict}) returned something other than the original or an error", t.desc, op.name(), key),
                                "tamper_class": t.class, "chunk_size": sc.cs, "key": key, "op": op.name(), "strict": strict,
                                "expected": want.short(), "got": got.short(),
                                "edits": t.edits.iter().map(|(p, b)| json!({"path": p, "bytes": b.as_ref().map(|b| hex(b))})).collect::<Vec<_>>(),
                                "plaintext": sc.objs.iter().find(|o| &o.loc == key).map(|o| hex(&o.pt)),
                            }));
                        }
                        // model case (sampled; always for the identity tamper and for non-error outcomes of real tampers)
                        let opkind = match op { Op::Get(None) => "get", Op::Get(Some(_)) => "range", Op::Ranges(_) => "ranges", Op::Head => "head" };
                        let seen = strata.entry((t.class, class, opkind, strict)).or_insert(0u64);
                        *seen += 1;
                        let pick = *seen <= per_stratum || *seen % model_every == 0 || class == "DIFFERENT";
                        if pick && t.keys.len() == 1 || (t.class == "identity" && !strict) {
                            let d = match &tdump { Some(d) => d.clone(), None => dump(&tampered).await };
                            let tm = match d.get(&format!("meta/{key}")) {
                                None => ctor("TAbsent", vec![]),
                                Some(b) => match decode_doc(b) {
                                    None => ctor("TUndecodable", vec![]),
                                    Some(doc) => {
                                        let pl = d.get(&payload_path_of(key, &doc));
                                        doc_term(&sc.sealed, key, &doc, pl)
                                    }
                                },
                            };
                            let case = tup(vec![json!(strict), json!({"raw": format!("honest_{}", sc.id)}), json!(sc.cs), hexv(key.as_bytes()), tm, op.term()]);
                            writeln!(w, "{}", json!({"kind": "model", "case": case, "obs": got.term(&sc.sealed), "tamper": t.desc, "tclass": t.class, "oclass": class})).unwrap();
                            model_cases += 1;
                        }
                    }
                }
                // listings: every returned entry must be an honest entry
                for variant in 0..3u8 {
                    if variant > 0 && !(meta_side || thorough) {
                        continue;
                    }
                    let l = do_list(&st, variant).await;
                    evaluations += 1;
                    match &l {
                        Err(_) => *outcome_counts.entry(format!("{}:list-err", t.class)).or_default() += 1,
                        Ok(m) => {
                            *outcome_counts.entry(format!("{}:list-ok", t.class)).or_default() += 1;
                            for (loc, e) in m {
                                if honest_list.get(loc) != Some(e) {
                                    // a superseded honest document of the same key (replay of an older
                                    // version) is outside what an AEAD can detect: counted, not judged
                                    if sc.sealed.iter().any(|s| &s.loc == loc && (s.doc.size, s.doc.e_tag.clone(), s.doc.committed_at_ms.unwrap_or(0) as i64) == *e) {
                                        replays += 1;
                                        continue;
                                    }
                                    let fclass = if !strict && legacy_doc(&tampered, loc).await { "compat-legacy-downgrade" } else { "wrong-listing" };
                                    failures.push(json!({"class": fclass, "what": format!("{} ; listing variant {variant} (strict={strict}) reports {loc} as {:?}, honest entry is {:?}", t.desc, e, honest_list.get(loc)),
                                        "tamper_class": t.class, "strict": strict,
                                        "edits": t.edits.iter().map(|(p, b)| json!({"path": p, "bytes": b.as_ref().map(|b| hex(b))})).collect::<Vec<_>>()}));
                                }
                            }
                        }
                    }
                    let lclass = match &l { Err(_) => "err", Ok(m) => if t.keys.len() == 1 && m.contains_key(&t.keys[0]) { "ok" } else { "skipped" } };
                    let seen = strata.entry((t.class, lclass, "list", strict)).or_insert(0u64);
                    *seen += 1;
                    if variant == 0 && t.keys.len() == 1 && (*seen <= per_stratum || *seen % model_every == 0) {
                        let key = &t.keys[0];
                        let d = dump(&tampered).await;
                        let tm = match d.get(&format!("meta/{key}")) {
                            None => ctor("TAbsent", vec![]),
                            Some(b) => match decode_doc(b) {
                                None => ctor("TUndecodable", vec![]),
                                Some(doc) => doc_term(&sc.sealed, key, &doc, None),
                            },
                        };
                        let obs = match &l {
                            Err(_) => ctor("OErr", vec![]),
                            Ok(m) => match m.get(key) {
                                None => ctor("OSkipped", vec![]),
                                Some((s, e, lm)) => ctor("OMeta", vec![json!(s), etag_ref(&sc.sealed, e.as_deref()), json!(lm)]),
                            },
                        };
                        let case = tup(vec![json!(strict), json!({"raw": format!("honest_{}", sc.id)}), json!(sc.cs), hexv(key.as_bytes()), tm, ctor("OListEntry", vec![])]);
                        writeln!(w, "{}", json!({"kind": "model", "case": case, "obs": obs, "tamper": t.desc, "tclass": t.class, "oclass": "list"})).unwrap();
                        model_cases += 1;
                    }
                }
            }
        }

        // ---------------- handles with warm / stale metadata caches, copy and rename as read paths
        if sid == 0 || thorough {
            for key in ["ow", "k6"] {
                let cst = cached_phase(&sc, &cur, &ts, key, thorough, per_stratum, &mut failures, &mut w).await;
                evaluations += cst.evaluations;
                cached_setups += cst.setups;
                replays += cst.replays;
                model_cases += cst.model_rows;
                for (k, v) in cst.outcomes { *cached_outcomes.entry(k).or_default() += v; }
            }
        }

        // ---------------- documented limits, measured (not violations): compat-mode forged legacy
        // document of size 0 with an object placed at data/<key>; complete replay of an older version
        if sid == 0 {
            let key = "k4";
            let inner = Arc::new(sc.base.fork());
            let d = decode_doc(&cur[&format!("meta/{key}")]).unwrap();
            let legacy = MetaDoc { size: 0, e_tag: None, original_tag: None, original_version: None, aes_nonce: d.aes_nonce, aes_tags: vec![], chunk_size: None, chunk_aad_version: None, auth_nonce: None, auth_tag: None, generation: None, committed_at_ms: None };
            inner.put(&Path::from(format!("meta/{key}").as_str()), PutPayload::from(encode_doc(&legacy))).await.unwrap();
            inner.put(&Path::from(format!("data/{key}").as_str()), PutPayload::from(Bytes::from_static(b"x"))).await.unwrap();
            for strict in [false, true] {
                let st = open_store(inner.clone(), sc.cs, strict);
                let got = do_read(&st, &Path::from(key), &Op::Get(None)).await;
                let l = do_list(&st, 0).await;
                limits.push(json!({"limit": "forged-legacy-empty (two sites: document replaced by unauthenticated legacy document of size 0, object placed at data/<key>)", "strict": strict, "get": got.short(), "list_entry": l.ok().and_then(|m| m.get(key).map(|e| json!(e)))}));
                evaluations += 2;
            }
            // full replay of the superseded version of `ow` (document + payload)
            let inner = Arc::new(sc.base.fork());
            for (p, b) in &sc.gone {
                if p == "meta/ow" || p.starts_with("gen/ow/") {
                    inner.put(&Path::from(p.as_str()), PutPayload::from(b.clone())).await.unwrap();
                }
            }
            let st = open_store(inner, sc.cs, true);
            let got = do_read(&st, &Path::from("ow"), &Op::Get(None)).await;
            evaluations += 1;
            limits.push(json!({"limit": "complete replay of the superseded version of a key (document and payload)", "strict": true, "get": got.short()}));
        }
    }

    let oracle_failures = failures.len();
    writeln!(
        w,
        "{}",
        json!({"kind": "summary", "evaluations": evaluations, "tampers": tamper_count, "tamper_classes": by_class, "outcomes": outcome_counts,
               "panics": panics, "panic_samples": panic_samples, "object_sizes": sizes.iter().collect::<Vec<_>>(), "chunk_sizes": chunk_sizes,
               "plaintext_windows": plaintext_windows, "distinct_nonces": nonce_count, "seal_checks": seal_checks, "model_cases": model_cases,
               "limits": limits, "older_version_replays_in_listing": replays, "cached_handle_setups": cached_setups, "cached_handle_outcomes": cached_outcomes, "oracle_failures": oracle_failures, "failure_counts": failures.counts, "failures": failures.list})
    )
    .unwrap();
    w.flush().unwrap();
}
