mod c07;
mod c08;
mod common;

fn main() {
    let args: Vec<String> = std::env::args().collect();
    match args.get(1).map(|s| s.as_str()) {
        Some("c08") => c08::main(&args[2..]),
        Some("c07") => c07::main(&args[2..]),
        _ => {
            eprintln!("usage: h_store <c07|c08> --out FILE ...");
            std::process::exit(2);
        }
    }
}
