//! Shared pieces of the object-store harness (C07, C08): the recording backend layer, the wrapper
//! handle, backend dumps and the canonicaliser that turns backend states / mutation logs into Coq terms
//! of coq/Store/Model.v.
use anda_object_store::{
    EncryptedStore, EncryptedStoreBuilder, FaultHandle, FaultStore, MetaStore, MetaStoreBuilder,
};
use async_trait::async_trait;
use base64::{Engine, prelude::BASE64_URL_SAFE};
use bytes::Bytes;
use futures::{StreamExt, TryStreamExt, stream::BoxStream};
use h_common::{ctor, some, tup};
use object_store::{memory::InMemory, path::Path, *};
use serde::Deserialize;
use serde_json::{Value, json};
use sha3::Digest;
use std::collections::{BTreeMap, HashMap};
use std::ops::Range;
use std::sync::{Arc, Mutex};

pub const SECRET: [u8; 32] = [7u8; 32];

// ------------------------------------------------------------------------------------- recording layer
#[derive(Clone, Debug)]
pub enum Mut {
    Put { path: String, data: Bytes },
    Del { path: String },
    Copy { src: String, dst: String },
    MpInit { path: String },
    MpComplete { path: String, data: Bytes },
}

#[derive(Clone, Debug)]
pub struct GetRec {
    pub path: String,
    pub range: Option<(u64, u64)>, // Bounded only (what the wrappers send)
    pub other_range: bool,
    pub head: bool,
}

/// Parks the next `park` backend puts whose path starts with `prefix` until released: the scheduler
/// of the GC-race scenarios (a writer is held right before its pointer switch).
#[derive(Debug)]
pub struct Gate {
    pub prefix: String,
    pub park: std::sync::atomic::AtomicUsize,
    pub entered: tokio::sync::Semaphore,
    pub release: tokio::sync::Semaphore,
}

impl Gate {
    pub fn new(prefix: &str, park: usize) -> Arc<Gate> {
        Arc::new(Gate { prefix: prefix.to_string(), park: std::sync::atomic::AtomicUsize::new(park),
            entered: tokio::sync::Semaphore::new(0), release: tokio::sync::Semaphore::new(0) })
    }
    async fn check(&self, path: &str) {
        use std::sync::atomic::Ordering;
        if !path.starts_with(&self.prefix) {
            return;
        }
        let mut cur = self.park.load(Ordering::SeqCst);
        loop {
            if cur == 0 {
                return;
            }
            match self.park.compare_exchange(cur, cur - 1, Ordering::SeqCst, Ordering::SeqCst) {
                Ok(_) => break,
                Err(x) => cur = x,
            }
        }
        self.entered.add_permits(1);
        self.release.acquire().await.unwrap().forget();
    }
}

#[derive(Default, Debug)]
pub struct RecState {
    pub muts: Mutex<Vec<Mut>>,
    pub gets: Mutex<Vec<GetRec>>,
    pub gate: Mutex<Option<Arc<Gate>>>,
    pub sched: Mutex<Option<Arc<Sched>>>,
}

impl RecState {
    pub fn take_muts(&self) -> Vec<Mut> {
        std::mem::take(&mut *self.muts.lock().unwrap())
    }
    pub fn take_gets(&self) -> Vec<GetRec> {
        std::mem::take(&mut *self.gets.lock().unwrap())
    }
}

/// Records every backend mutation that succeeded (with its bytes) and every read request.
#[derive(Debug, Clone)]
pub struct Rec {
    pub inner: Arc<dyn ObjectStore>,
    pub st: Arc<RecState>,
}

impl std::fmt::Display for Rec {
    fn fmt(&self, f: &mut std::fmt::Formatter<'_>) -> std::fmt::Result {
        write!(f, "Rec({})", self.inner)
    }
}

impl Rec {
    async fn point(&self, label: String) {
        let sc = self.st.sched.lock().unwrap().clone();
        if let Some(sc) = sc {
            sc.point(label).await;
        }
    }
    /// the backend has executed a write; its acknowledgement travels back
    async fn post_write(&self, label: String) {
        let sc = self.st.sched.lock().unwrap().clone();
        if let Some(sc) = sc {
            if sc.post_writes {
                sc.point(label).await;
            }
        }
    }
}

fn payload_bytes(p: &PutPayload) -> Bytes {
    let mut v = Vec::with_capacity(p.content_length());
    for s in p.iter() {
        v.extend_from_slice(s);
    }
    Bytes::from(v)
}

#[async_trait]
impl ObjectStore for Rec {
    async fn put_opts(&self, location: &Path, payload: PutPayload, opts: PutOptions) -> Result<PutResult> {
        let data = payload_bytes(&payload);
        let gate = self.st.gate.lock().unwrap().clone();
        if let Some(g) = gate {
            g.check(location.as_ref()).await;
        }
        self.point(format!("put {location}")).await;
        let r = self.inner.put_opts(location, payload, opts).await;
        self.post_write(format!("ack put {location}")).await;
        let r = r?;
        self.st.muts.lock().unwrap().push(Mut::Put { path: location.to_string(), data });
        Ok(r)
    }

    async fn put_multipart_opts(&self, location: &Path, opts: PutMultipartOptions) -> Result<Box<dyn MultipartUpload>> {
        self.point(format!("mpinit {location}")).await;
        let inner = self.inner.put_multipart_opts(location, opts).await?;
        self.st.muts.lock().unwrap().push(Mut::MpInit { path: location.to_string() });
        Ok(Box::new(RecUploader { path: location.to_string(), parts: Vec::new(), st: self.st.clone(), inner }))
    }

    async fn get_opts(&self, location: &Path, options: GetOptions) -> Result<GetResult> {
        let (range, other) = match &options.range {
            Some(GetRange::Bounded(r)) => (Some((r.start, r.end)), false),
            Some(_) => (None, true),
            None => (None, false),
        };
        self.st.gets.lock().unwrap().push(GetRec { path: location.to_string(), range, other_range: other, head: options.head });
        self.point(format!("get {location}")).await;
        let r = self.inner.get_opts(location, options).await;
        self.point(format!("answer get {location}")).await;
        r
    }

    async fn get_ranges(&self, location: &Path, ranges: &[Range<u64>]) -> Result<Vec<Bytes>> {
        for r in ranges {
            self.st.gets.lock().unwrap().push(GetRec { path: location.to_string(), range: Some((r.start, r.end)), other_range: false, head: false });
        }
        self.point(format!("getranges {location}")).await;
        let r = self.inner.get_ranges(location, ranges).await;
        self.point(format!("answer getranges {location}")).await;
        r
    }

    fn delete_stream(&self, locations: BoxStream<'static, Result<Path>>) -> BoxStream<'static, Result<Path>> {
        let st = self.st.clone();
        let st2 = self.st.clone();
        let locations = locations
            .then(move |l| {
                let st2 = st2.clone();
                async move {
                    if let Ok(p) = &l {
                        let sc = st2.sched.lock().unwrap().clone();
                        if let Some(sc) = sc {
                            sc.point(format!("delete {p}")).await;
                        }
                    }
                    l
                }
            })
            .boxed();
        self.inner
            .delete_stream(locations)
            .map(move |r| {
                if let Ok(p) = &r {
                    st.muts.lock().unwrap().push(Mut::Del { path: p.to_string() });
                }
                r
            })
            .boxed()
    }

    fn list(&self, prefix: Option<&Path>) -> BoxStream<'static, Result<ObjectMeta>> {
        let (inner, st, prefix) = (self.inner.clone(), self.st.clone(), prefix.cloned());
        futures::stream::once(async move {
            let sc = st.sched.lock().unwrap().clone();
            if let Some(sc) = sc {
                sc.point(format!("list {}", prefix.clone().unwrap_or_default())).await;
            }
            let l = inner.list(prefix.as_ref());
            let sc = st.sched.lock().unwrap().clone();
            if let Some(sc) = sc {
                sc.point(format!("answer list {}", prefix.clone().unwrap_or_default())).await;
            }
            l
        })
        .flatten()
        .boxed()
    }

    fn list_with_offset(&self, prefix: Option<&Path>, offset: &Path) -> BoxStream<'static, Result<ObjectMeta>> {
        let (inner, st, prefix, offset) = (self.inner.clone(), self.st.clone(), prefix.cloned(), offset.clone());
        futures::stream::once(async move {
            let sc = st.sched.lock().unwrap().clone();
            if let Some(sc) = sc {
                sc.point(format!("listoffset {}", prefix.clone().unwrap_or_default())).await;
            }
            let l = inner.list_with_offset(prefix.as_ref(), &offset);
            let sc = st.sched.lock().unwrap().clone();
            if let Some(sc) = sc {
                sc.point(format!("answer listoffset {}", prefix.clone().unwrap_or_default())).await;
            }
            l
        })
        .flatten()
        .boxed()
    }

    async fn list_with_delimiter(&self, prefix: Option<&Path>) -> Result<ListResult> {
        self.point(format!("listdelim {}", prefix.cloned().unwrap_or_default())).await;
        let r = self.inner.list_with_delimiter(prefix).await;
        self.point(format!("answer listdelim {}", prefix.cloned().unwrap_or_default())).await;
        r
    }

    async fn copy_opts(&self, from: &Path, to: &Path, options: CopyOptions) -> Result<()> {
        self.point(format!("copy {from} -> {to}")).await;
        let r = self.inner.copy_opts(from, to, options).await;
        self.post_write(format!("ack copy {from} -> {to}")).await;
        r?;
        self.st.muts.lock().unwrap().push(Mut::Copy { src: from.to_string(), dst: to.to_string() });
        Ok(())
    }
}

#[derive(Debug)]
struct RecUploader {
    path: String,
    parts: Vec<Bytes>,
    st: Arc<RecState>,
    inner: Box<dyn MultipartUpload>,
}

#[async_trait]
impl MultipartUpload for RecUploader {
    fn put_part(&mut self, data: PutPayload) -> UploadPart {
        self.parts.push(payload_bytes(&data));
        self.inner.put_part(data)
    }
    async fn complete(&mut self) -> Result<PutResult> {
        let sc = self.st.sched.lock().unwrap().clone();
        if let Some(sc) = sc {
            sc.point(format!("complete {}", self.path)).await;
        }
        let r = self.inner.complete().await?;
        let mut all = Vec::new();
        for p in &self.parts {
            all.extend_from_slice(p);
        }
        self.st.muts.lock().unwrap().push(Mut::MpComplete { path: self.path.clone(), data: Bytes::from(all) });
        Ok(r)
    }
    async fn abort(&mut self) -> Result<()> {
        self.inner.abort().await
    }
}


// ------------------------------------------------------------------------------------- deterministic scheduler
tokio::task_local! {
    pub static TASK_ID: usize;
}

/// Every backend call of a scheduled task parks here until the controller releases it, so the
/// interleavings of the backend steps of concurrent wrapper calls can be enumerated.
#[derive(Default, Debug)]
pub struct Sched {
    inner: Mutex<SchedInner>,
    /// also park after a backend write has taken effect (its acknowledgement is in flight)
    pub post_writes: bool,
}

#[derive(Default, Debug)]
struct SchedInner {
    parked: BTreeMap<(usize, u64), (String, tokio::sync::oneshot::Sender<()>)>,
    done: std::collections::BTreeSet<usize>,
    seq: u64,
    arrivals: u64,
    pub trace: Vec<String>,
}

impl Sched {
    pub fn new() -> Arc<Sched> {
        Arc::new(Sched::default())
    }
    pub fn with_post_writes() -> Arc<Sched> {
        Arc::new(Sched { inner: Mutex::new(SchedInner::default()), post_writes: true })
    }
    /// One scheduling point of the calling task (a task may have several outstanding: buffered streams).
    pub async fn point(&self, label: String) {
        let id = match TASK_ID.try_with(|x| *x) {
            Ok(i) => i,
            Err(_) => return,
        };
        let (tx, rx) = tokio::sync::oneshot::channel();
        {
            let mut g = self.inner.lock().unwrap();
            g.seq += 1;
            g.arrivals += 1;
            let seq = g.seq;
            g.parked.insert((id, seq), (label, tx));
        }
        let _ = rx.await;
    }
    pub fn mark_done(&self, id: usize) {
        let mut g = self.inner.lock().unwrap();
        g.done.insert(id);
        g.arrivals += 1;
    }
    pub fn trace(&self) -> Vec<String> {
        self.inner.lock().unwrap().trace.clone()
    }
    fn counts(&self) -> (usize, usize, u64) {
        let g = self.inner.lock().unwrap();
        (g.parked.len(), g.done.len(), g.arrivals)
    }
    /// Wait until the tasks stop making progress on their own: nothing new parks or finishes over several
    /// scheduler turns (a task that is neither parked nor finished then waits on an in-process lock held by
    /// a parked task).
    pub async fn quiesce(&self, ntasks: usize) -> bool {
        let t0 = std::time::Instant::now();
        let mut last = self.counts();
        let mut stable = 0;
        loop {
            tokio::task::yield_now().await;
            let cur = self.counts();
            if cur == last {
                stable += 1;
            } else {
                stable = 0;
                last = cur;
            }
            if cur.1 >= ntasks {
                return true;
            }
            if stable >= 6 && cur.0 > 0 {
                return true;
            }
            let el = t0.elapsed();
            if el > std::time::Duration::from_millis(3000) {
                return false;
            }
            if stable >= 6 {
                tokio::time::sleep(std::time::Duration::from_micros(200)).await;
            }
        }
    }
    /// Release parked points one at a time following `choices` (index into the sorted enabled set, 0 beyond
    /// its end); returns the branching factor met at each decision. Ends when all tasks are finished.
    pub async fn drive(&self, ntasks: usize, choices: &[usize]) -> std::result::Result<Vec<usize>, String> {
        let mut step = 0usize;
        self.drive_with(ntasks, &mut |enabled: &[(usize, u64)]| {
            let c = choices.get(step).cloned().unwrap_or(0) % enabled.len();
            step += 1;
            c
        }).await
    }

    /// Release parked points one at a time; `chooser` picks among the enabled points (sorted by task, arrival).
    pub async fn drive_with(&self, ntasks: usize, chooser: &mut (dyn FnMut(&[(usize, u64)]) -> usize + Send)) -> std::result::Result<Vec<usize>, String> {
        let mut branching = Vec::new();
        loop {
            if !self.quiesce(ntasks).await {
                return Err(format!("stuck: {:?}", self.counts()));
            }
            let pick = {
                let mut g = self.inner.lock().unwrap();
                if g.done.len() >= ntasks && g.parked.is_empty() {
                    return Ok(branching);
                }
                let enabled: Vec<(usize, u64)> = g.parked.keys().cloned().collect();
                if enabled.is_empty() {
                    return Err("no task parked and not all finished".into());
                }
                let c = chooser(&enabled) % enabled.len();
                branching.push(enabled.len());
                let id = enabled[c];
                let (label, tx) = g.parked.remove(&id).unwrap();
                g.trace.push(format!("t{}:{label}", id.0));
                tx
            };
            let _ = pick.send(());
        }
    }

    /// Context-bounded schedule of two tasks: task `first` runs `n1` of its points, then the other task runs
    /// `n2` of its points (usize::MAX = to completion), then `first` runs to completion, then the rest.
    /// Returns how many points each phase really released (a phase ends early when its task has nothing parked).
    pub async fn drive_switch(&self, first: usize, n1: usize, n2: usize) -> std::result::Result<(usize, usize), String> {
        let other = 1 - first;
        let mut c1 = 0usize;
        let mut c2 = 0usize;
        let mut phase = 0u8;
        let r = self.drive_with(2, &mut |enabled: &[(usize, u64)]| {
            let of = |t: usize| enabled.iter().position(|e| e.0 == t);
            loop {
                match phase {
                    0 => {
                        if c1 < n1 { if let Some(i) = of(first) { c1 += 1; return i; } }
                        phase = 1;
                    }
                    1 => {
                        if c2 < n2 { if let Some(i) = of(other) { c2 += 1; return i; } }
                        phase = 2;
                    }
                    _ => return of(first).unwrap_or(0),
                }
            }
        }).await;
        r.map(|_| (c1, c2))
    }
}

/// next schedule in depth-first order over the choice tree
pub fn next_choices(choices: &mut Vec<usize>, branching: &[usize]) -> bool {
    let mut c = choices.clone();
    c.resize(branching.len(), 0);
    for i in (0..c.len()).rev() {
        if c[i] + 1 < branching[i] {
            c[i] += 1;
            c.truncate(i + 1);
            *choices = c;
            return true;
        }
    }
    false
}

pub fn spawn_task<F, T>(sched: &Arc<Sched>, id: usize, fut: F) -> tokio::task::JoinHandle<T>
where
    F: std::future::Future<Output = T> + Send + 'static,
    T: Send + 'static,
{
    let s = sched.clone();
    tokio::spawn(TASK_ID.scope(id, async move {
        let r = fut.await;
        s.mark_done(id);
        r
    }))
}

// ------------------------------------------------------------------------------------- wrapper handle
#[derive(Clone, Copy, Debug, PartialEq, Eq)]
pub enum Kind {
    Meta,
    Enc(u64),
}

impl Kind {
    pub fn name(&self) -> String {
        match self {
            Kind::Meta => "meta".into(),
            Kind::Enc(c) => format!("enc{c}"),
        }
    }
    pub fn is_enc(&self) -> bool {
        matches!(self, Kind::Enc(_))
    }
}

#[derive(Clone)]
pub enum W {
    Meta(MetaStore<Rec>),
    Enc(EncryptedStore<Rec>),
}

impl W {
    pub fn os(&self) -> &dyn ObjectStore {
        match self {
            W::Meta(s) => s,
            W::Enc(s) => s,
        }
    }
    pub async fn gc(&self) -> Result<usize> {
        match self {
            W::Meta(s) => s.collect_garbage().await,
            W::Enc(s) => s.collect_garbage().await,
        }
    }
}

/// One "process": wrapper (cold cache) -> Rec -> FaultStore -> shared InMemory.
pub struct Proc {
    pub w: W,
    pub rec: Arc<RecState>,
    pub fault: FaultHandle,
}

pub fn start(kind: Kind, mem: Arc<InMemory>) -> Proc {
    let (fs, fault) = FaultStore::wrap(mem);
    let st = Arc::new(RecState::default());
    let rec = Rec { inner: Arc::new(fs), st: st.clone() };
    let w = match kind {
        Kind::Meta => W::Meta(MetaStoreBuilder::new(rec, 1000).build()),
        Kind::Enc(c) => W::Enc(EncryptedStoreBuilder::with_secret(rec, 1000, SECRET).with_chunk_size(c).build()),
    };
    Proc { w, rec: st, fault }
}

pub async fn dump(mem: &InMemory) -> BTreeMap<String, Bytes> {
    let metas: Vec<ObjectMeta> = mem.list(None).try_collect().await.unwrap();
    let mut out = BTreeMap::new();
    for m in metas {
        let b = mem.get(&m.location).await.unwrap().bytes().await.unwrap();
        out.insert(m.location.to_string(), b);
    }
    out
}

#[derive(Clone, Debug, PartialEq, Eq)]
pub enum Read {
    Absent,
    Val(Vec<u8>),
    Unreadable(String),
}

pub fn err_kind(e: &Error) -> &'static str {
    match e {
        Error::NotFound { .. } => "NotFound",
        Error::AlreadyExists { .. } => "AlreadyExists",
        Error::Precondition { .. } => "Precondition",
        Error::NotModified { .. } => "NotModified",
        Error::NotSupported { .. } => "NotSupported",
        Error::NotImplemented { .. } => "NotImplemented",
        Error::InvalidPath { .. } => "InvalidPath",
        Error::PermissionDenied { .. } => "PermissionDenied",
        Error::Unauthenticated { .. } => "Unauthenticated",
        Error::Generic { .. } => "Generic",
        _ => "Other",
    }
}

pub async fn read_key(os: &dyn ObjectStore, k: &str) -> Read {
    match os.get(&Path::from(k)).await {
        Ok(r) => match r.bytes().await {
            Ok(b) => Read::Val(b.to_vec()),
            Err(e) => Read::Unreadable(format!("stream: {e}")),
        },
        Err(Error::NotFound { .. }) => Read::Absent,
        Err(e) => Read::Unreadable(format!("{}: {e}", err_kind(&e))),
    }
}

// ------------------------------------------------------------------------------------- canonicaliser
#[derive(Deserialize, Debug, Default)]
pub struct AnyMeta {
    #[serde(default)]
    pub s: u64,
    #[serde(default)]
    pub e: Option<String>,
    #[serde(default)]
    pub g: Option<String>,
    #[serde(default)]
    pub t: Option<Vec<serde_bytes::ByteBuf>>,
    #[serde(default)]
    pub c: Option<u64>,
    #[serde(default)]
    pub m: Option<u64>,
}

pub fn sha3_b64(parts: &[&[u8]]) -> String {
    let mut h = sha3::Sha3_256::new();
    for p in parts {
        h.update(p);
    }
    let d: [u8; 32] = h.finalize().into();
    BASE64_URL_SAFE.encode(d)
}

pub enum PathKind {
    Meta(String),
    Gen(String, String),
    Data(String),
    Other,
}

pub fn classify(p: &str) -> PathKind {
    if let Some(k) = p.strip_prefix("meta/") {
        PathKind::Meta(k.to_string())
    } else if let Some(rest) = p.strip_prefix("gen/") {
        match rest.rsplit_once('/') {
            Some((k, g)) => PathKind::Gen(k.to_string(), g.to_string()),
            None => PathKind::Other,
        }
    } else if let Some(k) = p.strip_prefix("data/") {
        PathKind::Data(k.to_string())
    } else {
        PathKind::Other
    }
}

pub fn n(x: u64) -> Value {
    json!({ "N": x })
}

/// Canonical ids: generations in order of first appearance ("g0", "g1", ...), e_tags and contents as
/// numbers from 1 (0 = "no payload this document describes").
pub struct Canon {
    pub enc: bool,
    pub default_chunk: u64,
    gens: HashMap<String, usize>,
    toks: HashMap<String, u64>,
    cids: HashMap<Vec<u8>, u64>,
    etag_cid: HashMap<String, u64>,
    pub unverified: u64,
}

impl Canon {
    pub fn new(enc: bool, default_chunk: u64) -> Self {
        Canon { enc, default_chunk, gens: HashMap::new(), toks: HashMap::new(), cids: HashMap::new(), etag_cid: HashMap::new(), unverified: 0 }
    }
    pub fn gen_name(&mut self, g: &str) -> String {
        let k = self.gens.len();
        format!("g{}", self.gens.entry(g.to_string()).or_insert(k))
    }
    pub fn tok(&mut self, e: &Option<String>) -> u64 {
        match e {
            None => 0,
            Some(e) => {
                let k = self.toks.len() as u64 + 1;
                *self.toks.entry(e.clone()).or_insert(k)
            }
        }
    }
    pub fn cid(&mut self, b: &[u8]) -> u64 {
        let k = self.cids.len() as u64 + 1;
        *self.cids.entry(b.to_vec()).or_insert(k)
    }
    pub fn val(&mut self, b: &[u8]) -> Value {
        tup(vec![n(self.cid(b)), n(b.len() as u64)])
    }
    pub fn path(&mut self, p: &str) -> Value {
        match classify(p) {
            PathKind::Meta(k) => ctor("PMeta", vec![json!(k)]),
            PathKind::Gen(k, g) => {
                let g = self.gen_name(&g);
                ctor("PGen", vec![json!(k), json!(g)])
            }
            PathKind::Data(k) => ctor("PData", vec![json!(k)]),
            PathKind::Other => ctor("PData", vec![json!(format!("?{p}"))]),
        }
    }
    pub fn payload_path_of(key: &str, g: &Option<String>) -> String {
        match g {
            Some(g) => format!("gen/{key}/{g}"),
            None => format!("data/{key}"),
        }
    }
    /// Does the document describe the bytes its pointer resolves to?
    fn bound(&mut self, key: &str, m: &AnyMeta, pbytes: &[u8]) -> bool {
        let _ = key;
        if m.s != pbytes.len() as u64 {
            return false;
        }
        if self.enc {
            let c = m.c.filter(|c| *c > 0).unwrap_or(self.default_chunk).max(1);
            let want = (pbytes.len() as u64).div_ceil(c);
            return m.t.as_ref().map(|t| t.len() as u64) == Some(want);
        }
        let Some(e) = &m.e else { return false };
        let direct = match &m.g {
            Some(g) => sha3_b64(&[g.as_bytes(), pbytes]),
            None => sha3_b64(&[pbytes]),
        };
        if &direct == e {
            return true;
        }
        // a copy: H(generation || e_tag of a commit that described the same bytes)
        if let Some(g) = &m.g {
            let cid = self.cid(pbytes);
            let known: Vec<(String, u64)> = self.etag_cid.iter().map(|(a, b)| (a.clone(), *b)).collect();
            for (e0, c0) in known {
                if &sha3_b64(&[g.as_bytes(), e0.as_bytes()]) == e {
                    return c0 == cid;
                }
            }
        }
        // a copy whose source document is no longer on the backend: MetaStore keeps nothing but the
        // size that ties the document to the bytes; counted, and the bytes are checked end to end by
        // reading through the real wrapper
        self.unverified += 1;
        true
    }
    /// Canonical object at `path` given the backend state it lives in.
    pub fn obj(&mut self, path: &str, bytes: &[u8], state: &BTreeMap<String, Bytes>) -> Value {
        match classify(path) {
            PathKind::Meta(key) => {
                let m: AnyMeta = match cbor2::from_slice(bytes) {
                    Ok(m) => m,
                    Err(_) => return ctor("OPay", vec![self.val(bytes)]), // undecodable document
                };
                let pp = Self::payload_path_of(&key, &m.g);
                let v = match state.get(&pp) {
                    Some(pb) if self.bound(&key, &m, pb) => {
                        let cid = self.cid(pb);
                        if let Some(e) = &m.e {
                            self.etag_cid.insert(e.clone(), cid);
                        }
                        tup(vec![n(cid), n(m.s)])
                    }
                    _ => tup(vec![n(0), n(m.s)]),
                };
                let g = match &m.g {
                    Some(g) => some(json!(self.gen_name(g))),
                    None => Value::Null,
                };
                let t = self.tok(&m.e);
                ctor("OMeta", vec![ctor("mkMeta", vec![g, v, n(t)])])
            }
            _ => ctor("OPay", vec![self.val(bytes)]),
        }
    }
    /// Canonical backend: documents after payloads of older states were registered.
    pub fn state(&mut self, state: &BTreeMap<String, Bytes>) -> Value {
        // two passes so that a copy's derived e_tag finds its source's e_tag
        for (p, b) in state {
            if let PathKind::Meta(_) = classify(p) {
                let _ = self.obj(p, b, state);
            }
        }
        let mut out = Vec::new();
        for (p, b) in state {
            let pt = self.path(p);
            let ob = self.obj(p, b, state);
            out.push(tup(vec![pt, ob]));
        }
        Value::Array(out)
    }
    /// Canonical log; `state` is advanced alongside.
    pub fn log(&mut self, muts: &[Mut], state: &mut BTreeMap<String, Bytes>) -> Value {
        let mut out = Vec::new();
        for m in muts {
            match m {
                Mut::Put { path, data } | Mut::MpComplete { path, data } => {
                    state.insert(path.clone(), data.clone());
                    let pt = self.path(path);
                    let ob = self.obj(path, data, state);
                    out.push(ctor("LPut", vec![pt, ob]));
                }
                Mut::Del { path } => {
                    state.remove(path);
                    out.push(ctor("LDel", vec![self.path(path)]));
                }
                Mut::Copy { src, dst } => {
                    if let Some(b) = state.get(src).cloned() {
                        state.insert(dst.clone(), b);
                    }
                    let a = self.path(src);
                    let b = self.path(dst);
                    out.push(ctor("LCopy", vec![a, b]));
                }
                Mut::MpInit { .. } => {}
            }
        }
        Value::Array(out)
    }
}

pub fn mut_path(m: &Mut) -> (&'static str, String) {
    match m {
        Mut::Put { path, .. } => ("Put", path.clone()),
        Mut::Del { path } => ("Delete", path.clone()),
        Mut::Copy { src, .. } => ("Copy", src.clone()),
        Mut::MpInit { path } => ("Put", path.clone()),
        Mut::MpComplete { path, .. } => ("Complete", path.clone()),
    }
}
