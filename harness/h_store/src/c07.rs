//! C07 — the wrappers against object_store::memory::InMemory, call by call.
//!
//! Every generated call sequence is applied to the wrapper (MetaStore or EncryptedStore with chunk size
//! 1 / 7 / 16 / 64 KiB, over a recording InMemory backend) and to a plain InMemory reference store; each
//! result is normalised (error kind, size, resolved range, bytes, listing sets; tokens are translated
//! through the per-store commit numbering, timestamps are relative to the store's own) and compared.
//! Direct oracles on the wrapper alone: tokens never repeat across commits and keys; get / head / list
//! report one (size, token, timestamp) per commit.  Model cases: the history of mutating calls with the
//! observed outcomes and final (value, token) per key; read preconditions; range -> chunk span.
use crate::common::*;
use bytes::Bytes;
use chrono::{DateTime, Duration, Utc};
use futures::TryStreamExt;
use h_common::{Rng, arg_value, ctor, some, tup};
use object_store::{memory::InMemory, path::Path, *};
use serde_json::{Value, json};
use std::collections::{BTreeMap, HashMap, HashSet};
use std::sync::Arc;

const KEYS: [&str; 6] = ["a", "a/b", "a/b/c", "a/bb", "d", "d/e"];
const BOGUS: u64 = 9999;

fn payload(pid: usize, len: usize) -> Vec<u8> {
    (0..len).map(|i| ((pid * 31 + i * 7 + i / 256) % 256) as u8).collect()
}

#[derive(Clone, Debug)]
enum Tok {
    Current,
    Stale,
    Foreign,
    Missing,
    Bogus,
    CurrentWithVersion,
}

#[derive(Clone, Debug)]
enum PMode {
    Overwrite,
    Create,
    Update(Tok),
}

#[derive(Clone, Debug)]
enum Pat {
    Star,
    Current,
    Stale,
    ListWithCurrent,
    Bogus,
}

#[derive(Clone, Debug)]
enum RangeSpec {
    Bounded(u64, u64),
    Offset(u64),
    Suffix(u64),
}

#[derive(Clone, Debug, Default)]
struct GOpts {
    range: Option<RangeSpec>,
    if_match: Option<Pat>,
    if_none_match: Option<Pat>,
    if_modified_since: Option<i64>,   // offset in ms from the object's own last_modified
    if_unmodified_since: Option<i64>,
    head: bool,
}

#[derive(Clone, Debug)]
enum Call {
    Put { k: String, pid: usize, mode: PMode },
    Multipart { k: String, pids: Vec<usize> },
    Get { k: String, o: GOpts },
    Head { k: String },
    GetRanges { k: String, ranges: Vec<(u64, u64)> },
    List { prefix: Option<String> },
    ListOffset { prefix: Option<String>, offset: String },
    ListDelim { prefix: Option<String> },
    Delete { k: String },
    Copy { from: String, to: String, create: bool },
    Rename { from: String, to: String, create: bool },
    Restart,
}

fn call_name(c: &Call) -> &'static str {
    match c {
        Call::Put { mode: PMode::Overwrite, .. } => "put_overwrite",
        Call::Put { mode: PMode::Create, .. } => "put_create",
        Call::Put { mode: PMode::Update(_), .. } => "put_update",
        Call::Multipart { .. } => "multipart",
        Call::Get { .. } => "get_opts",
        Call::Head { .. } => "head",
        Call::GetRanges { .. } => "get_ranges",
        Call::List { .. } => "list",
        Call::ListOffset { .. } => "list_with_offset",
        Call::ListDelim { .. } => "list_with_delimiter",
        Call::Delete { .. } => "delete",
        Call::Copy { .. } => "copy",
        Call::Rename { .. } => "rename",
        Call::Restart => "restart",
    }
}

/// the harness's own bookkeeping of the logical store: key -> (payload bytes id, canonical token)
#[derive(Clone, Default)]
struct Book {
    cur: BTreeMap<String, (usize, u64)>,      // payload-table index, token number
    hist: BTreeMap<String, Vec<u64>>,          // retired token numbers per key
}

struct Side {
    num_to_etag: HashMap<u64, String>,
    lm: BTreeMap<String, DateTime<Utc>>,
}

fn sizes_for(cs: u64) -> Vec<usize> {
    let c = cs as usize;
    let mut v = vec![0, 1, c.saturating_sub(1), c, c + 1, 2 * c, 3 * c + 2, 5];
    v.sort();
    v.dedup();
    v
}

fn boundary(rng: &mut Rng, cs: u64, len: u64) -> u64 {
    let c = cs;
    let cands = [0, 1, c.saturating_sub(1), c, c + 1, 2 * c, len.saturating_sub(1), len, len + 1, len / 2];
    *rng.pick(&cands)
}

fn gen_gopts(rng: &mut Rng, cs: u64, len: u64) -> GOpts {
    let mut o = GOpts::default();
    if rng.chance(2, 3) {
        o.range = Some(match rng.below(6) {
            0..=3 => {
                let a = boundary(rng, cs, len);
                let b = boundary(rng, cs, len);
                if rng.chance(9, 10) { RangeSpec::Bounded(a.min(b), a.max(b) + if rng.chance(1, 2) { 1 } else { 0 }) } else { RangeSpec::Bounded(a, b) }
            }
            4 => RangeSpec::Offset(boundary(rng, cs, len)),
            _ => RangeSpec::Suffix(boundary(rng, cs, len)),
        });
    }
    let pat = |rng: &mut Rng| match rng.below(5) {
        0 => Pat::Star,
        1 => Pat::Current,
        2 => Pat::Stale,
        3 => Pat::ListWithCurrent,
        _ => Pat::Bogus,
    };
    if rng.chance(1, 3) {
        o.if_match = Some(pat(rng));
    }
    if rng.chance(1, 3) {
        o.if_none_match = Some(pat(rng));
    }
    if rng.chance(1, 4) {
        o.if_modified_since = Some(*rng.pick(&[-1000i64, 0, 1000]));
    }
    if rng.chance(1, 4) {
        o.if_unmodified_since = Some(*rng.pick(&[-1000i64, 0, 1000]));
    }
    o.head = rng.chance(1, 8);
    o
}

fn gen_calls(rng: &mut Rng, cs: u64, ntable: usize, table_len: &[usize]) -> Vec<Call> {
    let n = rng.range(12, 40) as usize;
    let mut calls = Vec::new();
    let key = |rng: &mut Rng| rng.pick(&KEYS).to_string();
    let prefix = |rng: &mut Rng| match rng.below(5) {
        0 => None,
        1 => Some("a".to_string()),
        2 => Some("a/b".to_string()),
        3 => Some("d".to_string()),
        _ => Some("zz".to_string()),
    };
    for _ in 0..n {
        let c = match rng.below(40) {
            0..=7 => Call::Put {
                k: key(rng),
                pid: rng.below(ntable as u64) as usize,
                mode: match rng.below(12) {
                    0..=4 => PMode::Overwrite,
                    5..=6 => PMode::Create,
                    7..=8 => PMode::Update(Tok::Current),
                    9 => PMode::Update(Tok::Stale),
                    10 => PMode::Update(if rng.chance(1, 2) { Tok::Foreign } else { Tok::Bogus }),
                    _ => PMode::Update(if rng.chance(1, 2) { Tok::Missing } else { Tok::CurrentWithVersion }),
                },
            },
            8..=9 => {
                let np = rng.range(1, 3) as usize;
                Call::Multipart { k: key(rng), pids: (0..np).map(|_| rng.below(ntable as u64) as usize).collect() }
            }
            10..=19 => {
                let k = key(rng);
                let len = table_len[rng.below(ntable as u64) as usize] as u64;
                Call::Get { k, o: gen_gopts(rng, cs, len) }
            }
            20..=21 => Call::Head { k: key(rng) },
            22..=24 => {
                let len = table_len[rng.below(ntable as u64) as usize] as u64;
                let nr = rng.range(0, 4) as usize;
                let mut ranges = Vec::new();
                for _ in 0..nr {
                    let a = boundary(rng, cs, len);
                    let b = boundary(rng, cs, len);
                    if rng.chance(9, 10) { ranges.push((a.min(b), a.max(b) + 1)) } else { ranges.push((a, b)) }
                }
                if nr > 0 && rng.chance(1, 3) {
                    ranges.push(ranges[0]);
                }
                Call::GetRanges { k: key(rng), ranges }
            }
            25 => Call::List { prefix: prefix(rng) },
            26 => Call::ListOffset { prefix: prefix(rng), offset: key(rng) },
            27 => Call::ListDelim { prefix: prefix(rng) },
            28..=30 => Call::Delete { k: key(rng) },
            31..=33 => Call::Copy { from: key(rng), to: key(rng), create: rng.chance(1, 3) },
            34..=36 => Call::Rename { from: key(rng), to: key(rng), create: rng.chance(1, 3) },
            37 => Call::Restart,
            _ => Call::Get { k: key(rng), o: GOpts::default() },
        };
        calls.push(c);
    }
    // ABA motif through copy: the same unchanged source is copied onto the same target twice with another commit
    // of the target in between; the second copy must publish a token the target never had, and an update
    // conditioned on a retired token must be refused
    if rng.chance(1, 2) {
        let x = key(rng);
        let mut y = key(rng);
        if y == x { y = KEYS.iter().find(|k| **k != x.as_str()).unwrap().to_string(); }
        let pid = rng.below(ntable as u64) as usize;
        let pid2 = rng.below(ntable as u64) as usize;
        let at = rng.below(calls.len() as u64 + 1) as usize;
        let mid = if rng.chance(1, 2) { Call::Put { k: y.clone(), pid: pid2, mode: PMode::Overwrite } } else { Call::Delete { k: y.clone() } };
        let motif = vec![
            Call::Put { k: x.clone(), pid, mode: PMode::Overwrite },
            Call::Copy { from: x.clone(), to: y.clone(), create: false },
            mid,
            Call::Copy { from: x.clone(), to: y.clone(), create: false },
            Call::Head { k: y.clone() },
            Call::Put { k: y.clone(), pid: pid2, mode: PMode::Update(Tok::Stale) },
        ];
        let tail = calls.split_off(at);
        calls.extend(motif);
        calls.extend(tail);
    }
    calls
}

/// normalised result of one call on one store
#[derive(Clone, Debug, PartialEq)]
enum Res {
    Err(&'static str),
    Unit,
    Put,
    Obj { size: u64, range: (u64, u64), bytes_ok: bool, nbytes: u64, tok_ok: bool },
    Meta { size: u64, tok_ok: bool },
    Ranges(Vec<(u64, bool)>),
    Listing(Vec<(String, u64, bool)>),
    Delim { prefixes: Vec<String>, objects: Vec<(String, u64, bool)> },
}

struct Ctx<'a> {
    book: &'a Book,
    table: &'a [Vec<u8>],
}

fn num_for(tok: &Tok, book: &Book, k: &str) -> (Option<u64>, Option<String>) {
    let cur = book.cur.get(k).map(|x| x.1);
    match tok {
        Tok::Current => (Some(cur.unwrap_or(BOGUS)), None),
        Tok::CurrentWithVersion => (Some(cur.unwrap_or(BOGUS)), Some("v1".to_string())),
        Tok::Stale => (Some(book.hist.get(k).and_then(|h| h.last().cloned()).unwrap_or(BOGUS)), None),
        Tok::Foreign => (Some(book.cur.iter().find(|(kk, _)| kk.as_str() != k).map(|(_, v)| v.1).unwrap_or(BOGUS)), None),
        Tok::Missing => (None, None),
        Tok::Bogus => (Some(BOGUS), None),
    }
}

fn etag_of(side: &Side, num: u64) -> String {
    side.num_to_etag.get(&num).cloned().unwrap_or_else(|| format!("bogus-{num}"))
}

fn pat_nums(p: &Pat, book: &Book, k: &str) -> Option<Vec<u64>> {
    let cur = book.cur.get(k).map(|x| x.1).unwrap_or(BOGUS);
    let stale = book.hist.get(k).and_then(|h| h.last().cloned()).unwrap_or(BOGUS + 1);
    match p {
        Pat::Star => None,
        Pat::Current => Some(vec![cur]),
        Pat::Stale => Some(vec![stale]),
        Pat::ListWithCurrent => Some(vec![BOGUS + 2, cur]),
        Pat::Bogus => Some(vec![BOGUS]),
    }
}

fn pat_string(p: &Pat, book: &Book, k: &str, side: &Side) -> String {
    match pat_nums(p, book, k) {
        None => "*".to_string(),
        Some(v) => v.iter().map(|n| etag_of(side, *n)).collect::<Vec<_>>().join(", "),
    }
}

async fn collect_get(r: GetResult) -> std::result::Result<(ObjectMeta, (u64, u64), Vec<u8>), &'static str> {
    let meta = r.meta.clone();
    let range = (r.range.start, r.range.end);
    match r.bytes().await {
        Ok(b) => Ok((meta, range, b.to_vec())),
        Err(e) => Err(err_kind(&e)),
    }
}

fn listing_norm(v: Vec<ObjectMeta>, cx: &Ctx, side: &Side) -> Vec<(String, u64, bool)> {
    let mut out: Vec<(String, u64, bool)> = v
        .into_iter()
        .map(|m| {
            let k = m.location.to_string();
            let tok_ok = cx.book.cur.get(&k).map(|(_, n)| Some(etag_of(side, *n)) == m.e_tag).unwrap_or(false);
            (k, m.size, tok_ok)
        })
        .collect();
    out.sort();
    out
}

async fn apply(os: &dyn ObjectStore, call: &Call, cx: &Ctx<'_>, side: &Side) -> Res {
    match call {
        Call::Put { k, pid, mode } => {
            let mode = match mode {
                PMode::Overwrite => PutMode::Overwrite,
                PMode::Create => PutMode::Create,
                PMode::Update(t) => {
                    let (n, ver) = num_for(t, cx.book, k);
                    PutMode::Update(UpdateVersion { e_tag: n.map(|n| etag_of(side, n)), version: ver })
                }
            };
            match os.put_opts(&Path::from(k.as_str()), Bytes::from(cx.table[*pid].clone()).into(), mode.into()).await {
                Ok(_) => Res::Put,
                Err(e) => Res::Err(err_kind(&e)),
            }
        }
        Call::Multipart { k, pids } => {
            let mut up = match os.put_multipart(&Path::from(k.as_str())).await {
                Ok(u) => u,
                Err(e) => return Res::Err(err_kind(&e)),
            };
            for p in pids {
                if let Err(e) = up.put_part(Bytes::from(cx.table[*p].clone()).into()).await {
                    return Res::Err(err_kind(&e));
                }
            }
            match up.complete().await {
                Ok(_) => Res::Put,
                Err(e) => Res::Err(err_kind(&e)),
            }
        }
        Call::Get { k, o } => {
            let lm = side.lm.get(k).cloned().unwrap_or_else(Utc::now);
            let opts = GetOptions {
                if_match: o.if_match.as_ref().map(|p| pat_string(p, cx.book, k, side)),
                if_none_match: o.if_none_match.as_ref().map(|p| pat_string(p, cx.book, k, side)),
                if_modified_since: o.if_modified_since.map(|d| lm + Duration::milliseconds(d)),
                if_unmodified_since: o.if_unmodified_since.map(|d| lm + Duration::milliseconds(d)),
                range: o.range.as_ref().map(|r| match r {
                    RangeSpec::Bounded(a, b) => GetRange::Bounded(*a..*b),
                    RangeSpec::Offset(a) => GetRange::Offset(*a),
                    RangeSpec::Suffix(a) => GetRange::Suffix(*a),
                }),
                version: None,
                head: o.head,
                extensions: Default::default(),
            };
            match os.get_opts(&Path::from(k.as_str()), opts).await {
                Ok(r) => match collect_get(r).await {
                    Ok((meta, range, bytes)) => {
                        let full = cx.book.cur.get(k).map(|(p, _)| cx.table[*p].clone()).unwrap_or_default();
                        let tok_ok = cx.book.cur.get(k).map(|(_, n)| Some(etag_of(side, *n)) == meta.e_tag).unwrap_or(false);
                        if o.head {
                            Res::Meta { size: meta.size, tok_ok }
                        } else {
                            let want = full.get(range.0 as usize..range.1 as usize).map(|s| s.to_vec());
                            Res::Obj { size: meta.size, range, bytes_ok: want.as_deref() == Some(&bytes[..]), nbytes: bytes.len() as u64, tok_ok }
                        }
                    }
                    Err(k) => Res::Err(k),
                },
                Err(e) => Res::Err(err_kind(&e)),
            }
        }
        Call::Head { k } => match os.head(&Path::from(k.as_str())).await {
            Ok(m) => {
                let tok_ok = cx.book.cur.get(k).map(|(_, n)| Some(etag_of(side, *n)) == m.e_tag).unwrap_or(false);
                Res::Meta { size: m.size, tok_ok }
            }
            Err(e) => Res::Err(err_kind(&e)),
        },
        Call::GetRanges { k, ranges } => {
            let rs: Vec<std::ops::Range<u64>> = ranges.iter().map(|(a, b)| *a..*b).collect();
            match os.get_ranges(&Path::from(k.as_str()), &rs).await {
                Ok(v) => {
                    let full = cx.book.cur.get(k).map(|(p, _)| cx.table[*p].clone()).unwrap_or_default();
                    Res::Ranges(v.iter().zip(ranges.iter()).map(|(b, (s, e))| {
                        let want = full.get(*s as usize..(*e as usize).min(full.len()));
                        (b.len() as u64, want == Some(&b[..]))
                    }).collect())
                }
                Err(e) => Res::Err(err_kind(&e)),
            }
        }
        Call::List { prefix } => {
            let p = prefix.as_ref().map(|p| Path::from(p.as_str()));
            match os.list(p.as_ref()).try_collect::<Vec<_>>().await {
                Ok(v) => Res::Listing(listing_norm(v, cx, side)),
                Err(e) => Res::Err(err_kind(&e)),
            }
        }
        Call::ListOffset { prefix, offset } => {
            let p = prefix.as_ref().map(|p| Path::from(p.as_str()));
            match os.list_with_offset(p.as_ref(), &Path::from(offset.as_str())).try_collect::<Vec<_>>().await {
                Ok(v) => Res::Listing(listing_norm(v, cx, side)),
                Err(e) => Res::Err(err_kind(&e)),
            }
        }
        Call::ListDelim { prefix } => {
            let p = prefix.as_ref().map(|p| Path::from(p.as_str()));
            match os.list_with_delimiter(p.as_ref()).await {
                Ok(r) => {
                    let mut prefixes: Vec<String> = r.common_prefixes.iter().map(|p| p.to_string()).collect();
                    prefixes.sort();
                    Res::Delim { prefixes, objects: listing_norm(r.objects, cx, side) }
                }
                Err(e) => Res::Err(err_kind(&e)),
            }
        }
        Call::Delete { k } => match os.delete(&Path::from(k.as_str())).await {
            Ok(()) => Res::Unit,
            Err(e) => Res::Err(err_kind(&e)),
        },
        Call::Copy { from, to, create } => {
            let (f, t) = (Path::from(from.as_str()), Path::from(to.as_str()));
            let r = if *create { os.copy_if_not_exists(&f, &t).await } else { os.copy(&f, &t).await };
            match r {
                Ok(()) => Res::Unit,
                Err(e) => Res::Err(err_kind(&e)),
            }
        }
        Call::Rename { from, to, create } => {
            let (f, t) = (Path::from(from.as_str()), Path::from(to.as_str()));
            let r = if *create { os.rename_if_not_exists(&f, &t).await } else { os.rename(&f, &t).await };
            match r {
                Ok(()) => Res::Unit,
                Err(e) => Res::Err(err_kind(&e)),
            }
        }
        Call::Restart => Res::Unit,
    }
}

/// the reference bookkeeping: what the call does to the logical store, given that it succeeded
fn book_apply(book: &mut Book, call: &Call, tok: u64, table_cat: &mut dyn FnMut(&[usize]) -> usize) {
    let mut set = |book: &mut Book, k: &str, pid: usize| {
        if let Some((_, old)) = book.cur.get(k).cloned() {
            book.hist.entry(k.to_string()).or_default().push(old);
        }
        book.cur.insert(k.to_string(), (pid, tok));
    };
    let mut remove = |book: &mut Book, k: &str| {
        if let Some((_, old)) = book.cur.remove(k) {
            book.hist.entry(k.to_string()).or_default().push(old);
        }
    };
    match call {
        Call::Put { k, pid, .. } => set(book, k, *pid),
        Call::Multipart { k, pids } => {
            let pid = table_cat(pids);
            set(book, k, pid)
        }
        Call::Copy { from, to, .. } => {
            let pid = book.cur[from].0;
            set(book, to, pid)
        }
        Call::Rename { from, to, .. } => {
            if from != to {
                let pid = book.cur[from].0;
                set(book, to, pid);
                remove(book, from);
            }
        }
        Call::Delete { k } => remove(book, k),
        _ => {}
    }
}

fn is_mutating(c: &Call) -> bool {
    matches!(c, Call::Put { .. } | Call::Multipart { .. } | Call::Delete { .. } | Call::Copy { .. } | Call::Rename { .. })
}

fn hop_term(call: &Call, book: &Book, table: &[Vec<u8>], cat_pid: Option<usize>) -> Value {
    let val = |pid: usize| tup(vec![n(pid as u64 + 1), n(table[pid].len() as u64)]);
    match call {
        Call::Put { k, pid, mode } => {
            let m = match mode {
                PMode::Overwrite => ctor("MOverwrite", vec![]),
                PMode::Create => ctor("MCreate", vec![]),
                PMode::Update(t) => {
                    let (num, _) = num_for(t, book, k);
                    ctor("MUpdate", vec![match num { Some(x) => some(n(x)), None => Value::Null }])
                }
            };
            ctor("HPut", vec![json!(k), val(*pid), m])
        }
        Call::Multipart { k, .. } => ctor("HMultipart", vec![json!(k), val(cat_pid.unwrap())]),
        Call::Copy { from, to, create } => ctor("HCopy", vec![json!(from), json!(to), json!(create)]),
        Call::Rename { from, to, create } => ctor("HRename", vec![json!(from), json!(to), json!(create)]),
        Call::Delete { k } => ctor("HDelete", vec![json!(k)]),
        _ => unreachable!(),
    }
}

fn outcome_term(r: &Res) -> Value {
    match r {
        Res::Err("AlreadyExists") => ctor("OAlreadyExists", vec![]),
        Res::Err("Precondition") => ctor("OPrecondition", vec![]),
        Res::Err("NotFound") => ctor("ONotFound", vec![]),
        Res::Err(_) => ctor("OPrecondition", vec![]),
        _ => ctor("OOk", vec![]),
    }
}

// ------------------------------------------------------------------------------------- two callers per key
#[derive(Clone, Debug, PartialEq)]
struct View {
    size: u64,
    etag: Option<String>,
    lm: Option<DateTime<Utc>>,
    bytes: Option<Vec<u8>>,
}

/// what one instance says about key `k` right now: head, get, list entry, list_with_delimiter entry
async fn views(os: &dyn ObjectStore, k: &str) -> Vec<(&'static str, Option<View>)> {
    let p = Path::from(k);
    let mut out = Vec::new();
    out.push(("head", match os.head(&p).await { Ok(m) => Some(View { size: m.size, etag: m.e_tag, lm: Some(m.last_modified), bytes: None }), Err(_) => None }));
    out.push(("get", match os.get(&p).await {
        Ok(r) => {
            let m = r.meta.clone();
            match r.bytes().await { Ok(b) => Some(View { size: m.size, etag: m.e_tag, lm: Some(m.last_modified), bytes: Some(b.to_vec()) }), Err(_) => Some(View { size: m.size, etag: m.e_tag, lm: None, bytes: Some(vec![0xde, 0xad]) }) }
        }
        Err(_) => None,
    }));
    let l: Vec<ObjectMeta> = os.list(None).try_collect().await.unwrap_or_default();
    out.push(("list", l.iter().find(|m| m.location == p).map(|m| View { size: m.size, etag: m.e_tag.clone(), lm: Some(m.last_modified), bytes: None })));
    let d = os.list_with_delimiter(None).await.map(|r| r.objects).unwrap_or_default();
    out.push(("list_with_delimiter", d.iter().find(|m| m.location == p).map(|m| View { size: m.size, etag: m.e_tag.clone(), lm: Some(m.last_modified), bytes: None })));
    out
}

fn same_commit(v: &Option<View>, truth: &Option<View>) -> bool {
    match (v, truth) {
        (None, None) => true,
        (Some(a), Some(t)) => a.size == t.size && a.etag == t.etag && (a.lm.is_none() || a.lm == t.lm) && (a.bytes.is_none() || a.bytes == t.bytes),
        _ => false,
    }
}

const READERS: [&str; 6] = ["list", "list_with_delimiter", "list_with_offset", "head", "get", "get_ranges"];
const WRITERS: [&str; 4] = ["put", "copy", "multipart", "delete"];

/// Read preconditions of a conditional reader, relative to the commit the key holds before the writer runs
/// ("old") — which of the two commits satisfies it is decided by the reference store, not here.
#[derive(Clone, Copy, Debug, PartialEq)]
enum Pre { MatchOld, MatchBogus, MatchStar, NoneMatchOld, NoneMatchBogus, NoneMatchStar, UnmodOld, UnmodFuture, UnmodPast, ModOld, ModPast, ModFuture, MatchOldNoneMatchBogus, UnmodOldModPast }
#[derive(Clone, Copy, Debug)]
struct Cond { name: &'static str, pre: Pre, head: bool, range: bool }
const CONDS: [Cond; 17] = [
    Cond { name: "get_opts if_match=[other, token(old)]", pre: Pre::MatchOld, head: false, range: false },
    Cond { name: "get_opts if_match=bogus", pre: Pre::MatchBogus, head: false, range: false },
    Cond { name: "get_opts if_match=*", pre: Pre::MatchStar, head: false, range: false },
    Cond { name: "get_opts if_none_match=token(old)", pre: Pre::NoneMatchOld, head: false, range: false },
    Cond { name: "get_opts if_none_match=bogus", pre: Pre::NoneMatchBogus, head: false, range: false },
    Cond { name: "get_opts if_none_match=*", pre: Pre::NoneMatchStar, head: false, range: false },
    Cond { name: "get_opts if_unmodified_since=last_modified(old)", pre: Pre::UnmodOld, head: false, range: false },
    Cond { name: "get_opts if_unmodified_since=future", pre: Pre::UnmodFuture, head: false, range: false },
    Cond { name: "get_opts if_unmodified_since=past", pre: Pre::UnmodPast, head: false, range: false },
    Cond { name: "get_opts if_modified_since=last_modified(old)", pre: Pre::ModOld, head: false, range: false },
    Cond { name: "get_opts if_modified_since=past", pre: Pre::ModPast, head: false, range: false },
    Cond { name: "get_opts if_modified_since=future", pre: Pre::ModFuture, head: false, range: false },
    Cond { name: "get_opts if_match=token(old) if_none_match=bogus", pre: Pre::MatchOldNoneMatchBogus, head: false, range: false },
    Cond { name: "get_opts if_unmodified_since=last_modified(old) if_modified_since=past", pre: Pre::UnmodOldModPast, head: false, range: false },
    Cond { name: "get_opts head if_match=token(old)", pre: Pre::MatchOld, head: true, range: false },
    Cond { name: "get_opts range=0..5 if_unmodified_since=last_modified(old)", pre: Pre::UnmodOld, head: false, range: true },
    Cond { name: "get_opts range=0..5 if_none_match=token(old)", pre: Pre::NoneMatchOld, head: false, range: true },
];

fn reader_name(reader: usize) -> String {
    if reader < READERS.len() { READERS[reader].to_string() } else { CONDS[reader - READERS.len()].name.to_string() }
}

fn cond_options(c: &Cond, tok_old: &str, lm_old: chrono::DateTime<chrono::Utc>) -> GetOptions {
    let day = chrono::Duration::days(1);
    let mut o = GetOptions::default();
    match c.pre {
        Pre::MatchOld => o.if_match = Some(format!("other, {tok_old}")),
        Pre::MatchBogus => o.if_match = Some("bogus".into()),
        Pre::MatchStar => o.if_match = Some("*".into()),
        Pre::NoneMatchOld => o.if_none_match = Some(tok_old.to_string()),
        Pre::NoneMatchBogus => o.if_none_match = Some("bogus".into()),
        Pre::NoneMatchStar => o.if_none_match = Some("*".into()),
        Pre::UnmodOld => o.if_unmodified_since = Some(lm_old),
        Pre::UnmodFuture => o.if_unmodified_since = Some(lm_old + day),
        Pre::UnmodPast => o.if_unmodified_since = Some(lm_old - day),
        Pre::ModOld => o.if_modified_since = Some(lm_old),
        Pre::ModPast => o.if_modified_since = Some(lm_old - day),
        Pre::ModFuture => o.if_modified_since = Some(lm_old + day),
        Pre::MatchOldNoneMatchBogus => { o.if_match = Some(tok_old.to_string()); o.if_none_match = Some("bogus".into()); }
        Pre::UnmodOldModPast => { o.if_unmodified_since = Some(lm_old); o.if_modified_since = Some(lm_old - day); }
    }
    if c.head { o.head = true; }
    if c.range { o.range = Some(GetRange::Bounded(0..5)); }
    o
}

/// What one conditional read answered: the bytes it served or the kind of its error.
type Verdict = std::result::Result<Vec<u8>, &'static str>;

async fn cond_read(os: &dyn ObjectStore, k: &Path, o: GetOptions) -> (Verdict, Option<View>) {
    match os.get_opts(k, o).await {
        Ok(r) => {
            let m = r.meta.clone();
            match r.bytes().await {
                Ok(b) => (Ok(b.to_vec()), Some(View { size: m.size, etag: m.e_tag, lm: Some(m.last_modified), bytes: Some(b.to_vec()) })),
                Err(e) => (Err(err_kind(&e)), None),
            }
        }
        Err(e) => (Err(err_kind(&e)), None),
    }
}

fn wait_past(t: chrono::DateTime<chrono::Utc>) {
    // the next commit must carry a later timestamp than `t` at the wrappers' resolution (1 ms)
    while chrono::Utc::now().timestamp_millis() <= t.timestamp_millis() {
        std::thread::sleep(std::time::Duration::from_micros(100));
    }
}

/// The reference: the same conditional read on object_store's InMemory before and after the same writer.
async fn reference_verdicts(c: &Cond, writer: usize, v0: &[u8], v1: &[u8], other: &[u8]) -> (Verdict, Verdict) {
    let r = InMemory::new();
    let k = Path::from("k");
    r.put(&k, Bytes::from(v0.to_vec()).into()).await.unwrap();
    r.put(&Path::from("j"), Bytes::from(other.to_vec()).into()).await.unwrap();
    let m = r.head(&k).await.unwrap();
    let o = cond_options(c, m.e_tag.as_deref().unwrap_or(""), m.last_modified);
    let before = cond_read(&r, &k, o.clone()).await.0;
    wait_past(m.last_modified);
    match writer {
        0 | 2 => { r.put(&k, Bytes::from(v1.to_vec()).into()).await.unwrap(); }
        1 => { r.copy(&Path::from("j"), &k).await.unwrap(); }
        _ => { r.delete(&k).await.unwrap(); }
    }
    let after = cond_read(&r, &k, o).await.0;
    (before, after)
}

#[derive(Clone, Copy, Debug)]
enum Plan<'a> { Choices(&'a [usize]), Switch(usize, usize, usize) }

/// One run: key "k" was committed by an earlier instance (cold cache here); a reader and a writer of
/// "k" run through one wrapper instance under the given schedule; then everything the instance says about
/// "k" must be the acknowledged latest commit (the view of a fresh instance over the same backend).
async fn two_caller_run(kind: Kind, reader: usize, writer: usize, fail_cleanup: bool, post_writes: bool, plan: Plan<'_>) -> (Vec<usize>, (usize, usize), Option<Value>) {
    let mem = Arc::new(InMemory::new());
    let v0: Vec<u8> = (0..40u8).collect();
    let v1: Vec<u8> = (50..59u8).collect();
    let other: Vec<u8> = (7..30u8).collect();
    {
        let p0 = start(kind, mem.clone());
        p0.w.os().put(&Path::from("k"), Bytes::from(v0.clone()).into()).await.unwrap();
        p0.w.os().put(&Path::from("j"), Bytes::from(other.clone()).into()).await.unwrap();
    }
    let old_view = {
        let pc = start(kind, mem.clone());
        views(pc.w.os(), "k").await[1].1.clone()
    };
    let cond: Option<Cond> = if reader >= READERS.len() { Some(CONDS[reader - READERS.len()]) } else { None };
    let (tok_old, lm_old) = match &old_view { Some(v) => (v.etag.clone().unwrap_or_default(), v.lm.unwrap_or_default()), None => (String::new(), Default::default()) };
    if cond.is_some() {
        wait_past(lm_old);
    }
    let p = start(kind, mem.clone()); // cold metadata cache
    if fail_cleanup {
        // the best-effort reclaim of the replaced generation fails (it is left to collect_garbage)
        p.fault.push_rule(anda_object_store::FaultRule { op: anda_object_store::FaultOp::Delete, path_contains: Some("gen/".into()), skip: 0, times: 100, kind: anda_object_store::FaultKind::Error });
    }
    let sched = if post_writes { Sched::with_post_writes() } else { Sched::new() };
    *p.rec.sched.lock().unwrap() = Some(sched.clone());
    let w = p.w.clone();
    let v1w = v1.clone();
    let wtask = spawn_task(&sched, 1, async move {
        let os = w.os();
        let k = Path::from("k");
        let r: Result<Option<String>> = match writer {
            0 => os.put(&k, Bytes::from(v1w).into()).await.map(|r| r.e_tag),
            1 => os.copy(&Path::from("j"), &k).await.map(|_| None),
            2 => match os.put_multipart(&k).await {
                Ok(mut up) => match up.put_part(Bytes::from(v1w).into()).await {
                    Ok(()) => up.complete().await.map(|r| r.e_tag),
                    Err(e) => Err(e),
                },
                Err(e) => Err(e),
            },
            _ => os.delete(&k).await.map(|_| None),
        };
        r.map_err(|e| e.to_string())
    });
    let w2 = p.w.clone();
    let rtask = spawn_task(&sched, 0, async move {
        let os = w2.os();
        let k = Path::from("k");
        if let Some(c) = cond {
            let (verdict, view) = cond_read(os, &k, cond_options(&c, &tok_old, lm_old)).await;
            return (view, Some(verdict));
        }
        // what the reader saw of "k" (None = absent / error)
        let v: Option<View> = match reader {
            0 => os.list(None).try_collect::<Vec<ObjectMeta>>().await.ok().and_then(|l| l.into_iter().find(|m| m.location == k)).map(|m| View { size: m.size, etag: m.e_tag, lm: Some(m.last_modified), bytes: None }),
            1 => os.list_with_delimiter(None).await.ok().and_then(|r| r.objects.into_iter().find(|m| m.location == k)).map(|m| View { size: m.size, etag: m.e_tag, lm: Some(m.last_modified), bytes: None }),
            2 => os.list_with_offset(None, &Path::from("j")).try_collect::<Vec<ObjectMeta>>().await.ok().and_then(|l| l.into_iter().find(|m| m.location == k)).map(|m| View { size: m.size, etag: m.e_tag, lm: Some(m.last_modified), bytes: None }),
            3 => os.head(&k).await.ok().map(|m| View { size: m.size, etag: m.e_tag, lm: Some(m.last_modified), bytes: None }),
            4 => match os.get(&k).await {
                Ok(r) => {
                    let m = r.meta.clone();
                    r.bytes().await.ok().map(|b| View { size: m.size, etag: m.e_tag, lm: Some(m.last_modified), bytes: Some(b.to_vec()) })
                }
                Err(_) => None,
            },
            _ => os.get_ranges(&k, &[0..5]).await.ok().map(|b| View { size: 0, etag: None, lm: None, bytes: Some(b[0].to_vec()) }),
        };
        (v, None)
    });
    let mut switched = (0usize, 0usize);
    let branching = match plan {
        Plan::Choices(choices) => match sched.drive(2, choices).await {
            Ok(b) => b,
            Err(e) => return (vec![], switched, Some(json!({"class":"harness-nondeterminism","what":e}))),
        },
        Plan::Switch(first, n1, n2) => match sched.drive_switch(first, n1, n2).await {
            Ok(c) => { switched = c; vec![] }
            Err(e) => return (vec![], switched, Some(json!({"class":"harness-nondeterminism","what":e}))),
        },
    };
    let wres = wtask.await.unwrap();
    let (seen, seen_verdict): (Option<View>, Option<Verdict>) = rtask.await.unwrap();
    *p.rec.sched.lock().unwrap() = None;
    let trace = sched.trace();
    // the truth: a fresh instance over the same backend
    let pc = start(kind, mem.clone());
    let truth_all = views(pc.w.os(), "k").await;
    let truth = truth_all[1].1.clone();
    let mut fail: Option<Value> = None;
    let ctx = |what: &str, class: &str, d: Value| json!({"class":class,"what":what,"wrapper":kind.name(),"reader":reader_name(reader),"writer":WRITERS[writer],
        "cleanup_of_replaced_generation_fails":fail_cleanup,"cold_cache":true,"schedule":trace.clone(),"detail":d,"writer_result":format!("{wres:?}")});
    if wres.is_err() {
        fail = Some(ctx("a writer fails when a reader of the same key runs concurrently", "two-caller", json!(null)));
    }
    // expected final truth
    let want_bytes: Option<Vec<u8>> = match writer { 0 | 2 => Some(v1.clone()), 1 => Some(other.clone()), _ => None };
    if truth.as_ref().and_then(|t| t.bytes.clone()) != want_bytes && fail.is_none() {
        fail = Some(ctx("after both callers returned the key does not hold the acknowledged commit", "two-caller", json!({"cold_get": format!("{truth:?}")})));
    }
    if let (Ok(Some(tok)), Some(t)) = (&wres, &truth) {
        if t.etag.as_ref() != Some(tok) && fail.is_none() {
            fail = Some(ctx("the token the writer was given is not the token of the committed object", "two-caller", json!({"returned":tok,"committed":t.etag})));
        }
    }
    // (a) after the acknowledged commit the same instance never reports an older one: every API, one commit
    for (api, v) in views(p.w.os(), "k").await {
        let t = truth_all.iter().find(|x| x.0 == api).unwrap().1.clone();
        if !same_commit(&v, &t) && fail.is_none() {
            fail = Some(ctx("after an acknowledged commit the instance still reports an older commit (size / token / timestamp / bytes differ from what a fresh instance reads)",
                "stale-after-ack", json!({"api":api,"instance_says":format!("{v:?}"),"fresh_instance_says":format!("{t:?}")})));
        }
    }
    if let Some(t) = &truth {
        // a range valid for the committed object must be served
        let full = t.size;
        if full > 0 {
            match p.w.os().get_ranges(&Path::from("k"), &[0..full]).await {
                Ok(b) if Some(b[0].to_vec()) == t.bytes => {}
                other => if fail.is_none() {
                    fail = Some(ctx("get_ranges over the whole committed object is refused or returns other bytes", "stale-after-ack", json!({"range":[0, full],"result":format!("{:?}", other.map(|b| b[0].len()))})));
                }
            }
        }
    }
    // (c) a conditional read is answered against ONE commit: its answer (error kind, or bytes + token + size +
    //     timestamp) is what the reference gives for the same conditional read before the writer or after it
    if let (Some(c), Some(verdict)) = (&cond, &seen_verdict) {
        let (before, after) = reference_verdicts(c, writer, &v0, &v1, &other).await;
        let is = |commit: &Option<View>, want: &Verdict| -> bool {
            match (want, verdict, &seen, commit) {
                (Ok(wb), Ok(gb), Some(sv), Some(cv)) => (c.head || wb == gb) && sv.size == cv.size && sv.etag == cv.etag && sv.lm == cv.lm,
                (Err(we), Err(ge), _, _) => we == ge,
                _ => false,
            }
        };
        if !(is(&old_view, &before) || is(&truth, &after)) && fail.is_none() {
            fail = Some(ctx("a conditional read concurrent with a commit of the same key returned an answer that the reference store gives neither before nor after that commit (its preconditions were not evaluated on the commit it served)",
                "conditional-read-two-commits", json!({"options":format!("{:?}", cond_options(c, "token(old)", lm_old)),"answer":format!("{:?}", verdict.as_ref().map(|b| b.len())),"served":format!("{seen:?}"),
                    "reference_before_the_writer":format!("{:?}", before.as_ref().map(|b| b.len())),"reference_after_the_writer":format!("{:?}", after.as_ref().map(|b| b.len())),
                    "old_commit":format!("{old_view:?}"),"new_commit":format!("{truth:?}")})));
        }
    } else if reader <= 4 {
        if !(same_commit(&seen, &old_view) || same_commit(&seen, &truth) || seen.is_none()) && fail.is_none() {
            fail = Some(ctx("a concurrent reader saw a mixture of two commits", "two-caller", json!({"seen":format!("{seen:?}"),"old":format!("{old_view:?}"),"new":format!("{truth:?}")})));
        }
    } else if let Some(v) = &seen {
        let b = v.bytes.clone().unwrap_or_default();
        let okb = b == v0[0..5].to_vec() || want_bytes.as_ref().map(|w| w.len() >= 5 && b == w[0..5].to_vec()).unwrap_or(false);
        if !okb && fail.is_none() {
            fail = Some(ctx("a concurrent get_ranges returned bytes of neither commit", "two-caller", json!({"bytes":b})));
        }
    }
    (branching, switched, fail)
}

async fn two_callers(rng: &mut Rng, limit: usize, samples: usize, post_writes: bool, failures: &mut Vec<Value>, evaluations: &mut u64) -> (u64, u64, bool, u64) {
    let mut scenarios = 0u64;
    let mut runs = 0u64;
    let mut bounded_runs = 0u64;
    let mut exhaustive = true;
    for kind in [Kind::Meta, Kind::Enc(16)] {
        for reader in 0..READERS.len() + CONDS.len() {
            for writer in 0..WRITERS.len() {
                for fail_cleanup in [false, true] {
                    scenarios += 1;
                    let mut seen_fail = false;
                    let mut note = |fail: Option<Value>, failures: &mut Vec<Value>| {
                        if let Some(f) = fail {
                            if !seen_fail {
                                failures.push(f);
                            }
                            seen_fail = true;
                        }
                    };
                    // context-bounded schedules: one caller runs n1 backend steps, the other n2 steps (or to its end),
                    // then the first to its end: every schedule with at most one (quick) / two preemptions
                    for first in [0usize, 1] {
                        let mut n1 = 0usize;
                        loop {
                            let (_b, (c1, _), fail) = two_caller_run(kind, reader, writer, fail_cleanup, post_writes, Plan::Switch(first, n1, usize::MAX)).await;
                            runs += 1; bounded_runs += 1; *evaluations += 1;
                            note(fail, failures);
                            if c1 < n1 || n1 > 200 { break; }
                            if post_writes {
                                let mut n2 = 1usize;
                                loop {
                                    let (_b, (_, c2), fail) = two_caller_run(kind, reader, writer, fail_cleanup, post_writes, Plan::Switch(first, n1, n2)).await;
                                    runs += 1; bounded_runs += 1; *evaluations += 1;
                                    note(fail, failures);
                                    if c2 < n2 || n2 > 200 { break; }
                                    n2 += 1;
                                }
                            }
                            n1 += 1;
                        }
                    }
                    // depth-first over the whole choice tree (bounded), then random schedules
                    let mut choices: Vec<usize> = Vec::new();
                    let mut n = 0usize;
                    loop {
                        let (branching, _, fail) = two_caller_run(kind, reader, writer, fail_cleanup, post_writes, Plan::Choices(&choices)).await;
                        runs += 1;
                        n += 1;
                        *evaluations += 1;
                        note(fail, failures);
                        if !next_choices(&mut choices, &branching) {
                            break;
                        }
                        if n >= limit {
                            exhaustive = false;
                            for _ in 0..samples {
                                let ch: Vec<usize> = (0..60).map(|_| rng.below(3) as usize).collect();
                                let (_b, _, fail) = two_caller_run(kind, reader, writer, fail_cleanup, post_writes, Plan::Choices(&ch)).await;
                                runs += 1;
                                *evaluations += 1;
                                note(fail, failures);
                            }
                            break;
                        }
                    }
                }
            }
        }
    }
    (scenarios, runs, exhaustive, bounded_runs)
}

pub fn main(args: &[String]) {
    let out_path = arg_value(args, "--out").expect("--out");
    let seqs: usize = arg_value(args, "--seqs").and_then(|s| s.parse().ok()).unwrap_or(100);
    let rt = tokio::runtime::Builder::new_current_thread().enable_all().build().unwrap();
    let mut out = std::io::BufWriter::new(std::fs::File::create(&out_path).unwrap());
    rt.block_on(run(seqs, &mut out));
}

async fn refresh_side(os: &dyn ObjectStore, side: &mut Side, book: &Book) {
    side.lm.clear();
    for (k, (_, num)) in &book.cur {
        if let Ok(m) = os.head(&Path::from(k.as_str())).await {
            if let Some(e) = m.e_tag {
                side.num_to_etag.insert(*num, e);
            }
            side.lm.insert(k.clone(), m.last_modified);
        }
    }
}

async fn run(seqs: usize, out: &mut impl std::io::Write) {
    let mut rng = Rng::from_env();
    let kinds = [Kind::Meta, Kind::Enc(1), Kind::Enc(7), Kind::Enc(16), Kind::Enc(65536)];
    let mut failures: Vec<Value> = Vec::new();
    let mut evaluations = 0u64;
    let mut call_hist: BTreeMap<String, u64> = BTreeMap::new();
    let mut result_hist: BTreeMap<String, u64> = BTreeMap::new();
    let mut tolerated: BTreeMap<String, u64> = BTreeMap::new();
    let mut kind_hist: BTreeMap<String, u64> = BTreeMap::new();
    let mut cas_ok = 0u64;
    let mut cas_rejected = 0u64;
    let mut aba_rewrites = 0u64;
    let mut span_cases = 0u64;
    let mut pre_cases = 0u64;
    let mut nontrivial: Vec<Value> = Vec::new();

    for s in 0..seqs {
        let kind = kinds[s % kinds.len()];
        let cs = match kind { Kind::Meta => 16, Kind::Enc(c) => c };
        let mut r = rng.fork();
        let sizes = sizes_for(cs);
        let mut table: Vec<Vec<u8>> = sizes.iter().enumerate().map(|(i, l)| payload(i, *l)).collect();
        // two entries with identical bytes so that A -> B -> A rewrites of the same content occur
        table.push(table[1].clone());
        let ntable = table.len();
        let table_len: Vec<usize> = table.iter().map(|t| t.len()).collect();
        let calls = gen_calls(&mut r, cs, ntable, &table_len);
        *kind_hist.entry(kind.name()).or_default() += 1;
        let desc = |i: usize| json!({"seq": s, "wrapper": kind.name(), "call_index": i, "calls": calls.iter().take(i + 1).map(|c| format!("{c:?}")).collect::<Vec<_>>()});

        let mem = Arc::new(InMemory::new());
        let mut proc = start(kind, mem.clone());
        let reference = InMemory::new();
        let mut book = Book::default();
        let mut wside = Side { num_to_etag: HashMap::new(), lm: BTreeMap::new() };
        let mut rside = Side { num_to_etag: HashMap::new(), lm: BTreeMap::new() };
        let mut seen_tokens: HashSet<String> = HashSet::new();
        let mut hist_terms: Vec<Value> = Vec::new();
        let mut outcomes: Vec<Value> = Vec::new();
        let mut mutating_ops = 0usize;

        for (i, call) in calls.iter().enumerate() {
            *call_hist.entry(call_name(call).to_string()).or_default() += 1;
            if let Call::Restart = call {
                proc = start(kind, mem.clone()); // cold metadata cache over the same backend
                continue;
            }
            let tok = (i as u64) + 1;
            if let Call::Put { mode: PMode::Update(Tok::CurrentWithVersion), .. } = call {
                // documented absence of object versions: a version-conditioned update can never match
                let cx = Ctx { book: &book, table: &table };
                let rw = apply(proc.w.os(), call, &cx, &wside).await;
                evaluations += 1;
                if rw != Res::Err("Precondition") {
                    failures.push(json!({"class":"version-update","what":"an update conditioned on an object version was not refused","case":desc(i),"wrapper":format!("{rw:?}")}));
                }
                *tolerated.entry("version-conditioned update: refused by the wrapper (no versions), not sent to the reference".into()).or_default() += 1;
                continue;
            }
            if let Call::Rename { from, to, create } = call {
                if from == to {
                    // InMemory's rename onto itself is copy + delete and loses the object; the wrappers document
                    // "validate, leave the object untouched".  Checked on the wrapper alone.
                    let cx = Ctx { book: &book, table: &table };
                    let rw = apply(proc.w.os(), call, &cx, &wside).await;
                    evaluations += 1;
                    let want = if !book.cur.contains_key(from) { Res::Err("NotFound") } else if *create { Res::Err("AlreadyExists") } else { Res::Unit };
                    if rw != want {
                        failures.push(json!({"class":"self-rename","what":"rename onto itself does not follow the documented behaviour","case":desc(i),"wrapper":format!("{rw:?}"),"expected":format!("{want:?}")}));
                    }
                    *tolerated.entry("rename-onto-itself: wrapper keeps the object (documented), InMemory copy+delete loses it; not sent to the reference".into()).or_default() += 1;
                    hist_terms.push(tup(vec![json!(format!("g{i}")), n(tok), hop_term(call, &book, &table, None)]));
                    outcomes.push(outcome_term(&rw));
                    mutating_ops += 1;
                    continue;
                }
            }
            proc.rec.take_gets();
            let (rw, rr) = {
                let cx = Ctx { book: &book, table: &table };
                (apply(proc.w.os(), call, &cx, &wside).await, apply(&reference, call, &cx, &rside).await)
            };
            evaluations += 1;
            let gets = proc.rec.take_gets();
            *result_hist.entry(match &rw { Res::Err(k) => format!("err:{k}"), _ => "ok".into() }).or_default() += 1;

            // ---------------------------------------------------------------- compare with the reference
            let mut same = rw == rr;
            if !same {
                let tol = match (call, &rw, &rr) {
                    (Call::Delete { .. }, Res::Err("NotFound"), Res::Unit) => Some("delete-missing: wrapper NotFound, InMemory Ok"),
                    (Call::Put { mode: PMode::Update(Tok::Missing), .. }, Res::Err("Precondition"), Res::Err("Generic")) => Some("update-without-etag: wrapper Precondition, InMemory MissingETag"),
                    (Call::Rename { from, to, .. }, _, _) if from == to => Some("rename-onto-itself: wrapper keeps the object (documented), InMemory copy+delete loses it"),
                    (Call::Get { o, .. }, Res::Meta { size: a, .. }, Res::Obj { size: b, .. }) if o.head && a == b => Some("head-option"),
                    _ => None,
                };
                if let Some(t) = tol {
                    *tolerated.entry(t.to_string()).or_default() += 1;
                    same = true;
                    if let (Call::Rename { from, to, create }, _) = (call, 0) {
                        if from == to {
                            // documented behaviour of the wrapper on its own
                            let want = if !book.cur.contains_key(from) { Res::Err("NotFound") } else if *create { Res::Err("AlreadyExists") } else { Res::Unit };
                            if rw != want {
                                failures.push(json!({"class":"self-rename","what":"rename onto itself does not follow the documented behaviour","case":desc(i),"wrapper":format!("{rw:?}"),"expected":format!("{want:?}")}));
                            }
                            // keep the reference in step: InMemory lost the object, put it back
                            if let Some((pid, _)) = book.cur.get(from) {
                                if matches!(rr, Res::Unit) {
                                    reference.put(&Path::from(from.as_str()), Bytes::from(table[*pid].clone()).into()).await.unwrap();
                                }
                            }
                        }
                    }
                }
            }
            if !same {
                let class = match (call, &rw, &rr) {
                    (Call::GetRanges { k, ranges }, Res::Err("Generic"), Res::Ranges(_))
                        if book.cur.get(k).map(|(p, _)| ranges.iter().all(|(a, b)| a < b && *a < table[*p].len() as u64) && ranges.iter().any(|(_, b)| *b > table[*p].len() as u64)).unwrap_or(false) => "get-ranges-end-beyond-length",
                    (Call::GetRanges { k, ranges }, Res::Ranges(v), Res::Err("NotFound")) if ranges.is_empty() && v.is_empty() && !book.cur.contains_key(k) => "get-ranges-empty-on-missing-key",
                    _ => "conformance",
                };
                failures.push(json!({"class":class,"what":"the wrapper and the reference in-memory store return different results for the same call sequence",
                    "case":desc(i),"call":format!("{call:?}"),"wrapper":format!("{rw:?}"),"reference":format!("{rr:?}")}));
            }
            // bytes / token checks of successful reads are part of the normalised result; flag them separately
            match &rw {
                Res::Obj { bytes_ok: false, .. } => failures.push(json!({"class":"wrong-bytes","what":"a read returns bytes that are not the requested slice of the committed payload","case":desc(i),"call":format!("{call:?}"),"wrapper":format!("{rw:?}")})),
                Res::Obj { tok_ok: false, .. } | Res::Meta { tok_ok: false, .. } => failures.push(json!({"class":"token-inconsistent","what":"a read reports a token other than the one of the key's latest commit","case":desc(i),"call":format!("{call:?}")})),
                Res::Ranges(v) if v.iter().any(|x| !x.1) => failures.push(json!({"class":"wrong-bytes","what":"get_ranges returns bytes that are not the requested slices","case":desc(i),"call":format!("{call:?}"),"wrapper":format!("{rw:?}")})),
                Res::Listing(v) | Res::Delim { objects: v, .. } if v.iter().any(|x| !x.2) => failures.push(json!({"class":"token-inconsistent","what":"a listing reports a token other than the one of the key's latest commit","case":desc(i),"call":format!("{call:?}")})),
                _ => {}
            }

            // ---------------------------------------------------------------- model cases for reads
            if let (Call::Get { k, o }, Some((pid, num))) = (call, book.cur.get(match call { Call::Get { k, .. } => k.as_str(), _ => "" })) {
                let len = table[*pid].len() as u64;
                // preconditions
                let patv = |p: &Option<Pat>| match p {
                    None => Value::Null,
                    Some(p) => some(match pat_nums(p, &book, k) { None => ctor("TStar", vec![]), Some(v) => ctor("TList", vec![Value::Array(v.iter().map(|x| json!(*x)).collect())]) }),
                };
                let lm = wside.lm.get(k).map(|d| d.timestamp_millis()).unwrap_or(0);
                let dv = |d: &Option<i64>| match d { None => Value::Null, Some(d) => some(json!(lm + d)) };
                let obs = match &rw {
                    Res::Err("Precondition") => "PPrecondition",
                    Res::Err("NotModified") => "PNotModified",
                    _ => "POk",
                };
                let g = ctor("mkG", vec![patv(&o.if_match), patv(&o.if_none_match), dv(&o.if_modified_since), dv(&o.if_unmodified_since)]);
                let line = json!({"kind":"model","check":"pre","case": tup(vec![g, json!(*num), json!(lm), ctor(obs, vec![])])});
                writeln!(out, "{line}").unwrap();
                pre_cases += 1;
                // chunk span: what the encrypted wrapper asked the backend for
                if let (Kind::Enc(c), Res::Obj { range, .. }) = (kind, &rw) {
                    if range.1 > range.0 {
                        if let Some(g) = gets.iter().rev().find(|g| g.path.starts_with("gen/") && g.range.is_some()) {
                            let (a, b) = g.range.unwrap();
                            let line = json!({"kind":"model","check":"span","case": tup(vec![json!(c), json!(len), json!(range.0), json!(range.1), json!(a), json!(b)])});
                            writeln!(out, "{line}").unwrap();
                            span_cases += 1;
                        } else {
                            failures.push(json!({"class":"span-unobserved","what":"no ranged backend read observed for a non-empty encrypted read","case":desc(i)}));
                        }
                    }
                }
            }
            if let (Call::GetRanges { k, ranges }, Kind::Enc(c), Res::Ranges(_)) = (call, kind, &rw) {
                if let Some((pid, _)) = book.cur.get(k) {
                    let len = table[*pid].len() as u64;
                    // the first range always triggers a fetch
                    if let (Some((s0, e0)), Some(g)) = (ranges.first(), gets.iter().find(|g| g.path.starts_with("gen/") && g.range.is_some())) {
                        let (a, b) = g.range.unwrap();
                        let line = json!({"kind":"model","check":"span","case": tup(vec![json!(c), json!(len), json!(*s0), json!(*e0), json!(a), json!(b)])});
                        writeln!(out, "{line}").unwrap();
                        span_cases += 1;
                    }
                }
            }

            // ---------------------------------------------------------------- bookkeeping after mutating calls
            if is_mutating(call) {
                mutating_ops += 1;
                let ok = matches!(rw, Res::Put | Res::Unit);
                let mut cat_pid = None;
                if let Call::Multipart { pids, .. } = call {
                    let bytes: Vec<u8> = pids.iter().flat_map(|p| table[*p].clone()).collect();
                    table.push(bytes);
                    cat_pid = Some(table.len() - 1);
                }
                if let Call::Put { mode: PMode::Update(t), .. } = call {
                    if ok { cas_ok += 1 } else { cas_rejected += 1 }
                    let _ = t;
                }
                hist_terms.push(tup(vec![json!(format!("g{i}")), n(tok), hop_term(call, &book, &table, cat_pid)]));
                outcomes.push(outcome_term(&rw));
                if ok {
                    if let Call::Put { k, pid, .. } = call {
                        if let Some((old, _)) = book.cur.get(k) {
                            if table[*old] != table[*pid] && book.hist.get(k).map(|h| !h.is_empty()).unwrap_or(false) {
                                aba_rewrites += 1;
                            }
                        }
                    }
                    let mut cat = |_: &[usize]| cat_pid.unwrap();
                    book_apply(&mut book, call, tok, &mut cat);
                    refresh_side(proc.w.os(), &mut wside, &book).await;
                    refresh_side(&reference, &mut rside, &book).await;
                    // tokens never repeat: across commits and keys
                    let committed_key = match call {
                        Call::Put { k, .. } | Call::Multipart { k, .. } => Some(k.clone()),
                        Call::Copy { to, .. } => Some(to.clone()),
                        Call::Rename { from, to, .. } if from != to => Some(to.clone()),
                        _ => None,
                    };
                    if let Some(k) = committed_key {
                        evaluations += 1;
                        match wside.num_to_etag.get(&tok) {
                            Some(e) => {
                                if !seen_tokens.insert(e.clone()) {
                                    failures.push(json!({"class":"token-repeat","what":"a commit published a token that an earlier commit (of this or another key) already had","case":desc(i),"key":k,"token":e}));
                                }
                            }
                            None => failures.push(json!({"class":"token-inconsistent","what":"no token reported after a commit","case":desc(i),"key":k})),
                        }
                        // one (size, token, timestamp) per commit: head vs get vs list
                        let p = Path::from(k.as_str());
                        let h = proc.w.os().head(&p).await;
                        let g = proc.w.os().get(&p).await;
                        let l: Vec<ObjectMeta> = proc.w.os().list(None).try_collect().await.unwrap_or_default();
                        let lm = l.iter().find(|m| m.location == p);
                        if let (Ok(h), Ok(g), Some(l)) = (&h, &g, lm) {
                            let same = h.size == g.meta.size && h.size == l.size && h.e_tag == g.meta.e_tag && h.e_tag == l.e_tag
                                && h.last_modified == g.meta.last_modified && h.last_modified == l.last_modified;
                            if !same {
                                failures.push(json!({"class":"commit-view-inconsistent","what":"head, get and list disagree on size / token / timestamp of one commit","case":desc(i),"key":k,
                                    "head":format!("{h:?}"),"get":format!("{:?}", g.meta),"list":format!("{l:?}")}));
                            }
                        } else {
                            failures.push(json!({"class":"commit-view-inconsistent","what":"a committed key is missing from head / get / list","case":desc(i),"key":k}));
                        }
                    }
                }
            }
        }

        // ---------------------------------------------------------------- model case: the history of mutating calls
        let finals: Vec<Value> = KEYS.iter().map(|k| {
            let v = match book.cur.get(*k) {
                Some((pid, num)) => some(tup(vec![tup(vec![n(*pid as u64 + 1), n(table[*pid].len() as u64)]), n(*num)])),
                None => Value::Null,
            };
            tup(vec![json!(k), v])
        }).collect();
        // final reads through the wrapper agree with the bookkeeping
        for k in KEYS {
            let got = read_key(proc.w.os(), k).await;
            let want = match book.cur.get(k) { Some((pid, _)) => Read::Val(table[*pid].clone()), None => Read::Absent };
            evaluations += 1;
            if got != want {
                failures.push(json!({"class":"conformance","what":"final read differs from the reference bookkeeping","case":desc(calls.len() - 1),"key":k}));
            }
        }
        let line = json!({"kind":"model","check":"hist","seq":s,"nops":mutating_ops,
            "case": tup(vec![json!(kind.is_enc()), Value::Array(hist_terms), Value::Array(outcomes), Value::Array(finals)])});
        writeln!(out, "{line}").unwrap();
        if mutating_ops >= 3 {
            nontrivial.push(json!([s, mutating_ops]));
        }
    }

    let (tc_scenarios, tc_runs, tc_exhaustive, tc_bounded) = two_callers(&mut rng, if seqs >= 1000 { 2500 } else { 100 }, if seqs >= 1000 { 200 } else { 40 }, seqs >= 1000, &mut failures, &mut evaluations).await;
    let oracle_failures = failures.len();
    let mut per_class: BTreeMap<String, u64> = BTreeMap::new();
    failures.retain(|f| {
        let c = per_class.entry(f["class"].as_str().unwrap_or("").to_string()).or_default();
        *c += 1;
        *c <= 4
    });
    let summary = json!({"kind":"summary","sequences":seqs,"evaluations":evaluations,"calls":call_hist,"results":result_hist,
        "wrappers":kind_hist,"tolerated_divergences":tolerated,"cas_ok":cas_ok,"cas_rejected":cas_rejected,
        "rewrites_after_retired_token":aba_rewrites,"span_cases":span_cases,"pre_cases":pre_cases,"nontrivial":nontrivial,
        "two_caller_scenarios":tc_scenarios,"two_caller_schedules":tc_runs,"two_caller_exhaustive":tc_exhaustive,"two_caller_context_bounded_schedules":tc_bounded,"two_caller_conditional_readers":CONDS.len(),
        "oracle_failures":oracle_failures,"failure_classes":per_class,"failures":failures});
    writeln!(out, "{summary}").unwrap();
    out.flush().unwrap();
    eprintln!("c07: {seqs} sequences, {evaluations} evaluations, {oracle_failures} oracle failures");
}
