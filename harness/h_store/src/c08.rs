//! C08 — crash atomicity of wrapper writes and GC safety, on the real wrappers.
//!
//! For every generated operation sequence: one clean run (per-operation backend pre-state + recorded
//! mutation log -> judged by the Coq monitor `log_ok` and compared with the model's step list), then
//! one run per crash point k (FaultStore::crash_after_mutations(k)), a cold restart over the surviving
//! InMemory store and the direct oracle: every key reads, in full, the value before or after the
//! interrupted operation; listings agree with reads; a rename never loses both names; and
//! collect_garbage after the crash changes no read.
use crate::common::*;
use bytes::Bytes;
use futures::TryStreamExt;
use h_common::{Rng, arg_value, ctor, tup};
use object_store::{memory::InMemory, path::Path, *};
use serde::Serialize;
use serde_json::{Value, json};
use std::collections::BTreeMap;
use std::sync::Arc;

const KEYS: [&str; 4] = ["a", "a/b", "c", "d/e/f"];

#[derive(Clone, Debug)]
enum PMode {
    Overwrite,
    Create,
    UpdateCurrent,
    UpdateStale,
}

#[derive(Clone, Debug)]
enum Op {
    Put { k: String, data: Vec<u8>, mode: PMode },
    Mp { k: String, parts: Vec<Vec<u8>> },
    Copy { from: String, to: String, create: bool },
    Rename { from: String, to: String, create: bool },
    Delete { k: String },
    Gc,
}

fn op_json(op: &Op) -> Value {
    match op {
        Op::Put { k, data, mode } => json!({"op":"put","key":k,"len":data.len(),"mode":format!("{mode:?}")}),
        Op::Mp { k, parts } => json!({"op":"multipart","key":k,"parts":parts.iter().map(|p| p.len()).collect::<Vec<_>>()}),
        Op::Copy { from, to, create } => json!({"op":"copy","from":from,"to":to,"create":create}),
        Op::Rename { from, to, create } => json!({"op":"rename","from":from,"to":to,"create":create}),
        Op::Delete { k } => json!({"op":"delete","key":k}),
        Op::Gc => json!({"op":"collect_garbage"}),
    }
}

fn op_kind(op: &Op) -> &'static str {
    match op {
        Op::Put { .. } => "put",
        Op::Mp { .. } => "multipart",
        Op::Copy { .. } => "copy",
        Op::Rename { .. } => "rename",
        Op::Delete { .. } => "delete",
        Op::Gc => "gc",
    }
}

#[derive(Serialize)]
struct LegacyMetadata {
    s: u64,
    e: Option<String>,
    o: Option<String>,
    v: Option<String>,
}

fn rand_bytes(rng: &mut Rng, n: usize) -> Vec<u8> {
    (0..n).map(|_| rng.below(256) as u8).collect()
}

fn gen_payload(rng: &mut Rng, chunk: u64) -> Vec<u8> {
    let c = chunk.min(64) as usize; // boundaries of small chunk sizes; 64 KiB chunks get single-chunk objects
    let sizes = [0usize, 1, c.saturating_sub(1), c, c + 1, 2 * c, 2 * c + 3, 5, 33];
    let n = *rng.pick(&sizes);
    rand_bytes(rng, n)
}

/// Objects planted directly in the backend before the "process" starts: pre-0.10 legacy objects
/// (MetaStore), crash leftovers of an earlier process (orphan generations with old ids), an orphan
/// legacy payload and a foreign object under gen/.
fn gen_init(rng: &mut Rng, kind: Kind) -> (Vec<(String, Vec<u8>)>, BTreeMap<String, Vec<u8>>) {
    let mut objs = Vec::new();
    let mut logical = BTreeMap::new();
    for (i, k) in KEYS.iter().enumerate() {
        if kind == Kind::Meta && rng.chance(1, 3) {
            let len = *rng.pick(&[0usize, 1, 9, 20]);
            let data = rand_bytes(rng, len);
            let meta = LegacyMetadata { s: data.len() as u64, e: Some(sha3_b64(&[&data])), o: Some("0".into()), v: None };
            objs.push((format!("data/{k}"), data.clone()));
            objs.push((format!("meta/{k}"), cbor2::to_vec(&meta).unwrap()));
            logical.insert(k.to_string(), data);
        } else if rng.chance(1, 4) {
            objs.push((format!("data/{k}"), rand_bytes(rng, 4))); // orphan legacy payload
        }
        for j in 0..rng.below(3) {
            // leftovers: generation ids of the right shape, minted long ago
            let g = format!("{:016x}-{:08x}", 1000 + i as u64 * 10 + j, rng.below(1 << 32));
            objs.push((format!("gen/{k}/{g}"), rand_bytes(rng, 6)));
        }
    }
    if rng.chance(1, 2) {
        objs.push(("gen/c/not-a-generation".to_string(), vec![1, 2, 3]));
    }
    (objs, logical)
}

fn gen_ops(rng: &mut Rng, kind: Kind) -> Vec<Op> {
    let chunk = match kind {
        Kind::Meta => 16,
        Kind::Enc(c) => c,
    };
    let n = rng.range(3, 6) as usize;
    let mut ops = Vec::new();
    for _ in 0..n {
        let k = rng.pick(&KEYS).to_string();
        let k2 = rng.pick(&KEYS).to_string();
        let op = match rng.below(20) {
            0..=6 => Op::Put {
                k,
                data: gen_payload(rng, chunk),
                mode: match rng.below(10) {
                    0..=5 => PMode::Overwrite,
                    6 => PMode::Create,
                    7..=8 => PMode::UpdateCurrent,
                    _ => PMode::UpdateStale,
                },
            },
            7..=8 => {
                let np = rng.range(1, 3) as usize;
                Op::Mp { k, parts: (0..np).map(|_| gen_payload(rng, chunk)).collect() }
            }
            9..=11 => Op::Copy { from: k, to: k2, create: rng.chance(1, 4) },
            12..=14 => Op::Rename { from: k, to: k2, create: rng.chance(1, 4) },
            15..=17 => Op::Delete { k },
            _ => Op::Gc,
        };
        ops.push(op);
    }
    ops
}

/// Reference semantics of one operation on the logical map; returns whether it succeeds.
fn ref_apply(st: &mut BTreeMap<String, Vec<u8>>, op: &Op) -> bool {
    match op {
        Op::Put { k, data, mode } => {
            let ok = match mode {
                PMode::Overwrite => true,
                PMode::Create => !st.contains_key(k),
                PMode::UpdateCurrent => st.contains_key(k),
                PMode::UpdateStale => false,
            };
            if ok {
                st.insert(k.clone(), data.clone());
            }
            ok
        }
        Op::Mp { k, parts } => {
            st.insert(k.clone(), parts.concat());
            true
        }
        Op::Copy { from, to, create } => match st.get(from).cloned() {
            Some(v) if !(*create && st.contains_key(to)) => {
                st.insert(to.clone(), v);
                true
            }
            _ => false,
        },
        Op::Rename { from, to, create } => {
            if from == to {
                return st.contains_key(from) && !*create;
            }
            match st.get(from).cloned() {
                Some(v) if !(*create && st.contains_key(to)) => {
                    st.insert(to.clone(), v);
                    st.remove(from);
                    true
                }
                _ => false,
            }
        }
        Op::Delete { k } => st.remove(k).is_some(),
        Op::Gc => true,
    }
}

struct Tokens(BTreeMap<String, Vec<String>>);

async fn learn(os: &dyn ObjectStore, toks: &mut Tokens) {
    for k in KEYS {
        if let Ok(m) = os.head(&Path::from(k)).await {
            if let Some(e) = m.e_tag {
                let v = toks.0.entry(k.to_string()).or_default();
                if v.last() != Some(&e) {
                    v.push(e);
                }
            }
        }
    }
}

async fn exec_op(p: &Proc, op: &Op, toks: &Tokens) -> std::result::Result<(), String> {
    let os = p.w.os();
    let r: Result<()> = match op {
        Op::Put { k, data, mode } => {
            let mode = match mode {
                PMode::Overwrite => PutMode::Overwrite,
                PMode::Create => PutMode::Create,
                PMode::UpdateCurrent => {
                    let e = toks.0.get(k).and_then(|v| v.last().cloned()).unwrap_or_else(|| "bogus".into());
                    PutMode::Update(UpdateVersion { e_tag: Some(e), version: None })
                }
                PMode::UpdateStale => {
                    let e = toks.0.get(k).and_then(|v| if v.len() >= 2 { Some(v[v.len() - 2].clone()) } else { None }).unwrap_or_else(|| "bogus".into());
                    PutMode::Update(UpdateVersion { e_tag: Some(e), version: None })
                }
            };
            os.put_opts(&Path::from(k.as_str()), Bytes::from(data.clone()).into(), mode.into()).await.map(|_| ())
        }
        Op::Mp { k, parts } => match os.put_multipart(&Path::from(k.as_str())).await {
            Ok(mut up) => {
                let mut res = Ok(());
                for part in parts {
                    if let Err(e) = up.put_part(Bytes::from(part.clone()).into()).await {
                        res = Err(e);
                        break;
                    }
                }
                match res {
                    Ok(()) => up.complete().await.map(|_| ()),
                    Err(e) => Err(e),
                }
            }
            Err(e) => Err(e),
        },
        Op::Copy { from, to, create } => {
            let (f, t) = (Path::from(from.as_str()), Path::from(to.as_str()));
            if *create { os.copy_if_not_exists(&f, &t).await } else { os.copy(&f, &t).await }
        }
        Op::Rename { from, to, create } => {
            let (f, t) = (Path::from(from.as_str()), Path::from(to.as_str()));
            if *create { os.rename_if_not_exists(&f, &t).await } else { os.rename(&f, &t).await }
        }
        Op::Delete { k } => os.delete(&Path::from(k.as_str())).await,
        Op::Gc => {
            tokio::time::sleep(std::time::Duration::from_millis(2)).await;
            p.w.gc().await.map(|_| ())
        }
    };
    r.map_err(|e| format!("{}: {e}", err_kind(&e)))
}

async fn powered_off(p: &Proc) -> bool {
    // a read through the fault layer fails with the injected error once power is lost
    match p.w.os().head(&Path::from("zz-probe")).await {
        Err(Error::NotFound { .. }) => false,
        Err(e) => e.to_string().contains("injected fault"),
        Ok(_) => false,
    }
}

async fn plant(mem: &InMemory, init: &[(String, Vec<u8>)]) {
    for (p, b) in init {
        mem.put(&Path::from(p.as_str()), Bytes::from(b.clone()).into()).await.unwrap();
    }
}

struct OpRec {
    pre: BTreeMap<String, Bytes>,
    muts: Vec<Mut>,
    ok: bool,
    err: String,
    fault_count: u64,
}

fn touched_keys(op: &Op) -> Vec<String> {
    match op {
        Op::Put { k, .. } | Op::Mp { k, .. } | Op::Delete { k } => vec![k.clone()],
        Op::Copy { to, .. } => vec![to.clone()],
        Op::Rename { from, to, .. } => vec![from.clone(), to.clone()],
        Op::Gc => vec![],
    }
}

fn show(r: &Read) -> Value {
    match r {
        Read::Absent => json!("absent"),
        Read::Val(v) => json!({"len": v.len(), "head": v.iter().take(8).collect::<Vec<_>>()}),
        Read::Unreadable(e) => json!({"unreadable": e}),
    }
}

fn exp_read(st: &BTreeMap<String, Vec<u8>>, k: &str) -> Read {
    match st.get(k) {
        Some(v) => Read::Val(v.clone()),
        None => Read::Absent,
    }
}

/// ctx of the model's operation instance, read off the canonical log.
fn ctx_of(op: &Op, log: &Value) -> Value {
    let (key, src) = match op {
        Op::Put { k, .. } | Op::Mp { k, .. } | Op::Delete { k } => (k.clone(), k.clone()),
        Op::Copy { from, to, .. } | Op::Rename { from, to, .. } => (to.clone(), from.clone()),
        Op::Gc => (String::new(), String::new()),
    };
    let mut g = json!("g?");
    let mut val = tup(vec![n(0), n(0)]);
    let mut tok = n(0);
    for st in log.as_array().unwrap() {
        let c = st["c"].as_str().unwrap();
        let a = st["a"].as_array().unwrap();
        let target = if c == "LCopy" { &a[1] } else { &a[0] };
        if target["c"] == "PGen" && g == json!("g?") && c != "LDel" {
            g = target["a"][1].clone();
            if c == "LPut" {
                val = a[1]["a"][0].clone();
            }
        }
        if c == "LPut" && target["c"] == "PMeta" && a[1]["c"] == "OMeta" {
            tok = a[1]["a"][0]["a"][2].clone();
        }
    }
    ctor("mkCtx", vec![json!(key), g, val, tok, json!(src)])
}


/// GC racing in-process writers: one or two writers are parked right before their pointer switch
/// (payload / copied generation already on the backend, nothing references it yet), collect_garbage
/// runs to completion, then the writers are released.  Every written key must read its new value.
async fn gc_races(rng: &mut Rng, rounds: usize, failures: &mut Vec<Value>, evaluations: &mut u64) -> (u64, u64) {
    let kinds = [Kind::Meta, Kind::Enc(7), Kind::Enc(16)];
    let mut scenarios = 0u64;
    let mut gc_deleted = 0u64;
    for round in 0..rounds {
        for kind in kinds {
            for nwriters in 1..=2usize {
                for shape in 0..4usize {
                    scenarios += 1;
                    let mem = Arc::new(InMemory::new());
                    let (init, _) = gen_init(rng, Kind::Enc(1)); // orphans only
                    plant(&mem, &init).await;
                    let p = start(kind, mem.clone());
                    let os = p.w.os();
                    let base = rand_bytes(rng, 9);
                    os.put(&Path::from("a"), Bytes::from(base.clone()).into()).await.unwrap();
                    os.put(&Path::from("c"), Bytes::from(base.clone()).into()).await.unwrap();
                    let gate = Gate::new("meta/", nwriters);
                    *p.rec.gate.lock().unwrap() = Some(gate.clone());
                    let mut handles = Vec::new();
                    let mut expect: Vec<(String, Vec<u8>)> = Vec::new();
                    for wi in 0..nwriters {
                        let w = p.w.clone();
                        let data = rand_bytes(rng, 5 + wi + shape);
                        // writer 0: the scenario's shape; writer 1: a put on another key
                        let (target, val, kindname) = if wi == 1 { ("d/e/f".to_string(), data.clone(), 0) } else {
                            match shape {
                                0 => ("a".to_string(), data.clone(), 0),       // overwrite
                                1 => ("a/b".to_string(), data.clone(), 0),     // new key
                                2 => ("a/b".to_string(), base.clone(), 1),     // copy a -> a/b
                                _ => ("a".to_string(), data.clone(), 2),       // multipart overwrite
                            }
                        };
                        expect.push((target.clone(), val.clone()));
                        handles.push(tokio::spawn(async move {
                            let os = w.os();
                            let r: Result<()> = match kindname {
                                0 => os.put(&Path::from(target.as_str()), Bytes::from(data).into()).await.map(|_| ()),
                                1 => os.copy(&Path::from("a"), &Path::from(target.as_str())).await,
                                _ => match os.put_multipart(&Path::from(target.as_str())).await {
                                    Ok(mut up) => match up.put_part(Bytes::from(data).into()).await {
                                        Ok(()) => up.complete().await.map(|_| ()),
                                        Err(e) => Err(e),
                                    },
                                    Err(e) => Err(e),
                                },
                            };
                            r.map_err(|e| e.to_string())
                        }));
                    }
                    // all writers are parked at their pointer switch
                    match tokio::time::timeout(std::time::Duration::from_secs(20), gate.entered.acquire_many(nwriters as u32)).await {
                        Ok(Ok(permit)) => permit.forget(),
                        _ => {
                            failures.push(json!({"class":"harness-nondeterminism","what":"writers did not reach their pointer switch","wrapper":kind.name(),"shape":shape}));
                            gate.release.add_permits(nwriters);
                            continue;
                        }
                    }
                    tokio::time::sleep(std::time::Duration::from_millis(2)).await;
                    match p.w.gc().await {
                        Ok(nd) => gc_deleted += nd as u64,
                        Err(e) => failures.push(json!({"class":"gc-failed","what":"collect_garbage fails while writers are in flight","error":e.to_string()})),
                    }
                    gate.release.add_permits(nwriters);
                    for h in handles {
                        if let Ok(Err(e)) = h.await {
                            failures.push(json!({"class":"gc-race","what":"a writer fails after collect_garbage ran during its commit","error":e,"wrapper":kind.name(),"shape":shape,"writers":nwriters}));
                        }
                    }
                    *p.rec.gate.lock().unwrap() = None;
                    let p2 = start(kind, mem.clone());
                    let shape_name = ["put-overwrite", "put-new", "copy", "multipart"][shape];
                    for (k, v) in &expect {
                        *evaluations += 1;
                        let got = read_key(p2.w.os(), k).await;
                        if got != Read::Val(v.clone()) {
                            failures.push(json!({"class":"gc-race","what":"collect_garbage, run while a writer was between its payload write and its pointer switch, removed the payload the key now points at",
                                "wrapper":kind.name(),"round":round,"writers":nwriters,"shape":shape_name,"key":k,"read":show(&got),"expected_len":v.len()}));
                        }
                    }
                    *evaluations += 1;
                    if read_key(p2.w.os(), "c").await != Read::Val(base.clone()) {
                        failures.push(json!({"class":"gc-race","what":"an untouched key changed during a GC race","wrapper":kind.name()}));
                    }
                }
            }
        }
    }
    (scenarios, gc_deleted)
}

/// One run of a GC-vs-writer scenario under a given schedule.  Returns (branching, trace, failure).
async fn gc_schedule_run(kind: Kind, shape: usize, orphan: bool, choices: &[usize]) -> (Vec<usize>, Vec<String>, Option<Value>) {
    const SHAPES: [&str; 6] = ["put-new", "put-overwrite", "copy-new", "copy-overwrite", "multipart-new", "delete"];
    let mem = Arc::new(InMemory::new());
    if orphan {
        // a leftover of an earlier process under the key the writer is about to create
        plant(&mem, &[("gen/a/b/00000000000003e8-0000000a".to_string(), vec![9, 9, 9])]).await;
    }
    let p = start(kind, mem.clone());
    let base: Vec<u8> = (0..21u8).collect();
    let newv: Vec<u8> = (100..133u8).collect();
    p.w.os().put(&Path::from("c"), Bytes::from(base.clone()).into()).await.unwrap();
    p.w.os().put(&Path::from("d"), Bytes::from(base.clone()).into()).await.unwrap();
    let sched = Sched::new();
    *p.rec.sched.lock().unwrap() = Some(sched.clone());
    let (target, expect): (&str, Option<Vec<u8>>) = match shape {
        0 => ("a/b", Some(newv.clone())),
        1 => ("c", Some(newv.clone())),
        2 => ("a/b", Some(base.clone())),
        3 => ("d", Some(base.clone())),
        4 => ("a/b", Some(newv.clone())),
        _ => ("d", None),
    };
    let w = p.w.clone();
    let nv = newv.clone();
    let writer = spawn_task(&sched, 0, async move {
        let os = w.os();
        let t = Path::from(target);
        let r: Result<()> = match shape {
            0 | 1 => os.put(&t, Bytes::from(nv).into()).await.map(|_| ()),
            2 | 3 => os.copy(&Path::from("c"), &t).await,
            4 => match os.put_multipart(&t).await {
                Ok(mut up) => match up.put_part(Bytes::from(nv).into()).await {
                    Ok(()) => up.complete().await.map(|_| ()),
                    Err(e) => Err(e),
                },
                Err(e) => Err(e),
            },
            _ => os.delete(&t).await,
        };
        r.map_err(|e| e.to_string())
    });
    // the writer has minted its generation and is parked at its first backend call; the collection starts later
    sched.quiesce(1).await;
    tokio::time::sleep(std::time::Duration::from_millis(2)).await;
    let w2 = p.w.clone();
    let gc = spawn_task(&sched, 1, async move { w2.gc().await.map_err(|e| e.to_string()) });
    let branching = match sched.drive(2, choices).await {
        Ok(b) => b,
        Err(e) => return (vec![], sched.trace(), Some(json!({"class":"harness-nondeterminism","what":e}))),
    };
    let wres = writer.await.unwrap();
    let gres = gc.await.unwrap();
    *p.rec.sched.lock().unwrap() = None;
    let trace = sched.trace();
    let mut fail = None;
    let mut flag = |what: &str, extra: Value| {
        if fail.is_none() {
            fail = Some(json!({"class":"gc-race-schedule","what":what,"wrapper":kind.name(),"writer":SHAPES[shape],"orphan_planted":orphan,
                "schedule":trace.clone(),"detail":extra,"writer_result":format!("{wres:?}"),"gc_result":format!("{gres:?}")}));
        }
    };
    if wres.is_err() || gres.is_err() {
        flag("a writer or the collector fails when they run concurrently", json!(null));
    }
    // every committed key reads its committed bytes: warm (same instance) and after a cold restart
    let mut want: BTreeMap<String, Vec<u8>> = BTreeMap::new();
    want.insert("c".into(), base.clone());
    want.insert("d".into(), base.clone());
    match &expect {
        Some(v) => {
            want.insert(target.to_string(), v.clone());
        }
        None => {
            want.remove(target);
        }
    }
    let p2 = start(kind, mem.clone());
    for (label, os) in [("warm", p.w.os()), ("cold", p2.w.os())] {
        for k in ["a/b", "c", "d"] {
            let got = read_key(os, k).await;
            let exp = match want.get(k) { Some(v) => Read::Val(v.clone()), None => Read::Absent };
            if got != exp {
                flag("after collect_garbage ran concurrently with a writer, a committed key does not read its committed bytes",
                     json!({"key":k,"instance":label,"read":show(&got),"expected":show(&exp)}));
            }
        }
    }
    if let Ok(listed) = p2.w.os().list(None).try_collect::<Vec<ObjectMeta>>().await {
        for m in listed {
            if !matches!(read_key(p2.w.os(), m.location.as_ref()).await, Read::Val(_)) {
                flag("a listed key cannot be read after a GC race", json!({"key":m.location.to_string()}));
            }
        }
    }
    (branching, trace, fail)
}

/// All interleavings (depth-first, up to `limit` per scenario, then `samples` random ones) of the backend
/// steps of one writer with the backend steps of collect_garbage (mark listing, per-key reads, gen/ and
/// data/ listings, re-checks, deletes).
async fn gc_schedules(rng: &mut Rng, limit: usize, samples: usize, failures: &mut Vec<Value>, evaluations: &mut u64) -> (u64, u64, bool) {
    let mut schedules = 0u64;
    let mut scenarios = 0u64;
    let mut exhaustive = true;
    for kind in [Kind::Meta, Kind::Enc(16)] {
        for shape in 0..6usize {
            for orphan in [false, true] {
                if orphan && shape != 0 {
                    continue;
                }
                scenarios += 1;
                let mut choices: Vec<usize> = Vec::new();
                let mut n = 0usize;
                let mut seen_fail = false;
                loop {
                    let (branching, _trace, fail) = gc_schedule_run(kind, shape, orphan, &choices).await;
                    schedules += 1;
                    *evaluations += 1;
                    n += 1;
                    if let Some(f) = fail {
                        if !seen_fail {
                            failures.push(f);
                        }
                        seen_fail = true;
                    }
                    if !next_choices(&mut choices, &branching) {
                        break;
                    }
                    if n >= limit {
                        exhaustive = false;
                        // random schedules for the rest of the tree
                        for _ in 0..samples {
                            let ch: Vec<usize> = (0..40).map(|_| rng.below(2) as usize).collect();
                            let (_b, _t, fail) = gc_schedule_run(kind, shape, orphan, &ch).await;
                            schedules += 1;
                            *evaluations += 1;
                            if let Some(f) = fail {
                                if !seen_fail {
                                    failures.push(f);
                                }
                                seen_fail = true;
                            }
                        }
                        break;
                    }
                }
            }
        }
    }
    (scenarios, schedules, exhaustive)
}

pub fn main(args: &[String]) {
    let out_path = arg_value(args, "--out").expect("--out");
    let seqs: usize = arg_value(args, "--seqs").and_then(|s| s.parse().ok()).unwrap_or(60);
    let rt = tokio::runtime::Builder::new_current_thread().enable_all().build().unwrap();
    let mut out = std::io::BufWriter::new(std::fs::File::create(&out_path).unwrap());
    rt.block_on(run(seqs, &mut out));
}

async fn run(seqs: usize, out: &mut impl std::io::Write) {
    let mut rng = Rng::from_env();
    let kinds = [Kind::Meta, Kind::Enc(1), Kind::Enc(7), Kind::Meta, Kind::Enc(16), Kind::Enc(65536)];
    let mut failures: Vec<Value> = Vec::new();
    let mut crash_points = 0u64;
    let mut evaluations = 0u64;
    let mut gc_deleted = 0u64;
    let mut gc_runs = 0u64;
    let mut op_hist: BTreeMap<String, u64> = BTreeMap::new();
    let mut kind_hist: BTreeMap<String, u64> = BTreeMap::new();
    let mut interrupted_hist: BTreeMap<String, u64> = BTreeMap::new();
    let mut outcome_hist: BTreeMap<String, u64> = BTreeMap::new(); // old / new / same
    let mut legacy_migrations = 0u64;
    let mut model_cases = 0u64;
    let mut nontrivial: Vec<Value> = Vec::new();

    for s in 0..seqs {
        let kind = kinds[s % kinds.len()];
        let mut r = rng.fork();
        let (init, logical0) = gen_init(&mut r, kind);
        let ops = gen_ops(&mut r, kind);
        *kind_hist.entry(kind.name()).or_default() += 1;
        let desc = json!({"seq": s, "wrapper": kind.name(),
            "init": init.iter().map(|(p, b)| json!([p, b.len()])).collect::<Vec<_>>(),
            "ops": ops.iter().map(op_json).collect::<Vec<_>>()});

        // ------------------------------------------------------------ reference states
        let mut states = vec![logical0.clone()];
        let mut expect_ok = Vec::new();
        for op in &ops {
            let mut st = states.last().unwrap().clone();
            expect_ok.push(ref_apply(&mut st, op));
            states.push(st);
        }

        // ------------------------------------------------------------ clean run
        let mem = Arc::new(InMemory::new());
        plant(&mem, &init).await;
        let p = start(kind, mem.clone());
        let mut toks = Tokens(BTreeMap::new());
        learn(p.w.os(), &mut toks).await;
        let mut recs: Vec<OpRec> = Vec::new();
        let mut cum = vec![0u64];
        for (i, op) in ops.iter().enumerate() {
            *op_hist.entry(op_kind(op).to_string()).or_default() += 1;
            let pre = dump(&mem).await;
            p.rec.take_muts();
            let before = p.fault.mutation_count();
            let flog_before = p.fault.mutation_log().len();
            let res = exec_op(&p, op, &toks).await;
            let muts = p.rec.take_muts();
            let after = p.fault.mutation_count();
            // FaultStore's own log must tell the same story as the recording layer
            let flog: Vec<(String, String)> = p.fault.mutation_log()[flog_before..].iter().map(|(o, pth)| (format!("{o:?}"), pth.clone())).collect();
            let mine: Vec<(String, String)> = muts.iter().filter(|m| !matches!(m, Mut::MpComplete { .. })).map(|m| { let (a, b) = mut_path(m); (a.to_string(), b) }).collect();
            // FaultStore logs attempted deletes of missing objects too (InMemory delete is idempotent): compare as sequences
            if flog != mine {
                failures.push(json!({"class":"log-mismatch","what":"FaultStore::mutation_log and the recording layer disagree","case":desc,"op":i,"fault_log":flog,"recorded":mine}));
            }
            learn(p.w.os(), &mut toks).await;
            evaluations += 1;
            if res.is_ok() != expect_ok[i] {
                failures.push(json!({"class":"sequential-semantics","what":"operation outcome differs from the reference map","case":desc,"op":i,"observed":format!("{res:?}"),"expected_ok":expect_ok[i]}));
            }
            if pre.keys().any(|k| k.starts_with("data/")) && !dump(&mem).await.keys().any(|k| k == &format!("data/{}", touched_keys(op).first().cloned().unwrap_or_default())) && res.is_ok() && pre.contains_key(&format!("data/{}", touched_keys(op).first().cloned().unwrap_or_default())) {
                legacy_migrations += 1;
            }
            cum.push(after);
            recs.push(OpRec { pre, muts, ok: res.is_ok(), err: res.err().unwrap_or_default(), fault_count: after - before });
        }
        // final reads of the clean run
        for k in KEYS {
            let got = read_key(p.w.os(), k).await;
            evaluations += 1;
            if got != exp_read(states.last().unwrap(), k) {
                failures.push(json!({"class":"sequential-semantics","what":"final read differs from the reference map","case":desc,"key":k,"observed":show(&got),"expected":show(&exp_read(states.last().unwrap(), k))}));
            }
        }
        let total = *cum.last().unwrap();

        // ------------------------------------------------------------ model cases from the clean run
        let mut canon = Canon::new(kind.is_enc(), match kind { Kind::Enc(c) => c, _ => 0 });
        let mut clean_full_log: Vec<Value> = Vec::new();
        {
            let mut c2 = Canon::new(kind.is_enc(), match kind { Kind::Enc(c) => c, _ => 0 });
            let mut stt: BTreeMap<String, Bytes> = init.iter().map(|(p, b)| (p.clone(), Bytes::from(b.clone()))).collect();
            let _ = c2.state(&stt);
            for rec in &recs {
                let l = c2.log(&rec.muts, &mut stt);
                clean_full_log.extend(l.as_array().unwrap().iter().cloned());
            }
        }
        for (i, (op, rec)) in ops.iter().zip(recs.iter()).enumerate() {
            let pre_t = canon.state(&rec.pre);
            let mut stt = rec.pre.clone();
            let log_t = canon.log(&rec.muts, &mut stt);
            let line = json!({"kind":"model","check":"log","seq":s,"op":i,"case": tup(vec![pre_t.clone(), log_t.clone()])});
            writeln!(out, "{line}").unwrap();
            model_cases += 1;
            if rec.ok && !matches!(op, Op::Gc) {
                let opk = match op {
                    Op::Put { .. } => "OpPut",
                    Op::Mp { .. } => "OpMp",
                    Op::Copy { .. } => "OpCopy",
                    Op::Rename { from, to, .. } if from == to => continue,
                    Op::Rename { .. } => "OpRename",
                    Op::Delete { .. } => "OpDelete",
                    Op::Gc => unreachable!(),
                };
                let ctx = ctx_of(op, &log_t);
                let case = tup(vec![json!(kind.is_enc()), ctor(opk, vec![]), pre_t, ctx, log_t]);
                let line = json!({"kind":"model","check":"op","seq":s,"op":i,"opkind":op_kind(op),"nmut":rec.muts.len(),"case":case});
                writeln!(out, "{line}").unwrap();
                model_cases += 1;
            }
            let _ = &rec.err;
            let _ = rec.fault_count;
        }

        // ------------------------------------------------------------ one run per crash point
        for c in 0..total {
            crash_points += 1;
            let i = (0..ops.len()).find(|&i| cum[i] <= c && c < cum[i + 1]).unwrap();
            *interrupted_hist.entry(op_kind(&ops[i]).to_string()).or_default() += 1;
            let mem = Arc::new(InMemory::new());
            plant(&mem, &init).await;
            let p = start(kind, mem.clone());
            p.fault.crash_after_mutations(c);
            let mut toks = Tokens(BTreeMap::new());
            learn(p.w.os(), &mut toks).await;
            let mut all_muts: Vec<Mut> = Vec::new();
            for (j, op) in ops.iter().enumerate().take(i + 1) {
                if j == i && powered_off(&p).await {
                    failures.push(json!({"class":"harness-nondeterminism","what":"power lost before the expected operation","case":desc,"crash_after":c,"op":i}));
                }
                let _ = exec_op(&p, op, &toks).await;
                all_muts.extend(p.rec.take_muts());
                if j < i {
                    learn(p.w.os(), &mut toks).await;
                }
            }
            if !powered_off(&p).await {
                failures.push(json!({"class":"harness-nondeterminism","what":"power not lost in the expected operation","case":desc,"crash_after":c,"op":i}));
                continue;
            }
            // the mutations that reached the backend are a prefix of the clean run's
            {
                let mut c3 = Canon::new(kind.is_enc(), match kind { Kind::Enc(cc) => cc, _ => 0 });
                let mut stt: BTreeMap<String, Bytes> = init.iter().map(|(p, b)| (p.clone(), Bytes::from(b.clone()))).collect();
                let _ = c3.state(&stt);
                let l = c3.log(&all_muts, &mut stt);
                let l = l.as_array().unwrap();
                let is_prefix = l.len() <= clean_full_log.len() && l.iter().zip(clean_full_log.iter()).all(|(a, b)| {
                    // contents of documents differ by e_tag / timestamps; compare operation and path
                    a["c"] == b["c"] && a["a"][0] == b["a"][0]
                });
                evaluations += 1;
                if !is_prefix {
                    failures.push(json!({"class":"crash-log-not-prefix","what":"mutations before the crash are not a prefix of the clean run's","case":desc,"crash_after":c}));
                }
            }
            drop(p);
            // cold restart over the surviving backend
            let p2 = start(kind, mem.clone());
            let (old, new) = (&states[i], &states[i + 1]);
            if old != new {
                nontrivial.push(json!([s, c]));
            }
            let mut reads = BTreeMap::new();
            for k in KEYS {
                let got = read_key(p2.w.os(), k).await;
                evaluations += 1;
                let (eo, en) = (exp_read(old, k), exp_read(new, k));
                if got != eo && got != en {
                    failures.push(json!({"class":"crash-atomicity","what":"after a crash and cold restart a key reads neither the old nor the new value",
                        "case":desc,"crash_after":c,"interrupted_op":i,"key":k,"observed":show(&got),"old":show(&eo),"new":show(&en)}));
                } else if eo == en {
                    *outcome_hist.entry("same".into()).or_default() += 1;
                } else if got == eo {
                    *outcome_hist.entry("old".into()).or_default() += 1;
                } else {
                    *outcome_hist.entry("new".into()).or_default() += 1;
                }
                reads.insert(k.to_string(), got);
            }
            if let Op::Rename { from, to, .. } = &ops[i] {
                if from != to && old.contains_key(from) && expect_ok[i] && reads[from] == Read::Absent && reads[to] == Read::Absent {
                    failures.push(json!({"class":"rename-lost-both","what":"after a crash inside rename neither name exists","case":desc,"crash_after":c,"interrupted_op":i}));
                }
            }
            // listings vs reads, head vs reads
            match p2.w.os().list(None).try_collect::<Vec<ObjectMeta>>().await {
                Ok(listed) => {
                    evaluations += 1;
                    for m in &listed {
                        let k = m.location.to_string();
                        match reads.get(&k) {
                            Some(Read::Val(v)) if v.len() as u64 == m.size => {}
                            other => failures.push(json!({"class":"listed-unreadable","what":"a listed key does not read back in full with the listed size",
                                "case":desc,"crash_after":c,"key":k,"listed_size":m.size,"read":other.map(show)})),
                        }
                    }
                    for (k, r) in &reads {
                        if matches!(r, Read::Val(_)) && !listed.iter().any(|m| m.location.as_ref() == k) {
                            failures.push(json!({"class":"readable-unlisted","what":"a readable key is missing from the listing","case":desc,"crash_after":c,"key":k}));
                        }
                    }
                }
                Err(e) => failures.push(json!({"class":"listed-unreadable","what":"listing fails after a crash","case":desc,"crash_after":c,"error":e.to_string()})),
            }
            for k in KEYS {
                if let Read::Val(v) = &reads[k] {
                    match p2.w.os().head(&Path::from(k)).await {
                        Ok(m) if m.size == v.len() as u64 => {}
                        other => failures.push(json!({"class":"head-read-mismatch","what":"head and get disagree after a crash","case":desc,"crash_after":c,"key":k,"head":format!("{other:?}")})),
                    }
                }
            }
            // garbage collection after the crash must not change any read
            tokio::time::sleep(std::time::Duration::from_millis(2)).await;
            let pre_gc = dump(&mem).await;
            p2.rec.take_muts();
            match p2.w.gc().await {
                Ok(nd) => {
                    gc_runs += 1;
                    gc_deleted += nd as u64;
                }
                Err(e) => failures.push(json!({"class":"gc-failed","what":"collect_garbage fails after a crash","case":desc,"crash_after":c,"error":e.to_string()})),
            }
            let gc_muts = p2.rec.take_muts();
            let p3 = start(kind, mem.clone());
            for k in KEYS {
                let got = read_key(p3.w.os(), k).await;
                evaluations += 1;
                if got != reads[k] {
                    failures.push(json!({"class":"gc-changed-read","what":"collect_garbage after a crash changed what a key reads",
                        "case":desc,"crash_after":c,"key":k,"before":show(&reads[k]),"after":show(&got)}));
                }
            }
            if c % 8 == 0 {
                let mut cg = Canon::new(kind.is_enc(), match kind { Kind::Enc(cc) => cc, _ => 0 });
                let pre_t = cg.state(&pre_gc);
                let mut stt = pre_gc.clone();
                let log_t = cg.log(&gc_muts, &mut stt);
                let line = json!({"kind":"model","check":"gclog","seq":s,"crash_after":c,"case": tup(vec![pre_t, log_t])});
                writeln!(out, "{line}").unwrap();
                model_cases += 1;
            }
        }
    }

    let race_rounds = if seqs >= 500 { 20 } else { 3 };
    let (race_scenarios, race_deleted) = gc_races(&mut rng, race_rounds, &mut failures, &mut evaluations).await;
    let (sched_limit, sched_samples) = if seqs >= 500 { (6000, 500) } else { (120, 80) };
    let (sched_scenarios, sched_runs, sched_exhaustive) = gc_schedules(&mut rng, sched_limit, sched_samples, &mut failures, &mut evaluations).await;
    let oracle_failures = failures.len();
    let mut per_class: BTreeMap<String, u64> = BTreeMap::new();
    failures.retain(|f| {
        let c = per_class.entry(f["class"].as_str().unwrap_or("").to_string()).or_default();
        *c += 1;
        *c <= 4
    });
    let summary = json!({"kind":"summary","sequences":seqs,"crash_points":crash_points,"evaluations":evaluations,
        "model_cases":model_cases,"gc_runs_after_crash":gc_runs,"gc_deleted_after_crash":gc_deleted,
        "legacy_migrations":legacy_migrations,"nontrivial":nontrivial,"gc_race_scenarios":race_scenarios,"gc_schedule_scenarios":sched_scenarios,"gc_schedules":sched_runs,"gc_schedules_exhaustive":sched_exhaustive,"gc_deleted_during_races":race_deleted,
        "ops":op_hist,"wrappers":kind_hist,"interrupted":interrupted_hist,"outcomes":outcome_hist,
        "oracle_failures":oracle_failures,"failure_classes":per_class,"failures":failures});
    writeln!(out, "{summary}").unwrap();
    out.flush().unwrap();
    eprintln!("c08: {seqs} sequences, {crash_points} crash points, {evaluations} evaluations, {oracle_failures} oracle failures");
}
