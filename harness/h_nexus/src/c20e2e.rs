//! C20 end-to-end — the belief projection through the public API of a real
//! CognitiveNexus over an in-memory object store.
//!
//! A scenario is a multiset of logical assertions about a target proposition and
//! its rivals (same subject and predicate, other object).  Every scenario is
//! recorded into a fresh Nexus in several recording orders, then
//! `FIND(?b) WHERE { ... ?b BELIEF (?p) }` is asked in several variants
//! (`FOR TIME`, `WITH EPISTEMIC {...}`).  Checked here (direct oracles):
//!   (a) the answer does not depend on the recording order,
//!   (b) the answer equals an independent reading of the property (eligibility,
//!       union-find components, maxima, score over sorted maxima, classification).
//! Emitted for the Coq model (`check_e2e` in Belief/Run.v): one case per projection.
use anda_cognitive_nexus::{
    CognitiveNexus,
    nexus::DEFAULT_SPACE,
    schema::{PackageState, SchemaLock, SchemaPackage},
};
use anda_db::database::{AndaDB, DBConfig};
use anda_kip::{Executor, Json, Request, TopLevelStatus};
use futures::FutureExt;
use h_common::*;
use object_store::memory::InMemory;
use serde_json::{Value, json};
use std::collections::BTreeMap;
use std::io::Write;
use std::sync::Arc;

const COGNITIVE_MEMORY: &str = anda_cognitive_nexus::profiles::COGNITIVE_MEMORY;
const PROFILE_ID: &str = "kip://profiles/cognitive-memory";
const STATUS_PACKAGE: &str = r#"{
    "format": "KIP-Schema-Package",
    "manifest": {"package_id": "kip://test/status", "version": "1.0.0"},
    "definitions": {
        "concept_types": {
            "Service": {"kind": "ConceptType", "description": "A service."},
            "Status": {"kind": "ConceptType", "description": "A status value."}
        },
        "predicates": {
            "status": {"kind": "PredicateType", "description": "Single-valued.", "functional": true, "open_world": true},
            "mentions": {"kind": "PredicateType", "description": "Non-functional reference.", "functional": false}
        }
    }
}"#;

const ACTORS: [&str; 3] = ["Alice", "Bob", "Carol"];
const VALUES: [&str; 3] = ["healthy", "degraded", "down"];
const N_EVID: usize = 3;
/// instants used for valid_time and FOR TIME, already in the stored (normalised) form
/// (sorted; one boundary lies inside a second, so a spelling without a fraction can fall on either side)
const T: [&str; 6] = [
    "2020-01-01T00:00:00.000Z",
    "2021-06-01T00:00:00.000Z",
    "2022-01-01T00:00:00.000Z",
    "2022-01-01T00:00:00.500Z",
    "2023-06-01T00:00:00.000Z",
    "2030-01-01T00:00:00.000Z",
];

// ---------------------------------------------------------------- instants and their spellings

/// days since 1970-01-01 of a proleptic Gregorian date (Howard Hinnant's algorithm)
fn days_from_civil(y: i64, m: i64, d: i64) -> i64 {
    let y = if m <= 2 { y - 1 } else { y };
    let era = if y >= 0 { y } else { y - 399 } / 400;
    let yoe = y - era * 400;
    let doy = (153 * (if m > 2 { m - 3 } else { m + 9 }) + 2) / 5 + d - 1;
    let doe = yoe * 365 + yoe / 4 - yoe / 100 + doy;
    era * 146097 + doe - 719468
}
fn civil_from_days(z: i64) -> (i64, i64, i64) {
    let z = z + 719468;
    let era = if z >= 0 { z } else { z - 146096 } / 146097;
    let doe = z - era * 146097;
    let yoe = (doe - doe / 1460 + doe / 36524 - doe / 146096) / 365;
    let y = yoe + era * 400;
    let doy = doe - (365 * yoe + yoe / 4 - yoe / 100);
    let mp = (5 * doy + 2) / 153;
    let d = doy - (153 * mp + 2) / 5 + 1;
    let m = if mp < 10 { mp + 3 } else { mp - 9 };
    (if m <= 2 { y + 1 } else { y }, m, d)
}
/// epoch milliseconds of a canonical `YYYY-MM-DDTHH:MM:SS.mmmZ`
fn epoch_ms(canonical: &str) -> i64 {
    let n = |a: usize, b: usize| canonical[a..b].parse::<i64>().unwrap();
    let days = days_from_civil(n(0, 4), n(5, 7), n(8, 10));
    ((days * 24 + n(11, 13)) * 60 + n(14, 16)) * 60_000 + n(17, 19) * 1000 + n(20, 23)
}
/// The instant written with the given UTC offset (minutes); `frac`: 0 = none (only when ms = 0), 3, 6 digits;
/// `zulu`: write a zero offset as `Z`.
fn spell(ms: i64, offset_min: i64, frac: usize, zulu: bool) -> String {
    let local = ms + offset_min * 60_000;
    let (days, rem) = (local.div_euclid(86_400_000), local.rem_euclid(86_400_000));
    let (y, mo, d) = civil_from_days(days);
    let (h, mi, sec, milli) = (rem / 3_600_000, rem / 60_000 % 60, rem / 1000 % 60, rem % 1000);
    let mut s = format!("{y:04}-{mo:02}-{d:02}T{h:02}:{mi:02}:{sec:02}");
    match frac { 0 => {} 3 => s.push_str(&format!(".{milli:03}")), _ => s.push_str(&format!(".{milli:03}000")) }
    if offset_min == 0 && zulu { s.push('Z'); } else {
        let (sign, a) = if offset_min < 0 { ('-', -offset_min) } else { ('+', offset_min) };
        s.push_str(&format!("{sign}{:02}:{:02}", a / 60, a % 60));
    }
    s
}
fn canonical_of(ms: i64) -> String { spell(ms, 0, 3, true) }
/// Several RFC 3339 spellings of one instant; the first is the canonical stored form.
fn spellings(ms: i64, lowercase_ok: bool) -> Vec<String> {
    let f = if ms.rem_euclid(1000) == 0 { 0 } else { 3 };
    let mut v = vec![canonical_of(ms), spell(ms, 0, f, true), spell(ms, 0, 3, false), spell(ms, 480, f, true),
                     spell(ms, -300, 3, true), spell(ms, 330, f, true), spell(ms, 0, 6, true), spell(ms, -720, 6, true)];
    if lowercase_ok { v.push(canonical_of(ms).to_lowercase()); }
    v.dedup();
    v
}
const ALL_MODES: [&str; 6] = ["observed", "stated", "inferred", "predicted", "hypothetical", "imported"];
const BASELINE_MODES: [&str; 4] = ["observed", "stated", "inferred", "imported"];
const FORECAST_MODES: [&str; 2] = ["predicted", "inferred"];

#[derive(Clone, Debug, PartialEq)]
enum Fate {
    Active,
    Retracted,
    /// superseded by the logical assertion with this index (same proposition)
    SupersededBy(usize),
}

#[derive(Clone, Debug)]
struct LA {
    prop: usize, // 0 = the target, 1.. = rivals
    actor: Option<usize>,
    evid: Vec<usize>,
    stance: &'static str,
    mode: String,
    conf: Option<f64>,
    from: Option<usize>,
    until: Option<usize>,
    fate: Fate,
}

#[derive(Clone, Debug)]
struct Scenario {
    functional: bool,
    las: Vec<LA>,
}

#[derive(Clone, Debug)]
struct Variant {
    for_time: Option<usize>,
    accept: Option<f64>,
    material: Option<f64>,
    policy: Option<&'static str>,
    modes: Option<Vec<&'static str>>,
    /// FOR TIME written in this spelling (overrides `for_time`), with the canonical form of the same instant
    spelled: Option<(String, String)>,
}

impl Variant {
    /// the canonical (stored) form of the evaluation instant, when the query names one
    fn canonical_at(&self) -> Option<String> {
        match (&self.spelled, self.for_time) {
            (Some((_, c)), _) => Some(c.clone()),
            (None, Some(t)) => Some(T[t].to_string()),
            _ => None,
        }
    }
    fn suffix(&self) -> String {
        let mut s = String::new();
        if let Some((spelling, _)) = &self.spelled {
            s.push_str(&format!(" FOR TIME \"{spelling}\""));
        } else if let Some(t) = self.for_time {
            s.push_str(&format!(" FOR TIME \"{}\"", T[t]));
        }
        let mut items = vec![];
        if let Some(p) = self.policy { items.push(format!("policy: \"{p}\"")); }
        if let Some(a) = self.accept { items.push(format!("accept: {a:?}")); }
        if let Some(m) = self.material { items.push(format!("material: {m:?}")); }
        if let Some(ms) = &self.modes {
            items.push(format!("modes: [{}]", ms.iter().map(|m| format!("\"{m}\"")).collect::<Vec<_>>().join(", ")));
        }
        if !items.is_empty() {
            s.push_str(&format!(" WITH EPISTEMIC {{{}}}", items.join(", ")));
        }
        s
    }
    fn modes(&self) -> Vec<&'static str> {
        if let Some(ms) = &self.modes { return ms.clone(); }
        if self.policy == Some("forecast") { FORECAST_MODES.to_vec() } else { BASELINE_MODES.to_vec() }
    }
    fn accept(&self) -> f64 { self.accept.unwrap_or(0.7) }
    fn material(&self) -> f64 { self.material.unwrap_or(0.3) }
}

/// What one projection answered, with engine ids mapped back to logical indices.
#[derive(Clone, Debug, PartialEq)]
struct Answer {
    status: String,
    s_bits: u64,
    o_bits: u64,
    sg: usize,
    og: usize,
    supporting: Vec<usize>,
    opposing: Vec<usize>,
    uncertain: Vec<usize>,
    excluded: Vec<(usize, String)>,
    valid_at: String,
    policy_id: String,
}

struct Built {
    nexus: CognitiveNexus,
    /// logical index -> engine assertion number (A-n)
    ids: Vec<u64>,
}

async fn fresh(name: &str) -> Result<CognitiveNexus, String> {
    let db = AndaDB::connect(
        Arc::new(InMemory::new()),
        DBConfig { name: name.to_string(), description: "c20 e2e".to_string(), ..Default::default() },
    )
    .await
    .map_err(|e| format!("connect: {e:?}"))?;
    let nexus = CognitiveNexus::connect(Arc::new(db)).await.map_err(|e| format!("nexus: {e:?}"))?;
    for source in [COGNITIVE_MEMORY, STATUS_PACKAGE] {
        let package = SchemaPackage::parse(source).map_err(|e| format!("package: {e:?}"))?;
        nexus.install_package(&package, "verif").await.map_err(|e| format!("install: {e:?}"))?;
    }
    let mut lock = SchemaLock::default();
    for (id, version) in [(PROFILE_ID, "2.0.0"), ("kip://test/status", "1.0.0")] {
        lock.packages.insert(id.to_string(), version.to_string());
        lock.states.insert(id.to_string(), PackageState::Active);
    }
    nexus.activate_schema(DEFAULT_SPACE, lock).await.map_err(|e| format!("activate: {e:?}"))?;
    Ok(nexus)
}

async fn exec(nexus: &CognitiveNexus, command: &str, params: Value) -> Result<Json, String> {
    let request = serde_json::from_value::<Request>(json!({
        "kip": "2.0",
        "operations": [{"command": command, "parameters": params}]
    }))
    .map_err(|e| format!("request: {e}"))?;
    let parsed = request.operations[0].parse().map_err(|e| format!("parse: {command}\n{e}"))?;
    let response = match std::panic::AssertUnwindSafe(nexus.execute(parsed, &request, &request.operations[0]))
        .catch_unwind()
        .await
    {
        Ok(r) => r,
        Err(_) => return Err(format!("engine panicked on: {command}")),
    };
    if response.status != TopLevelStatus::Succeeded {
        return Err(format!("{command}\n{:?}", response.error));
    }
    Ok(response.first_result().cloned().unwrap_or(Json::Null))
}

fn num_of(id: &str) -> u64 {
    id.rsplit('-').next().and_then(|s| s.parse().ok()).unwrap_or(0)
}

fn predicate(sc: &Scenario) -> &'static str { if sc.functional { "status" } else { "mentions" } }

fn create_command(la: &LA, evidence_ids: &[String]) -> String {
    let mut fields = vec!["proposition: :p".to_string()];
    if la.actor.is_some() { fields.push("asserted_by: :actor".to_string()); }
    fields.push(format!("stance: \"{}\"", la.stance));
    fields.push(format!("mode: \"{}\"", la.mode));
    if let Some(c) = la.conf { fields.push(format!("confidence: {c:?}")); }
    if la.from.is_some() || la.until.is_some() {
        let mut vt = vec![];
        if let Some(f) = la.from { vt.push(format!("from: \"{}\"", T[f])); }
        if let Some(u) = la.until { vt.push(format!("until: \"{}\"", T[u])); }
        fields.push(format!("valid_time: {{{}}}", vt.join(", ")));
    }
    let mut cmd = format!("MUTATE {{ CREATE ASSERTION ?a {{ SET FIELDS {{ {} }}", fields.join(", "));
    if !la.evid.is_empty() {
        let edges: Vec<String> =
            la.evid.iter().map(|&e| format!("(\"evidence\", {{id: \"{}\"}}) {{role: \"support\"}}", evidence_ids[e])).collect();
        cmd.push_str(&format!(" SET STRUCTURAL {{ {} }}", edges.join(" ")));
    }
    cmd.push_str(" } }");
    cmd
}

/// Records the scenario in the given order into a fresh Nexus.
async fn build(sc: &Scenario, order: &[usize], name: &str) -> Result<Built, String> {
    let nexus = fresh(name).await?;
    let n_props = 1 + sc.las.iter().map(|l| l.prop).max().unwrap_or(0);
    let mut setup = String::from("MUTATE {\n CREATE CONCEPT ?svc { TYPE \"Service\" NAME \"api\" }\n");
    for (i, v) in VALUES.iter().enumerate().take(n_props.max(1)) {
        setup.push_str(&format!(" CREATE CONCEPT ?v{i} {{ TYPE \"Status\" NAME \"{v}\" }}\n"));
    }
    for (i, a) in ACTORS.iter().enumerate() {
        setup.push_str(&format!(" CREATE CONCEPT ?a{i} {{ TYPE \"Person\" NAME \"{a}\" }}\n"));
    }
    for i in 0..N_EVID {
        setup.push_str(&format!(" CREATE EVIDENCE ?e{i} {{ SET FIELDS {{evidence_class: \"observation\", payload: \"e{i}\"}} }}\n"));
    }
    for i in 0..n_props.max(1) {
        setup.push_str(&format!(" ENSURE PROPOSITION ?p{i} (?svc, \"{}\", ?v{i})\n", predicate(sc)));
    }
    setup.push('}');
    let result = exec(&nexus, &setup, json!({})).await?;
    let handle = |h: String| -> Result<String, String> {
        result["handles"][&h].as_str().map(str::to_string).ok_or(format!("no handle {h} in {result}"))
    };
    let mut props = vec![];
    for i in 0..n_props.max(1) { props.push(handle(format!("p{i}"))?); }
    let mut actors = vec![];
    for i in 0..ACTORS.len() { actors.push(handle(format!("a{i}"))?); }
    let mut evid = vec![];
    for i in 0..N_EVID { evid.push(handle(format!("e{i}"))?); }

    let mut ids = vec![0u64; sc.las.len()];
    for &i in order {
        let la = &sc.las[i];
        let mut params = json!({"p": props[la.prop]});
        if let Some(a) = la.actor { params["actor"] = json!(actors[a]); }
        let r = exec(&nexus, &create_command(la, &evid), params).await?;
        let id = r["handles"]["a"].as_str().ok_or(format!("no handle a in {r}"))?;
        ids[i] = num_of(id);
    }
    // lifecycle operations, in the same order
    for &i in order {
        match sc.las[i].fate {
            Fate::Active => {}
            Fate::Retracted => {
                exec(&nexus, "RETRACT ASSERTION :a", json!({"a": format!("A-{}", ids[i])})).await?;
            }
            Fate::SupersededBy(j) => {
                exec(&nexus, "SUPERSEDE ASSERTION :a BY :b",
                     json!({"a": format!("A-{}", ids[i]), "b": format!("A-{}", ids[j])})).await?;
            }
        }
    }
    Ok(Built { nexus, ids })
}

async fn project(b: &Built, sc: &Scenario, v: &Variant) -> Result<Answer, String> {
    let command = format!(
        "FIND(?b) WHERE {{ ?svc CONCEPT {{name: \"api\"}} ?v CONCEPT {{name: \"healthy\"}} \
         ?p PROPOSITION (?svc, \"{}\", ?v) ?b BELIEF (?p) }}{}",
        predicate(sc), v.suffix());
    let result = exec(&b.nexus, &command, json!({})).await?;
    let rows = result.as_array().ok_or(format!("not an array: {result}"))?;
    if rows.len() != 1 { return Err(format!("{} beliefs for one proposition: {result}", rows.len())); }
    let j = &rows[0];
    let logical = |id: &Value| -> Result<usize, String> {
        let n = num_of(id.as_str().ok_or(format!("id not a string: {id}"))?);
        b.ids.iter().position(|&x| x == n).ok_or(format!("unknown assertion id {id}"))
    };
    let list = |v: &Value| -> Result<Vec<usize>, String> {
        v.as_array().ok_or(format!("not a list: {v}"))?.iter().map(&logical).collect()
    };
    let mut excluded = vec![];
    for e in j["explanation"]["excluded"].as_array().ok_or("no excluded")? {
        excluded.push((logical(&e["assertion_id"])?, e["reason"].as_str().unwrap_or("?").to_string()));
    }
    Ok(Answer {
        status: j["status"].as_str().unwrap_or("?").to_string(),
        s_bits: j["support"]["score"].as_f64().ok_or("no support score")?.to_bits(),
        o_bits: j["opposition"]["score"].as_f64().ok_or("no opposition score")?.to_bits(),
        sg: j["support"]["independent_groups"].as_u64().ok_or("no sg")? as usize,
        og: j["opposition"]["independent_groups"].as_u64().ok_or("no og")? as usize,
        supporting: list(&j["support"]["assertion_ids"])?,
        opposing: list(&j["opposition"]["assertion_ids"])?,
        uncertain: list(&j["explanation"]["uncertain_assertions"])?,
        excluded,
        valid_at: j["temporal"]["valid_at"].as_str().unwrap_or("").to_string(),
        policy_id: j["policy"]["id"].as_str().unwrap_or("").to_string(),
    })
}

fn sorted(mut v: Vec<usize>) -> Vec<usize> { v.sort(); v }
fn sorted_ex(mut v: Vec<(usize, String)>) -> Vec<(usize, String)> { v.sort(); v }

/// The answer with every order-dependent presentation removed.
fn canonical(a: &Answer) -> Value {
    json!({"status": a.status, "support_bits": a.s_bits, "opposition_bits": a.o_bits,
           "support_groups": a.sg, "opposition_groups": a.og,
           "supporting": sorted(a.supporting.clone()), "opposing": sorted(a.opposing.clone()),
           "uncertain": sorted(a.uncertain.clone()), "excluded": sorted_ex(a.excluded.clone())})
}

// ---------------------------------------------------------------- independent oracle

fn exclusion(la: &LA, at: &str, modes: &[&str]) -> Option<&'static str> {
    match la.fate {
        Fate::Retracted => return Some("retracted"),
        Fate::SupersededBy(_) => return Some("superseded"),
        Fate::Active => {}
    }
    if let Some(f) = la.from { if T[f] > at { return Some("outside_valid_time"); } }
    if let Some(u) = la.until { if T[u] <= at { return Some("outside_valid_time"); } }
    if !modes.contains(&la.mode.as_str()) {
        return Some(match la.mode.as_str() {
            "hypothetical" => "hypothetical_not_requested",
            "predicted" => "prediction_not_requested",
            m if ALL_MODES.contains(&m) => "policy_excluded",
            _ => "invalid_schema",
        });
    }
    None
}

fn components(members: &[&LA]) -> (usize, f64) {
    let n = members.len();
    let mut parent: Vec<usize> = (0..n).collect();
    fn find(p: &mut Vec<usize>, mut x: usize) -> usize { while p[x] != x { p[x] = p[p[x]]; x = p[x]; } x }
    let mut owner: BTreeMap<String, usize> = BTreeMap::new();
    for (i, la) in members.iter().enumerate() {
        // An Assertion created without `asserted_by` is stored with the endpoint key of JSON null (a
        // non-empty constant), so every unattributed claim carries the same actor key: the engine groups
        // them as one voice, and so does this reading.
        let mut keys = vec![match la.actor { Some(a) => format!("actor:{a}"), None => "actor:null".to_string() }];
        keys.extend(la.evid.iter().map(|e| format!("evidence:{e}")));
        for k in keys {
            match owner.get(&k) {
                Some(&j) => { let (a, b) = (find(&mut parent, i), find(&mut parent, j)); if a != b { parent[a] = b; } }
                None => { owner.insert(k, i); }
            }
        }
    }
    let mut maxima: BTreeMap<usize, f64> = BTreeMap::new();
    for i in 0..n {
        let r = find(&mut parent, i);
        let c = members[i].conf.unwrap_or(0.5);
        let e = maxima.entry(r).or_insert(c);
        if c > *e { *e = c; }
    }
    let mut ms: Vec<f64> = maxima.values().cloned().collect();
    ms.sort_by(|a, b| a.total_cmp(b));
    let score = if n == 0 { 0.0 } else { 1.0 - ms.iter().fold(1.0, |acc, c| acc * (1.0 - c.clamp(0.0, 1.0))) };
    (ms.len(), score)
}

fn oracle(sc: &Scenario, v: &Variant, at: &str) -> Value {
    let modes = v.modes();
    let (mut supporting, mut opposing, mut uncertain, mut excluded) = (vec![], vec![], vec![], vec![]);
    let (mut s_side, mut s_idx, mut o_side, mut o_idx) = (vec![], vec![], vec![], vec![]);
    for (i, la) in sc.las.iter().enumerate() {
        let why = exclusion(la, at, &modes);
        if la.prop == 0 {
            match why {
                Some(r) => excluded.push((i, r.to_string())),
                None => match la.stance {
                    "support" => { supporting.push(i); s_side.push(la); s_idx.push(i); }
                    "reject" => { opposing.push(i); o_side.push(la); o_idx.push(i); }
                    _ => uncertain.push(i),
                },
            }
        } else if sc.functional && why.is_none() && la.stance == "support" {
            opposing.push(i); o_side.push(la); o_idx.push(i);
        }
    }
    let _ = (&s_idx, &o_idx);
    let (sg, s) = components(&s_side);
    let (og, o) = components(&o_side);
    let (acc, mat) = (v.accept(), v.material());
    let status = if sg == 0 && og == 0 && uncertain.is_empty() { "insufficient" }
        else if s >= acc && o < mat { "accepted" }
        else if o >= acc && s < mat { "rejected" }
        else if s >= mat && o >= mat { "contested" }
        else { "uncertain" };
    json!({"status": status, "support_bits": s.to_bits(), "opposition_bits": o.to_bits(),
           "support_groups": sg, "opposition_groups": og,
           "supporting": supporting, "opposing": sorted(opposing), "uncertain": uncertain, "excluded": excluded})
}

// ---------------------------------------------------------------- model case

fn mode_ctor(m: &str) -> Value {
    let mut c = m.chars();
    let name: String = c.next().map(|f| f.to_uppercase().collect::<String>() + c.as_str()).unwrap_or_default();
    ctor(&name, vec![])
}

fn row_json(la: &LA, id: u64) -> Value {
    tup(vec![
        json!(id as i64),
        json!(match la.fate { Fate::Active => "active", Fate::Retracted => "retracted", Fate::SupersededBy(_) => "superseded" }),
        json!("active"),
        json!(la.from.map(|f| T[f]).unwrap_or("")),
        json!(la.until.map(|u| T[u]).unwrap_or("")),
        json!(la.mode),
        // no asserted_by: the stored key is the endpoint key of JSON null, one shared non-empty constant
        json!(la.actor.map(|a| format!("actor{a}")).unwrap_or("lit:null".to_string())),
        json!(la.evid.iter().map(|e| format!("E{e}")).collect::<Vec<_>>()),
        json!(la.stance),
        fbits(la.conf.unwrap_or(0.0)), // ignored by the model when the next field is true (stored: -1)
        json!(la.conf.is_none()),
    ])
}

fn status_ctor(s: &str) -> Value { mode_ctor(s) }

fn model_line(sc: &Scenario, b: &Built, v: &Variant, a: &Answer, at: &str) -> Value {
    let mut own: Vec<(u64, Value)> = vec![];
    let mut rivals: Vec<(u64, Value)> = vec![];
    for (i, la) in sc.las.iter().enumerate() {
        let r = (b.ids[i], row_json(la, b.ids[i]));
        if la.prop == 0 { own.push(r) } else if sc.functional { rivals.push(r) }
    }
    own.sort_by_key(|r| r.0);
    rivals.sort_by_key(|r| r.0);
    let policy = tup(vec![
        Value::Array(v.modes().iter().map(|m| mode_ctor(m)).collect()),
        fbits(v.accept()), fbits(v.material()), fbits(0.5), json!(at), json!(true),
    ]);
    let case = tup(vec![
        Value::Array(own.into_iter().map(|r| r.1).collect()),
        Value::Array(rivals.into_iter().map(|r| r.1).collect()),
        policy,
    ]);
    let zs = |v: &Vec<usize>| { let mut x: Vec<i64> = v.iter().map(|&i| b.ids[i] as i64).collect(); x.sort(); json!(x) };
    let mut ex: Vec<(i64, String)> = a.excluded.iter().map(|(i, r)| (b.ids[*i] as i64, r.clone())).collect();
    ex.sort();
    let obs = tup(vec![
        status_ctor(&a.status),
        json!({"fbits": a.s_bits}), nat(a.sg), json!({"fbits": a.o_bits}), nat(a.og),
        tup(vec![zs(&a.supporting), zs(&a.opposing), zs(&a.uncertain),
                 Value::Array(ex.into_iter().map(|(i, r)| tup(vec![json!(i), json!(r)])).collect())]),
    ]);
    json!({"kind": "model", "case": case, "obs": obs})
}

// ---------------------------------------------------------------- generation

fn confs() -> Vec<f64> {
    vec![0.0, 0.1, 0.25, 0.3, 0.35, 0.4, 0.5, 0.55, 0.6, 0.65, 0.7, 0.75, 0.8, 0.85, 0.9, 0.95, 1.0, 0.29, 0.31, 0.69, 0.71]
}

struct Features { anonymous: bool, unknown_mode: bool, lowercase_time: bool }
// `anonymous`: CREATE ASSERTION without `asserted_by` is accepted (the row is then attributed to the
// null literal, not left empty: the `anonymous:{id}` arm of `eligible` is not reachable through KML).

fn gen_scenario(rng: &mut Rng, feats: &Features, k: usize) -> Scenario {
    let functional = k % 6 != 5;
    let n_rivals = if k % 4 == 0 { 0 } else { 1 + rng.below(2) as usize };
    let n = rng.range(2, 7) as usize;
    let confs = confs();
    let mut las: Vec<LA> = vec![];
    for _ in 0..n {
        let prop = if n_rivals > 0 && rng.chance(1, 3) { 1 + rng.below(n_rivals as u64) as usize } else { 0 };
        let actor = if feats.anonymous && rng.chance(1, 10) { None } else { Some(rng.below(ACTORS.len() as u64) as usize) };
        let mask = if rng.chance(1, 3) { 0 } else { rng.below(8) };
        let evid: Vec<usize> = (0..N_EVID).filter(|b| mask >> b & 1 == 1).collect();
        let stance = if prop > 0 {
            if rng.chance(4, 5) { "support" } else { "reject" }
        } else if rng.chance(1, 8) { "uncertain" } else if rng.chance(3, 5) { "support" } else { "reject" };
        let mode = if rng.chance(2, 3) { BASELINE_MODES[rng.below(4) as usize].to_string() }
            else if feats.unknown_mode && rng.chance(1, 6) { "guessed".to_string() }
            else { ALL_MODES[rng.below(6) as usize].to_string() };
        let conf = if rng.chance(1, 8) { None } else { Some(*rng.pick(&confs)) };
        let (from, until) = if rng.chance(3, 5) { (None, None) } else {
            let f = if rng.chance(2, 3) { Some(rng.below(T.len() as u64) as usize) } else { None };
            let u = if rng.chance(1, 2) { Some(rng.below(T.len() as u64) as usize) } else { None };
            match (f, u) { (Some(a), Some(b)) if b <= a => (Some(b), Some(a).filter(|_| a != b)), x => x }
        };
        las.push(LA { prop, actor, evid, stance, mode, conf, from, until, fate: Fate::Active });
    }
    // lifecycle fates
    for i in 0..n {
        if rng.chance(1, 7) {
            las[i].fate = Fate::Retracted;
        } else if rng.chance(1, 7) {
            let same: Vec<usize> = (0..n).filter(|&j| j != i && las[j].prop == las[i].prop).collect();
            if !same.is_empty() { las[i].fate = Fate::SupersededBy(*rng.pick(&same)); }
        }
    }
    Scenario { functional, las }
}

fn variants(rng: &mut Rng) -> Vec<Variant> {
    let none = Variant { for_time: None, accept: None, material: None, policy: None, modes: None, spelled: None };
    let cs = confs();
    let (a, m) = { let x = *rng.pick(&cs); let y = *rng.pick(&cs); if y <= x { (x, y) } else { (y, x) } };
    // boundaries: a score equal to a threshold (0.0 with no opposition, or a confidence from the same pool)
    let (a, m) = match rng.below(6) { 0 | 1 => (a, 0.0), 2 => (a, a), _ => (a, m) };
    vec![
        none.clone(),
        Variant { for_time: Some(1), ..none.clone() },
        Variant { for_time: Some(4), ..none.clone() },
        Variant { accept: Some(a), material: Some(m), for_time: if rng.chance(1, 2) { Some(2) } else { None }, ..none.clone() },
        Variant { policy: Some("forecast"), ..none.clone() },
        Variant { for_time: Some(1), modes: Some(vec!["hypothetical", "stated", "observed", "predicted"]), ..none.clone() },
    ]
}

fn scenario_json(sc: &Scenario) -> Value {
    json!({"functional_predicate": sc.functional,
           "assertions": sc.las.iter().enumerate().map(|(i, l)| json!({
               "index": i, "about": if l.prop == 0 { "target".to_string() } else { format!("rival{}", l.prop) },
               "actor": l.actor.map(|a| ACTORS[a]), "evidence": l.evid, "stance": l.stance, "mode": l.mode,
               "confidence": l.conf, "valid_from": l.from.map(|f| T[f]), "valid_until": l.until.map(|u| T[u]),
               "fate": format!("{:?}", l.fate)})).collect::<Vec<_>>()})
}

async fn probe() -> Features {
    let mut f = Features { anonymous: false, unknown_mode: false, lowercase_time: false };
    let base = Scenario { functional: true, las: vec![] };
    let la = LA { prop: 0, actor: None, evid: vec![], stance: "support", mode: "stated".into(), conf: Some(0.9),
                  from: None, until: None, fate: Fate::Active };
    let sc = Scenario { las: vec![la.clone()], ..base.clone() };
    f.anonymous = build(&sc, &[0], "probe_anon").await.is_ok();
    let sc = Scenario { las: vec![LA { actor: Some(0), mode: "guessed".into(), ..la }], ..base };
    f.unknown_mode = build(&sc, &[0], "probe_mode").await.is_ok();
    // does FOR TIME accept lower-case `t` / `z`?
    let sc = Scenario { functional: true, las: vec![LA { prop: 0, actor: Some(0), evid: vec![], stance: "support",
        mode: "stated".into(), conf: Some(0.9), from: None, until: None, fate: Fate::Active }] };
    if let Ok(b) = build(&sc, &[0], "probe_time").await {
        let v = Variant { for_time: None, accept: None, material: None, policy: None, modes: None,
                          spelled: Some((T[1].to_lowercase(), T[1].to_string())) };
        f.lowercase_time = project(&b, &sc, &v).await.is_ok();
    }
    f
}

/// FOR TIME at the instants around every validity boundary of the scenario, in every spelling; for each
/// instant the canonical spelling comes first.
fn spelling_variants(sc: &Scenario, lowercase_ok: bool) -> Vec<Variant> {
    let mut bounds: Vec<usize> = sc.las.iter().flat_map(|l| [l.from, l.until]).flatten().collect();
    if bounds.is_empty() { bounds.push(1); }
    bounds.sort();
    bounds.dedup();
    let mut instants: Vec<i64> = vec![];
    for b in bounds {
        let ms = epoch_ms(T[b]);
        instants.extend([ms - 1, ms, ms + 1, ms - ms.rem_euclid(1000), ms - ms.rem_euclid(1000) + 1000]);
    }
    instants.sort();
    instants.dedup();
    let mut out = vec![];
    for ms in instants {
        let c = canonical_of(ms);
        for sp in spellings(ms, lowercase_ok) {
            out.push(Variant { for_time: None, accept: None, material: None, policy: None, modes: None,
                               spelled: Some((sp, c.clone())) });
        }
    }
    out
}

pub fn main(args: &[String]) {
    let out_path = arg_value(args, "--out").expect("--out");
    let n_scen = arg_value(args, "--scenarios").and_then(|s| s.parse().ok()).unwrap_or(12usize);
    let n_orders = arg_value(args, "--orders").and_then(|s| s.parse().ok()).unwrap_or(3usize);
    let rt = tokio::runtime::Builder::new_multi_thread().worker_threads(2).enable_all().build().unwrap();
    let all_perms = arg_value(args, "--all-perms").and_then(|s| s.parse().ok()).unwrap_or(2usize);
    rt.block_on(run(out_path, n_scen, n_orders, all_perms));
}

/// Hand-written scenarios that always run first.
fn fixed_scenarios(feats: &Features) -> Vec<Scenario> {
    let la = |actor: Option<usize>, evid: Vec<usize>, stance: &'static str, conf: f64| LA {
        prop: 0, actor, evid, stance, mode: "stated".to_string(), conf: Some(conf), from: None, until: None, fate: Fate::Active };
    let mut v = vec![];
    if feats.anonymous {
        // two unattributed claims: the engine stores one shared (null) actor key, so they are one group
        v.push(Scenario { functional: true, las: vec![la(None, vec![], "support", 0.6), la(None, vec![], "support", 0.6)] });
        // unattributed claims with and without shared evidence next to a named actor
        v.push(Scenario { functional: true, las: vec![la(None, vec![0], "support", 0.6), la(None, vec![0], "support", 0.5),
                                                      la(None, vec![1], "reject", 0.4), la(Some(0), vec![], "reject", 0.3),
                                                      la(None, vec![], "reject", 0.2)] });
    }
    // the worked bridge: two groups that a third assertion joins
    v.push(Scenario { functional: true, las: vec![la(Some(0), vec![0], "support", 0.5), la(Some(1), vec![1], "support", 0.7),
                                                  la(Some(2), vec![0, 1], "support", 0.6)] });
    v
}

fn all_orders(n: usize) -> Vec<Vec<usize>> {
    fn rec(cur: &mut Vec<usize>, used: &mut Vec<bool>, n: usize, out: &mut Vec<Vec<usize>>) {
        if cur.len() == n { out.push(cur.clone()); return; }
        for i in 0..n { if !used[i] { used[i] = true; cur.push(i); rec(cur, used, n, out); cur.pop(); used[i] = false; } }
    }
    let mut out = vec![];
    rec(&mut vec![], &mut vec![false; n], n, &mut out);
    out
}

/// Cuts a scenario down to at most `n` assertions, keeping supersession targets in range.
fn shrink(mut sc: Scenario, n: usize) -> Scenario {
    sc.las.truncate(n.max(2));
    let len = sc.las.len();
    for i in 0..len {
        if let Fate::SupersededBy(j) = sc.las[i].fate {
            if j >= len || sc.las[j].prop != sc.las[i].prop { sc.las[i].fate = Fate::Active; }
        }
    }
    sc
}

async fn run(out_path: String, n_scen: usize, n_orders: usize, all_perms: usize) {
    let mut rng = Rng::from_env();
    let mut out = std::io::BufWriter::new(std::fs::File::create(&out_path).unwrap());
    std::panic::set_hook(Box::new(|_| {}));
    let feats = probe().await;
    let mut failures: Vec<Value> = vec![];
    let (mut projections, mut nexuses, mut with_rivals, mut bridging, mut id_ordered) = (0u64, 0u64, 0u64, 0u64, 0u64);
    let (mut exhaustive_scenarios, mut exhaustive_orders, mut unattributed_pairs) = (0u64, 0u64, 0u64);
    let (mut spelling_probes, mut spelling_instants) = (0u64, 0u64);
    let mut statuses: BTreeMap<String, u64> = BTreeMap::new();
    let mut reasons: BTreeMap<String, u64> = BTreeMap::new();
    let mut policies: BTreeMap<String, u64> = BTreeMap::new();

    let fixed = fixed_scenarios(&feats);
    for k in 0..n_scen + fixed.len() {
        // the first `all_perms` generated scenarios have 3..5 assertions and are recorded in every order
        let exhaustive = k >= fixed.len() && k - fixed.len() < all_perms;
        let sc = if k < fixed.len() { fixed[k].clone() } else {
            let mut sc = gen_scenario(&mut rng, &feats, k - fixed.len());
            if exhaustive { sc = shrink(sc, [4, 5, 3][(k - fixed.len()) % 3]); }
            sc
        };
        let vs = variants(&mut rng);
        let n = sc.las.len();
        let mut orders: Vec<Vec<usize>> = if exhaustive { all_orders(n) } else {
            let mut o = vec![(0..n).collect::<Vec<usize>>(), (0..n).rev().collect()];
            while o.len() < n_orders { let mut p: Vec<usize> = (0..n).collect(); rng.shuffle(&mut p); o.push(p); }
            o.truncate(n_orders.max(1));
            o
        };
        if exhaustive { exhaustive_scenarios += 1; exhaustive_orders += orders.len() as u64; }
        orders.dedup();
        let mut first: Vec<Option<(Answer, Vec<usize>)>> = vec![None; vs.len()];
        for (oi, order) in orders.iter().enumerate() {
            let built = match build(&sc, order, &format!("s{k}o{oi}")).await {
                Ok(b) => b,
                Err(e) => { failures.push(json!({"what": "e2e engine error while recording", "error": e,
                                                  "scenario": scenario_json(&sc), "order": order})); continue; }
            };
            nexuses += 1;
            // the first recording order is also asked at instants just before / at / just after every validity
            // boundary of the scenario, each instant written in several RFC 3339 spellings
            let mut queries: Vec<Variant> = vs.clone();
            if oi == 0 { queries.extend(spelling_variants(&sc, feats.lowercase_time)); }
            let mut reference: BTreeMap<String, (Answer, String)> = BTreeMap::new();
            for (vi, v) in queries.iter().enumerate() {
                let a = match project(&built, &sc, v).await {
                    Ok(a) => a,
                    Err(e) => { failures.push(json!({"what": "e2e engine error while projecting", "error": e,
                                                      "scenario": scenario_json(&sc), "order": order, "query": v.suffix()})); continue; }
                };
                projections += 1;
                *statuses.entry(a.status.clone()).or_default() += 1;
                *policies.entry(a.policy_id.clone()).or_default() += 1;
                for (_, r) in &a.excluded { *reasons.entry(r.clone()).or_default() += 1; }
                if a.opposing.iter().any(|&i| sc.las[i].prop > 0) { with_rivals += 1; }
                if a.supporting.iter().filter(|&&i| sc.las[i].actor.is_none()).count() >= 2
                    || a.opposing.iter().filter(|&&i| sc.las[i].actor.is_none()).count() >= 2 { unattributed_pairs += 1; }
                if (a.supporting.len() >= 3 && a.sg < a.supporting.len()) || (a.opposing.len() >= 3 && a.og < a.opposing.len()) { bridging += 1; }
                let by_id = |v: &Vec<usize>| v.windows(2).all(|w| built.ids[w[0]] < built.ids[w[1]]);
                if by_id(&a.supporting) && by_id(&a.uncertain) { id_ordered += 1; }
                // the instant the projection must be evaluated at: the one the query names, in stored form
                let at = v.canonical_at().unwrap_or(a.valid_at.clone());
                let got = canonical(&a);
                if a.valid_at != at {
                    failures.push(json!({"what": "e2e spelling: temporal.valid_at is not the normalised FOR TIME instant",
                        "scenario": scenario_json(&sc), "order": order, "query": v.suffix(), "valid_at": a.valid_at,
                        "expected": at}));
                }
                let mut first_of_instant = true;
                if let Some((spelling, c)) = &v.spelled {
                    spelling_probes += 1;
                    match reference.get(c) {
                        None => { reference.insert(c.clone(), (a.clone(), spelling.clone())); spelling_instants += 1; }
                        Some((a0, spelling0)) => {
                            first_of_instant = false;
                            if canonical(a0) != got || a0.valid_at != a.valid_at {
                                failures.push(json!({"what": "e2e spelling: the projection depends on how the FOR TIME instant is written",
                                    "scenario": scenario_json(&sc), "order": order,
                                    "kml": order.iter().map(|&i| create_command(&sc.las[i], &["E-1".into(), "E-2".into(), "E-3".into()])).collect::<Vec<_>>(),
                                    "for_time_a": spelling0, "for_time_b": spelling, "same_instant": c,
                                    "answers_differ": canonical(a0) != got,
                                    "a": canonical(a0), "b": got, "valid_at_a": a0.valid_at, "valid_at_b": a.valid_at}));
                            }
                        }
                    }
                }
                // (b) independent oracle
                let want = oracle(&sc, v, &at);
                if want != got {
                    let field = ["status", "support_groups", "opposition_groups", "support_bits", "opposition_bits",
                                 "supporting", "opposing", "uncertain", "excluded"]
                        .iter().find(|f| want[**f] != got[**f]).cloned().unwrap_or("?");
                    let what = format!("e2e answer differs from independent oracle: {field}");
                    failures.push(json!({"what": what,
                        "scenario": scenario_json(&sc), "order": order, "query": v.suffix(),
                        "kml": order.iter().map(|&i| create_command(&sc.las[i], &["E-1".into(), "E-2".into(), "E-3".into()])).collect::<Vec<_>>(),
                        "engine": got, "oracle": want, "valid_at": a.valid_at}));
                }
                // structural readings of the property on the answer itself
                if a.status == "rejected" && a.og == 0 {
                    failures.push(json!({"what": "e2e rejected without an opposing group", "scenario": scenario_json(&sc),
                                         "order": order, "query": v.suffix(), "engine": got}));
                }
                if a.supporting.is_empty() && a.opposing.is_empty() && a.uncertain.is_empty()
                    && (a.status != "insufficient" || a.sg != 0 || a.og != 0) {
                    failures.push(json!({"what": "e2e silence is not insufficient", "scenario": scenario_json(&sc),
                                         "order": order, "query": v.suffix(), "engine": got}));
                }
                // (a) recording order
                if vi < vs.len() { match &first[vi] {
                    None => first[vi] = Some((a.clone(), order.clone())),
                    Some((a0, order0)) => {
                        if canonical(a0) != got || a0.valid_at != a.valid_at && v.for_time.is_some() {
                            failures.push(json!({"what": "e2e answer depends on recording order",
                                "scenario": scenario_json(&sc), "order_a": order0, "order_b": order,
                                "query": v.suffix(), "a": canonical(a0), "b": got}));
                        }
                    }
                } }
                if first_of_instant { writeln!(out, "{}", model_line(&sc, &built, v, &a, &at)).unwrap(); }
            }
        }
    }
    // the most telling failing inputs first: a different answer, then a disagreement with the oracle, then the rest
    failures.sort_by_key(|f| {
        let w = f["what"].as_str().unwrap_or("");
        if f["answers_differ"] == json!(true) || w.contains("recording order") { 0 }
        else if w.contains("independent oracle") || w.contains("rejected without") || w.contains("silence") { 1 }
        else { 2 }
    });
    writeln!(out, "{}", json!({"kind": "summary", "scenarios": n_scen + fixed.len(), "nexus_instances": nexuses,
        "all_permutation_scenarios": exhaustive_scenarios, "all_permutation_orders": exhaustive_orders,
        "two_unattributed_on_one_side": unattributed_pairs,
        "for_time_spelling_probes": spelling_probes, "for_time_spelled_instants": spelling_instants,
        "projections": projections, "evaluations": projections, "statuses": statuses, "excluded_reasons": reasons,
        "policies": policies, "with_rivals": with_rivals, "bridging": bridging, "ledgers_in_id_order": id_ordered,
        "features": {"anonymous_assertion": feats.anonymous, "unknown_mode_string": feats.unknown_mode,
                     "lowercase_t_z_accepted": feats.lowercase_time},
        "oracle_failures": failures.len(), "failures": failures.iter().take(5).collect::<Vec<_>>()})).unwrap();
}
