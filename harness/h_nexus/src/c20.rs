//! C20 — belief projection: run `aggregate`/`classify` of the implementation on
//! generated candidate multisets, in every recording order, and print cases.
use anda_cognitive_nexus::projection::{Policy, verif};
use h_common::*;
use serde_json::{Value, json};
use std::collections::BTreeMap;
use std::io::Write;

#[derive(Clone, Debug)]
pub struct Cand {
    pub actor: String,
    pub evidence: Vec<String>,
    pub stance: &'static str,
    pub conf: f64,
    pub opp: bool,
}

const ACTORS: [&str; 3] = ["a", "b", "c"];
const EVID: [&str; 3] = ["e1", "e2", "e3"];
const STANCES: [&str; 3] = ["support", "reject", "uncertain"];

fn confs() -> Vec<f64> {
    let mut v: Vec<f64> = (0..=20).map(|i| i as f64 / 20.0).collect();
    v.extend([0.07, 0.13, 0.29, 0.33, 0.47, 0.61, 0.83, 0.99, 0.31, 0.57, 0.91, 0.49]);
    v
}

fn to_verif(cs: &[Cand]) -> Vec<verif::VerifCandidate> {
    cs.iter()
        .enumerate()
        .map(|(i, c)| verif::VerifCandidate {
            id: i as u64 + 1,
            actor: c.actor.clone(),
            evidence: c.evidence.clone(),
            stance: c.stance.to_string(),
            confidence: c.conf,
            opposes_target: c.opp,
        })
        .collect()
}

#[derive(Clone, PartialEq, Debug)]
pub struct Obs {
    pub s: f64,
    pub sg: usize,
    pub o: f64,
    pub og: usize,
    pub status: String,
}

/// The implementation on one input; a panic inside it is an observation ("Panicked"), not a crash.
pub fn run_impl(cs: &[Cand], accept: f64, material: f64) -> Obs {
    std::panic::catch_unwind(|| run_impl_inner(cs, accept, material)).unwrap_or(Obs {
        s: f64::NAN, sg: usize::MAX, o: f64::NAN, og: usize::MAX, status: "Panicked".to_string(),
    })
}

fn run_impl_inner(cs: &[Cand], accept: f64, material: f64) -> Obs {
    let v = to_verif(cs);
    let (s, sg) = verif::aggregate(&v, false);
    let (o, og) = verif::aggregate(&v, true);
    let mut policy = Policy::baseline();
    policy.accept = accept;
    policy.material = material;
    let nu = cs.iter().filter(|c| !c.opp && c.stance != "support" && c.stance != "reject").count();
    let status = verif::classify(s, o, sg, og, nu, &policy);
    Obs { s, sg, o, og, status: format!("{status:?}") }
}

/// Independent oracle: connected components by union-find over actor/evidence keys.
fn components(cs: &[Cand], opposing: bool) -> (usize, Vec<f64>) {
    let side: Vec<&Cand> = cs
        .iter()
        .filter(|c| if opposing { c.opp || c.stance == "reject" } else { !c.opp && c.stance == "support" })
        .collect();
    let n = side.len();
    let mut parent: Vec<usize> = (0..n).collect();
    fn find(p: &mut Vec<usize>, x: usize) -> usize {
        let mut r = x;
        while p[r] != r { r = p[r]; }
        let mut y = x;
        while p[y] != r { let nx = p[y]; p[y] = r; y = nx; }
        r
    }
    let mut owner: BTreeMap<String, usize> = BTreeMap::new();
    for (i, c) in side.iter().enumerate() {
        let mut keys = vec![format!("actor:{}", c.actor)];
        keys.extend(c.evidence.iter().map(|e| format!("evidence:{e}")));
        for k in keys {
            if let Some(&j) = owner.get(&k) {
                let (a, b) = (find(&mut parent, i), find(&mut parent, j));
                if a != b { parent[a] = b; }
            } else {
                owner.insert(k, i);
            }
        }
    }
    let mut maxima: BTreeMap<usize, f64> = BTreeMap::new();
    for i in 0..n {
        let r = find(&mut parent, i);
        let e = maxima.entry(r).or_insert(f64::NEG_INFINITY);
        *e = e.max(side[i].conf);
    }
    let mut ms: Vec<f64> = maxima.values().cloned().collect();
    ms.sort_by(|a, b| a.total_cmp(b));
    (ms.len(), ms)
}

fn cand_json(i: usize, c: &Cand) -> Value {
    tup(vec![
        json!(i as i64 + 1),
        json!(c.actor),
        json!(c.evidence),
        ctor(match c.stance { "support" => "Support", "reject" => "Reject", _ => "OtherStance" }, vec![]),
        fbits(c.conf),
        json!(c.opp),
    ])
}

fn obs_json(o: &Obs) -> Value {
    tup(vec![fbits(o.s), nat(o.sg), fbits(o.o), nat(o.og), ctor(&o.status, vec![])])
}

fn permutations(n: usize) -> Vec<Vec<usize>> {
    fn rec(cur: &mut Vec<usize>, used: &mut Vec<bool>, n: usize, out: &mut Vec<Vec<usize>>) {
        if cur.len() == n { out.push(cur.clone()); return; }
        for i in 0..n {
            if !used[i] { used[i] = true; cur.push(i); rec(cur, used, n, out); cur.pop(); used[i] = false; }
        }
    }
    let mut out = vec![];
    rec(&mut vec![], &mut vec![false; n], n, &mut out);
    out
}

fn gen_cand(rng: &mut Rng, confs: &[f64]) -> Cand {
    let actor = ACTORS[rng.below(3) as usize].to_string();
    let mask = rng.below(8);
    let evidence: Vec<String> = (0..3).filter(|b| mask >> b & 1 == 1).map(|b| EVID[b].to_string()).collect();
    // mostly support/reject; sometimes an uncertain stance
    let stance = if rng.chance(1, 8) { "uncertain" } else if rng.chance(3, 5) { "support" } else { "reject" };
    Cand { actor, evidence, stance, conf: *rng.pick(confs), opp: stance == "support" && rng.chance(1, 6) }
}

pub fn main(args: &[String]) {
    let out_path = arg_value(args, "--out").expect("--out");
    let n_random = arg_value(args, "--random").and_then(|s| s.parse().ok()).unwrap_or(1500usize);
    let max_exh = arg_value(args, "--exhaustive").and_then(|s| s.parse().ok()).unwrap_or(3usize);
    let model_every = arg_value(args, "--model-every").and_then(|s| s.parse().ok()).unwrap_or(16usize);
    let mut rng = Rng::from_env();
    let confs = confs();
    let mut out = std::io::BufWriter::new(std::fs::File::create(&out_path).unwrap());
    std::panic::set_hook(Box::new(|_| {}));

    let mut evaluations = 0u64;
    let mut perm_sets = 0u64;
    let mut bridging = 0u64;
    let mut failures: Vec<Value> = vec![];
    let mut hist_n: BTreeMap<usize, u64> = BTreeMap::new();
    let mut hist_status: BTreeMap<String, u64> = BTreeMap::new();
    let thresholds = [(0.7, 0.3), (0.9, 0.3), (0.5, 0.5), (1.0, 0.0), (0.0, 0.0), (0.6, 0.2)];

    let mut emit_case = |cs: &[Cand], acc: f64, mat: f64, obs: &Obs, out: &mut dyn Write| {
        let case = tup(vec![
            Value::Array(cs.iter().enumerate().map(|(i, c)| cand_json(i, c)).collect()),
            fbits(acc),
            fbits(mat),
        ]);
        writeln!(out, "{}", json!({"kind": "model", "case": case, "obs": obs_json(obs)})).unwrap();
    };

    let mut check_multiset = |cs: &Vec<Cand>, acc: f64, mat: f64, do_model: bool, all_perms: bool,
                              rng: &mut Rng, out: &mut dyn Write| {
        let base = run_impl(cs, acc, mat);
        evaluations += 1;
        if base.status == "Panicked" {
            failures.push(json!({"what": "implementation panicked in aggregate/classify",
                "candidates": format!("{cs:?}"), "accept": acc, "material": mat}));
            return;
        }
        *hist_n.entry(cs.len()).or_default() += 1;
        *hist_status.entry(base.status.clone()).or_default() += 1;
        // oracle 1: group counts = connected components
        let (sc, _) = components(cs, false);
        let (oc, _) = components(cs, true);
        if sc != base.sg || oc != base.og {
            failures.push(json!({"what": "group count differs from connected components",
                "candidates": format!("{cs:?}"), "impl": [base.sg, base.og], "oracle": [sc, oc]}));
        }
        let side_n = cs.iter().filter(|c| !c.opp && c.stance == "support").count();
        if side_n >= 3 && sc < side_n { bridging += 1; }
        // oracle 2: every recording order gives the same answer
        let perms: Vec<Vec<usize>> = if all_perms && cs.len() <= 5 {
            permutations(cs.len())
        } else {
            (0..4).map(|_| { let mut p: Vec<usize> = (0..cs.len()).collect(); rng.shuffle(&mut p); p }).collect()
        };
        perm_sets += 1;
        for p in perms {
            let pcs: Vec<Cand> = p.iter().map(|&i| cs[i].clone()).collect();
            let o = run_impl(&pcs, acc, mat);
            evaluations += 1;
            if o.sg != base.sg || o.og != base.og || o.status != base.status
                || o.s.to_bits() != base.s.to_bits() || o.o.to_bits() != base.o.to_bits()
            {
                failures.push(json!({"what": "answer depends on recording order",
                    "order_a": format!("{cs:?}"), "order_b": format!("{pcs:?}"),
                    "accept": acc, "material": mat,
                    "a": format!("{base:?}"), "b": format!("{o:?}"),
                    "a_bits": [base.s.to_bits(), base.o.to_bits()], "b_bits": [o.s.to_bits(), o.o.to_bits()]}));
                break;
            }
        }
        if do_model { emit_case(cs, acc, mat, &base, out); }
    };

    // bounded-exhaustive over grouping shapes (actor x evidence subset) for sequences up to max_exh
    let shapes: Vec<(usize, u64)> = (0..3).flat_map(|a| (0..8).map(move |m| (a, m))).collect();
    let mut counter = 0usize;
    for len in 0..=max_exh {
        let total = shapes.len().pow(len as u32);
        for idx in 0..total {
            let mut k = idx;
            let mut cs = vec![];
            for _ in 0..len {
                let (a, m) = shapes[k % shapes.len()];
                k /= shapes.len();
                let stance = if rng.chance(1, 10) { "reject" } else { "support" };
                cs.push(Cand {
                    actor: ACTORS[a].to_string(),
                    evidence: (0..3).filter(|b| m >> b & 1 == 1).map(|b| EVID[b].to_string()).collect(),
                    stance,
                    conf: *rng.pick(&confs),
                    opp: false,
                });
            }
            let (acc, mat) = thresholds[counter % thresholds.len()];
            counter += 1;
            // ordered sequences are enumerated exhaustively, so permutations are covered by
            // the enumeration itself; still compare 4 shuffles of the same confidences
            check_multiset(&cs, acc, mat, counter % model_every == 0, false, &mut rng, &mut out);
        }
    }
    // random multisets, all permutations up to 5, sizes up to 12
    for i in 0..n_random {
        let n = if i % 3 == 0 { rng.range(6, 12) } else { rng.range(1, 5) } as usize;
        let cs: Vec<Cand> = (0..n).map(|_| gen_cand(&mut rng, &confs)).collect();
        let (acc, mat) = if rng.chance(1, 4) {
            let a = *rng.pick(&confs); let m = *rng.pick(&confs); if m <= a { (a, m) } else { (m, a) }
        } else { thresholds[i % thresholds.len()] };
        check_multiset(&cs, acc, mat, i % 2 == 0, true, &mut rng, &mut out);
    }
    writeln!(out, "{}", json!({"kind": "summary", "evaluations": evaluations, "multisets": perm_sets,
        "bridging_multisets": bridging, "sizes": hist_n, "statuses": hist_status,
        "oracle_failures": failures.len(), "failures": failures.iter().take(5).collect::<Vec<_>>()})).unwrap();
}
