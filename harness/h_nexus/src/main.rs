mod c20;
mod c20e2e;

fn main() {
    let args: Vec<String> = std::env::args().collect();
    match args.get(1).map(|s| s.as_str()) {
        Some("c20") => c20::main(&args[2..]),
        Some("c20e2e") => c20e2e::main(&args[2..]),
        _ => {
            eprintln!("usage: h_nexus <c20|c20e2e> ...");
            std::process::exit(2);
        }
    }
}
