"""C16 — no accepted KIP mutation touches engine-owned or immutable state (DESIGN.md section 4 / C16)."""
import json
import os
from collections import Counter

META = {
    'category': 'proof',
    'text': ('Coq theorems over a transcription of anda_kip\'s tree validator (validate_command / validate_plan / '
             'validate_clause / guard_update / validate_exact_* / handle resolution) on a Coq copy of the KML + EXPORT '
             'AST: every tree the validator accepts is Safe (no engine-owned key in any FIELDS/ATTRIBUTES/FACET/'
             'RETENTION/UNSET block, no payload field or structural action on an UPDATE target its WHERE types as '
             'Assertion/Evidence/Proposition at any depth and under every typing, no BELIEF pattern or raw predicate '
             'path at any depth of a KML/EXPORT selection, exact ENSURE tuples, id/key UPSERT selectors, handles '
             'claimed once and all bound), for every tree and any constant tables covering the property\'s sets; '
             'safe_b decides Safe; the ASSERT expansion is exactly ENSURE + CREATE ASSERTION (+ SUPERSEDE) with '
             'exactly the written fields and is refused without actor or mode. Constant tables and dispatch facts '
             'are regenerated from the source on every run; the complete matrix (clause family x target kind x '
             'block x field name x spelling) runs through the real parse_kip as text and through the real '
             'validate_command as injected trees, each tree is compared with the model verdict and judged by '
             'safe_b and by an independent oracle.'),
    'design_ref': 'DESIGN.md section 4 / C16',
    'note': ('Trusted: Coq kernel + vm_compute; translator tools/gen_kip.py; harness h_kip, its JSON oracle and the '
             'serde-JSON -> Coq-term converter in props/C16.py. Modelled not verified: the nom text parser (text -> '
             'tree is the real parser, exercised over the matrix, not proved), serde. Abstracted in the Coq AST: '
             'numbers and KipValue objects are opaque JSON text, FILTER expressions and AsOf are opaque, KQL queries '
             'and META commands other than EXPORT CAPSULE carry no payload (validate_command accepts them '
             'unconditionally). Field names are compared exactly (the engine resolves names exactly, so case / '
             'dotted / padded spellings are ordinary names). Kinds of targets addressed by id or parameter are the '
             'engine\'s job (C17/C18).'),
    'technique': 'Coq proof (mutual induction over the AST, occurrence-list specification, reflection) + translator-generated tables + differential model/impl run over a complete finite matrix',
}

IMPORTS = 'From Verif Require Import Kip.Model Kip.Safe Kip.Desugar Kip.Run.'


# ------------------------------------------------------------------ serde JSON -> Coq term (lib/coqterm.py encoding)
def C(name, *args):
    return {'c': name, 'a': list(args)}


def opt(f, v):
    return None if v is None else {'some': f(v)}


def tag(v):
    """externally tagged enum value -> (variant, payload)"""
    if isinstance(v, str):
        return v, None
    (k, x), = v.items()
    return k, x


def dumps(v):
    return json.dumps(v, sort_keys=True, separators=(',', ':'), ensure_ascii=False)


def kv(v):
    t, x = tag(v)
    if t == 'Null':
        return C('KNull')
    if t == 'Bool':
        return C('KBool', bool(x))
    if t == 'Number':
        return C('KNum', dumps(x))
    if t == 'String':
        return C('KStr', x)
    if t == 'Array':
        r = C('KVNil')
        for i in reversed(x):
            r = C('KVCons', kv(i), r)
        return C('KArr', r)
    if t == 'Object':
        return C('KObj', dumps(x))
    raise ValueError('KipValue ' + t)


def scalar(v):
    t, x = tag(v)
    return C('SLit', kv(x)) if t == 'Literal' else C('SParam', x)


def symref(v):
    t, x = tag(v)
    return C({'Name': 'SymName', 'Param': 'SymParam'}[t], x)


def eref(v):
    t, x = tag(v)
    return C({'Handle': 'EHandle', 'Param': 'EParam', 'Id': 'EId'}[t], x)


def dotpath(v):
    return C('mkDot', v['var'], [C({'Field': 'PField', 'Key': 'PKey'}[tag(s)[0]], tag(s)[1]) for s in v['path']])


def predatom(v):
    t, x = tag(v)
    return C({'Variable': 'PAVar', 'Literal': 'PALit', 'Param': 'PAParam'}[t], x)


def predterm(v):
    t, x = tag(v)
    if t == 'Atom':
        return C('PTAtom', predatom(x))
    return C('PTPath', [{'t': [predatom(a['predicate']), opt(dumps, a['hops'])]} for a in x])


def matcher(m):
    r = C('MNil')
    for k in sorted(m.keys(), reverse=True):
        r = C('MCons', k, matchv(m[k]), r)
    return r


def matchv(v):
    t, x = tag(v)
    if t == 'Variable':
        return C('MVVar', x)
    if t == 'Param':
        return C('MVParam', x)
    if t == 'Literal':
        return C('MVLit', kv(x))
    if t == 'Array':
        r = C('MVNil')
        for i in reversed(x):
            r = C('MVCons', matchv(i), r)
        return C('MVArray', r)
    if t == 'Match':
        return C('MVMatch', matcher(x))
    if t == 'Proposition':
        return C('MVProp', propm(x))
    raise ValueError('MatchValue ' + t)


def term(v):
    t, x = tag(v)
    if t == 'Variable':
        return C('TVar', x)
    if t == 'Param':
        return C('TParam', x)
    if t == 'Literal':
        return C('TLit', kv(x))
    if t == 'Match':
        return C('TMatch', matcher(x))
    if t == 'Proposition':
        return C('TProp', propm(x))
    raise ValueError('Term ' + t)


def propm(v):
    t, x = tag(v)
    if t == 'Id':
        return C('PMId', scalar(x))
    return C('PMTuple', term(x['subject']), predterm(x['predicate']), term(x['object']))


def bv(v):
    t, x = tag(v)
    if t == 'Value':
        return C('BVal', kv(x))
    if t == 'Param':
        return C('BParam', x)
    if t == 'Handle':
        return C('BHandle', x)
    if t == 'Variable':
        return C('BVar', dotpath(x))
    if t == 'Array':
        return C('BArray', bvs(x))
    if t == 'Object':
        return C('BObject', bvo(x))
    raise ValueError('BoundValue ' + t)


def bvs(items):
    r = C('BNil')
    for i in reversed(items):
        r = C('BCons', bv(i), r)
    return r


def bvo(pairs):
    r = C('BONil')
    for k, x in reversed(pairs):
        r = C('BOCons', k, bv(x), r)
    return r


def uexpr(v):
    t, x = tag(v)
    if t == 'Variable':
        return C('UVar', dotpath(x))
    if t == 'Number':
        return C('UNum', dumps(x))
    if t == 'Param':
        return C('UParam', x)
    if t == 'Function':
        r = C('UNil')
        for a in reversed(x['args']):
            r = C('UCons', uexpr(a), r)
        return C('UFun', C({'Add': 'FAdd', 'Mul': 'FMul', 'Clamp': 'FClamp', 'Coalesce': 'FCoalesce'}[x['func']]), r)
    raise ValueError('UpdateExpr ' + t)


def mutval(v):
    t, x = tag(v)
    if t == 'Value':
        return C('MVal', kv(x))
    if t == 'Param':
        return C('MParam', x)
    if t == 'Handle':
        return C('MHandle', x)
    if t == 'Variable':
        return C('MVarP', dotpath(x))
    if t == 'Array':
        return C('MArray', bvs(x))
    if t == 'Object':
        return C('MObject', bvo(x))
    if t == 'Expr':
        return C('MExpr', uexpr(x))
    raise ValueError('MutationValue ' + t)


def assignments(a):
    return [{'t': [k, mutval(x)]} for k, x in a]


def bobject(m):
    return [{'t': [k, bv(m[k])]} for k in sorted(m.keys())]


def facet_assign(f):
    return C('mkFA', symref(f['facet']), assignments(f['values']))


def facet_unset(f):
    return C('mkFU', symref(f['facet']), list(f['fields']))


def sedge(e):
    return C('mkEdge', symref(e['field']), mutval(e['value']), opt(bobject, e['options']))


def sremoval(e):
    return C('mkRemoval', symref(e['field']), mutval(e['value']))


def btarget(v):
    t, x = tag(v)
    if t == 'Proposition':
        return C('BTProp', x)
    if t == 'Id':
        return C('BTId', scalar(x))
    return C('BTTuple', term(x['subject']), predterm(x['predicate']), term(x['object']))


def wc(v):
    t, x = tag(v)
    if t in ('Concept', 'Assertion', 'Evidence', 'Activity'):
        return C('W' + t, x['variable'], matcher(x['matcher']))
    if t == 'Proposition':
        return C('WProp', opt(str, x['variable']), propm(x['matcher']))
    if t == 'Structural':
        return C('WStructural', opt(str, x['variable']), term(x['subject']), symref(x['field']), term(x['object']))
    if t == 'Belief':
        return C('WBelief', x['variable'], btarget(x['target']))
    if t == 'BeliefSlot':
        return C('WBeliefSlot', x['variable'], term(x['subject']), predatom(x['predicate']))
    if t == 'Filter':
        return C('WFilter', dumps(x))
    if t in ('Not', 'Optional', 'Union'):
        return C('W' + t, wcs(x))
    raise ValueError('WhereClause ' + t)


def wcs(items):
    r = C('WNil')
    for i in reversed(items):
        r = C('WCons', wc(i), r)
    return r


def clause(v):
    t, c = tag(v)
    oa = lambda x: opt(assignments, x)
    oe = lambda x: opt(lambda l: [sedge(e) for e in l], x)
    ow = lambda x: opt(wcs, x)
    os_ = lambda x: opt(scalar, x)
    if t == 'CreateConcept':
        return C(t, C('mkCC', c['handle'], opt(symref, c['type']), os_(c['client_key']), os_(c['name']),
                      oa(c['set_fields']), oa(c['set_attributes']), [facet_assign(f) for f in c['set_facets']],
                      oe(c['set_structural'])))
    if t == 'UpsertConcept':
        return C(t, C('mkCU', c['handle'], opt(matcher, c['match']), os_(c['expect_version']),
                      oa(c['set_fields']), oa(c['set_attributes']), [facet_assign(f) for f in c['set_facets']],
                      opt(list, c['unset_attributes']), [facet_unset(f) for f in c['unset_facets']],
                      oe(c['set_structural']), opt(lambda l: [sremoval(e) for e in l], c['unset_structural'])))
    if t in ('CreateEvidence', 'CreateAssertion', 'CreateActivity'):
        return C(t, record(c))
    if t == 'EnsureProposition':
        return C(t, ensure(c))
    if t == 'Update':
        acts = []
        for a in c['actions']:
            at, x = tag(a)
            if at in ('SetFields', 'SetAttributes'):
                acts.append(C('U' + at, assignments(x)))
            elif at == 'SetFacet':
                acts.append(C('USetFacet', facet_assign(x)))
            elif at == 'UnsetAttributes':
                acts.append(C('UUnsetAttributes', list(x)))
            elif at == 'UnsetFacet':
                acts.append(C('UUnsetFacet', facet_unset(x)))
            elif at == 'SetStructural':
                acts.append(C('USetStructural', [sedge(e) for e in x]))
            elif at == 'UnsetStructural':
                acts.append(C('UUnsetStructural', [sremoval(e) for e in x]))
            else:
                raise ValueError('UpdateAction ' + at)
        return C(t, C('mkUp', eref(c['target']), os_(c['expect_version']), acts, ow(c['where_clauses']), os_(c['limit'])))
    if t == 'RetractAssertion':
        return C(t, C('mkRetract', eref(c['target']), ow(c['where_clauses']), os_(c['limit']), os_(c['expect_state'])))
    if t in ('SupersedeAssertion', 'CorrectEvidence'):
        return C(t, by_stmt(c))
    if t == 'TransitionActivity':
        return C(t, C('mkTrans', eref(c['target']), scalar(c['to']), oa(c['set_fields']), oe(c['set_structural']),
                      os_(c['expect_state'])))
    if t == 'SetRetention':
        return C(t, C('mkRet', eref(c['target']), assignments(c['values']), ow(c['where_clauses']), os_(c['limit']),
                      os_(c['expect_version'])))
    if t in ('Archive', 'Tombstone'):
        return C(t, C('mkRem', eref(c['target']), ow(c['where_clauses']), os_(c['limit']), os_(c['expect_state'])))
    if t == 'Purge':
        return C(t, C('mkPurge', eref(c['target']), ow(c['where_clauses']), os_(c['limit']), os_(c['reference_policy']),
                      c['confirm']))
    if t == 'MergeConcept':
        return C(t, C('mkMerge', eref(c['source']), eref(c['into']), ow(c['where_clauses']), os_(c['expect_version'])))
    raise ValueError('MutationClause ' + t)


def record(c):
    return C('mkRC', c['handle'], opt(scalar, c['client_key']), opt(assignments, c['set_fields']),
             [facet_assign(f) for f in c['set_facets']], opt(lambda l: [sedge(e) for e in l], c['set_structural']))


def ensure(c):
    return C('mkEP', opt(str, c['handle']), term(c['subject']), predatom(c['predicate']), term(c['object']),
             opt(scalar, c['expect_version']))


def by_stmt(c):
    return C('mkBy', eref(c['target']), eref(c['by']), opt(scalar, c['expect_state']))


def command(v):
    t, x = tag(v)
    if t == 'Kql':
        return C('CKql')
    if t == 'Kml':
        return C('CKml', bool(x['explicit_transaction']), [clause(c) for c in x['clauses']])
    mt, m = tag(x)
    if mt == 'ExportCapsule':
        return C('CExport', eref(m['target']), wcs(m['where_clauses']), opt(bobject, m['options']), opt(dumps, m['as_of']))
    return C('CMetaOther')


def verdict(s):
    return C('VOk') if s == 'ok' else C('VErr', C(s))


# ------------------------------------------------------------------ the check
def run(ck):
    quick = ck.tier == 'quick'
    ck.rule = ('complete matrix: 15 clause families (CREATE CONCEPT, UPSERT CONCEPT, CREATE EVIDENCE/ASSERTION/ACTIVITY, '
               'UPDATE over 31 target forms incl. 20 shadowed typings, TRANSITION ACTIVITY, SET RETENTION, ASSERT members) '
               'x 7 blocks (SET FIELDS/ATTRIBUTES/FACET, UNSET ATTRIBUTES/FACET, SET/UNSET STRUCTURAL) x 31 field names '
               '(4 engine-owned, 18 payload, 9 ordinary) x 6 variants (exact, upper, capitalised, dotted, padded, prefixed) '
               'x bare/quoted spelling, as text through parse_kip and as injected trees through validate_command; 24 '
               'selection patterns x 8 selecting families on both paths; 65 single-guard statements; 27 hand-built '
               'trees; 4,896 enumerated multi-clause plans (every 2- and 3-subset of 13 clause templates and every 4-subset of 9, in '
               'every order: forward references, WHERE-bound vs plan-output vs sibling-WHERE-bound handles, double claims); '
               'UPDATE action LISTS: every pair and triple of the 7 action kinds (a kind repeated included) x the field under test '
               'in every position x 5 names x 7 target forms, on both paths; '
               'random multi-clause plans; single-node mutations of accepted trees; the ASSERT '
               'member matrix. non-trivial = a distinct model-compared tree that names an engine-owned or payload '
               'field, a typed target, a selection pattern, or has >= 2 clauses')
    ck.translate(only=['gen_kip'])
    ck.coq(['Kip/Props.v'], ['Kip', 'gen'], model_targets=['Kip/Run.vo'])
    ck.assume('field names are compared exactly, as the engine resolves them (kml/update.rs, kml/clauses.rs match on the exact '
              'name); case / dotted / padded spellings are therefore ordinary names',
              'the kind of a target addressed by id or :parameter is unknown to any static check and is enforced by the engine '
              '(kml/update.rs) — covered by C17/C18',
              'SET/UNSET STRUCTURAL edge names are resolved through the Schema Environment into the separate structural map '
              'and cannot address row fields (DESIGN.md C16, STRUCTURAL blocks)')
    ck.trust('serde JSON -> Coq term converter props/C16.py and the JSON oracle harness/h_kip/src/oracle.rs',
             'the nom text parser is exercised (complete matrix), not modelled: text -> tree is the real parse_kip')
    binary = ck.cargo('h_kip')
    if not binary:
        ck.finish()
    out = ck.work + '/c16.jsonl'
    args = ['c16', '--out', out] + (['--plans', '1000', '--mutations', '2000'] if quick
                                    else ['--plans', '5000', '--mutations', '20000'])
    rc, text = ck.run_harness(binary, args, timeout=3000)
    if not ck.ob('harness c16 ran', rc == 0 and os.path.exists(out), 'correspondence', text[-2000:]):
        ck.finish()
    trees, asserts, summary = [], [], None
    for line in open(out):
        r = json.loads(line)
        if r['kind'] == 'tree':
            trees.append(r)
        elif r['kind'] == 'assert':
            asserts.append(r)
        else:
            summary = r
    ck.count(summary['evaluations'])
    ck.cov['input_distribution'] = {k: summary[k] for k in (
        'texts', 'text_accepted', 'text_errors', 'injected', 'accepted', 'rejected', 'trees_written', 'families',
        'seeds', 'asserts', 'assert_accepted', 'graph_plans', 'action_lists')}

    # ---- direct oracle on the implementation (the failing-input search)
    by_cls = Counter(f['class'] for f in summary['failures'])
    for f in summary['failures']:
        ck.violation(f['class'], f['what'], True, {'failing_input': f['input'], 'accepted_tree': f.get('tree'),
                                                   'how': 'accepted by anda_kip::parse_kip / validate_command on the working tree'})
    ck.ob('implementation: every accepted tree of the matrix is safe under the independent oracle, accepted text passes '
          'validate_command and round-trips through JSON, ASSERT expands to its definition '
          '(%d texts, %d injected trees, %d ASSERT cases)' % (summary['texts'], summary['injected'], summary['asserts']),
          summary['oracle_failures'] == 0, 'correspondence',
          '%d failures; classes: %s; first: %s' % (summary['oracle_failures'], dict(by_cls), json.dumps(summary['failures'][:2])[:1500]))

    # ---- model = implementation, and safe_b on every accepted tree
    # quick tier: every refused tree, and per (path, family, verdict) bucket the trees that name an engine-owned or
    # payload field exactly plus a few others; thorough tier: every tree.  (The Rust oracle judged all of them.)
    import re
    hot = re.compile(r'(?<![\w.])(_system|governance|space_id|space_seq|proposition_id|proposition|asserted_by|stance|'
                     r'mode|confidence|asserted_at|valid_time|evidence|evidence_refs|evidence_class|payload|'
                     r'content_digest|media_type|observed_at|subject|predicate|object)(?![\w.])')
    if quick:
        per_bucket = {}
        chosen = []
        for r in trees:
            b = (r['path'], r['family'], r['verdict'])
            k = per_bucket.setdefault(b, [0, 0])
            is_hot = r['important'] and bool(hot.search(r['src']))
            if r['family'].startswith('graph'):
                k[1] += 1
                if k[1] % 4 == 1:
                    chosen.append(r)
            elif r['family'].startswith('actions'):
                # bucket = (path, target, list length, position, name, verdict); the first sequence of every bucket is the
                # one that repeats SET FIELDS, then an even stride over the 49 / 343 kind sequences
                k[1] += 1
                if k[1] % (12 if '/2/p' in r['family'] else 60) == 1:
                    chosen.append(r)
            elif r['verdict'] != 'ok' and not r['family'].startswith(('mutation', 'plan')):
                chosen.append(r)
            elif is_hot and k[0] < 6:
                k[0] += 1
                chosen.append(r)
            elif not is_hot and k[1] < 2:
                k[1] += 1
                chosen.append(r)
    else:
        chosen = trees
    cap = int(os.environ.get('VERIF_C16_COQ_CAP', '0') or 0)   # experiments on a loaded machine: subsample evenly
    if cap and len(chosen) > cap:
        step = len(chosen) / float(cap)
        chosen = [chosen[int(i * step)] for i in range(cap)]
    # converted and evaluated in chunks so that the thorough tier (every tree) stays within memory
    kept, conv_err, res = [], [], []
    chunk = 12000
    for lo in range(0, len(chosen), chunk):
        cases = []
        for r in chosen[lo:lo + chunk]:
            if r['verdict'].startswith('other:'):
                conv_err.append('unexpected error code %s for %s' % (r['verdict'], r['src'][:200]))
                continue
            try:
                cases.append({'t': [command(r['cmd']), verdict(r['verdict'])]})
                kept.append(r)
            except Exception as ex:  # a new AST shape the converter does not know is a broken tie, not a pass
                conv_err.append('%r on %s' % (ex, r['src'][:200]))
        res.extend(ck.eval_cases(IMPORTS, 'command * verdict', 'check_tree', cases, shard=150, timeout=3000,
                                 label='trees'))
        del cases
    ck.ob('every emitted tree converts to the Coq AST (%d of %d written trees compared)' % (len(kept), len(trees)),
          not conv_err, 'correspondence', '\n'.join(conv_err[:5]))
    bad = [i for i, x in enumerate(res) if x is not True]
    detail = ''
    if bad:
        from coqterm import to_coq
        i = bad[0]
        r = kept[i]
        term_txt = to_coq(command(r['cmd']))
        detail = 'case %d of %d disagreeing (%s path): %s\nimplementation: %s\nmodel: %s\nsafe_b: %s' % (
            i, len(bad), r['path'], r['src'][:600], r['verdict'],
            ck.eval_term(IMPORTS, 'run_validate ' + term_txt)[-200:], ck.eval_term(IMPORTS, 'safe_b ' + term_txt)[-100:])
    ck.ob('model validate_command = implementation verdict, and safe_b holds, on %d trees (%d accepted, %d refused)' % (
        len(kept), sum(1 for r in kept if r['verdict'] == 'ok'), sum(1 for r in kept if r['verdict'] != 'ok')),
        not bad, 'correspondence', detail)
    for i in bad[:200]:
        r = kept[i]
        if r['verdict'] == 'ok' and not summary['failures']:
            # accepted by the implementation, refused by the model or by safe_b, and the JSON oracle saw nothing
            ck.violation('model-disagreement', 'accepted tree the model refuses or safe_b rejects', False,
                         {'input': r['src'], 'tree': r['cmd']})
    for r in kept:
        if r['important'] or len((r['cmd'].get('Kml') or {}).get('clauses', [])) >= 2:
            ck.nontrivial((r['verdict'], dumps(r['cmd'])))
    for r in [x for x in kept if x['important']][:3]:
        ck.sample({'input': r['src'][:300], 'path': r['path'], 'verdict': r['verdict']})

    # ---- ASSERT expansion: model desugar = implementation
    acases, akept, aerr = [], [], []
    astride = 3 if quick else 1
    if cap:
        astride = max(astride, len(asserts) // max(1, cap // 3))
    for i, r in enumerate(asserts):
        if i % astride:
            continue
        try:
            e = r['ensure']
            src = C('mkAssert', opt(str, r['handle']), term(e['subject']), predatom(e['predicate']), term(e['object']),
                    assignments(r['members']), opt(eref, r['superseding']))
            obs = None if r['obs'] is None else {'some': [clause(c) for c in r['obs']]}
            acases.append({'t': [src, {'nat': r['seq']}, obs]})
            akept.append(r)
        except Exception as ex:
            aerr.append('%r on %s' % (ex, r['src'][:200]))
    ares = ck.eval_cases(IMPORTS, 'acase', 'check_desugar', acases, shard=120, timeout=3000, label='asserts')
    abad = [i for i, x in enumerate(ares) if x is not True]
    detail = '\n'.join(aerr[:3])
    if abad:
        r = akept[abad[0]]
        detail += '\n%d disagree; first: %s\nimplementation produced: %s' % (len(abad), r['src'], json.dumps(r['obs'])[:1500])
        if not any(f['class'] == 'assert-expansion' for f in summary['failures']):
            ck.violation('assert-expansion', 'ASSERT expands differently from its definition (model desugar)', True,
                         {'failing_input': r['src'], 'implementation_clauses': r['obs']})
    ck.ob('model ASSERT expansion = implementation on %d cases (%d expanded, %d refused)' % (
        len(acases), sum(1 for r in akept if r['obs'] is not None), sum(1 for r in akept if r['obs'] is None)),
        not abad and not aerr, 'correspondence', detail)
    for r in akept:
        ck.nontrivial(('assert', r['src']))
    ck.count(len(kept) + len(acases))
    ck.finish(exhaustive=True)
