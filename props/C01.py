"""C01 — flushed documents survive any crash and recovery always converges (DESIGN.md section 4 / C01; partial)."""
import collcommon as cc

META = {
    'category': 'proof',
    'text': ('Coq model of the crash protocol of one collection (backend objects: documents, meta{max_id, registered indexes}, '
             'ids, checkpoint, intents{id, previous, proposed}, watermark, one posting snapshot per index; operations are '
             'interpretations of the step orders re-extracted from collection.rs/database.rs on every run). Proved for all '
             'backends satisfying the durable invariant I1-I5: Collection::open succeeds and rebuilds exactly the stored '
             'documents and their postings (reopen_total, recovery converges). Certified monitors durable_ok / mt judge the '
             'real implementation: generated workloads x every crash point k x nested crashes of the recovery x three backends '
             'x unknown-outcome faults; after each recovery get(id) for every id is compared with the acknowledged/flushed '
             'documents (in-flight operation all-or-nothing), a post-recovery add must get a fresh id and persist.'),
    'design_ref': 'DESIGN.md section 4 / C01',
    'note': ('partial: the induction over histories with arbitrarily nested crashes (reachable_invariant, reopens, id_not_reused, '
             'recovery_idempotent) is proved for add/update/remove/flush; save_extension, index creation/removal and the open '
             'callback are outside it (proved to write no document; explored on the implementation at every k, nested j). '
             'Below the backend-call granularity nothing is claimed. Index flushes are one atomic step in the model (C10/C11).'),
    'technique': 'Coq proof (invariant + recovery convergence) + translator-generated step orders + certified monitors over a crash explorer',
}


def run(ck):
    quick = ck.tier == 'quick'
    ck.rule = ('generated workloads (12-18 ops over add/update/remove/flush/save_extension/compact/close+reopen with index '
               'creation+removal in the callback/rejected writes; tiny index buckets for 1/2 of them; every 8th workload is a long unflushed tail: a flush, then a run of 3..130 consecutive ids left without a document (added and removed again, or burned by adds the unique index rejects; below, at and above the allocation-watermark stride), then acknowledged adds, killed without close) x every crash point k '
               '(crash after the k-th backend mutation, k = total: killed after the last acknowledged op) x nested crash of the recovery at every j for every 9th crashed k (quick; '
               'every 5th + a third level in thorough) x {InMemory, MetaStore, EncryptedStore} x every 4th (quick) / every '
               '(thorough) mutating call failing with an unknown outcome; non-trivial = a recovery with >= 2 stored documents '
               'and an operation in flight')
    cc.coq_part(ck)
    binary = ck.cargo('h_collcrash')
    if binary:
        args = (['--workloads', '40', '--ops', '15', '--nested-every', '9', '--nested-all', '--flaky-every', '4',
                 '--backends', 'mem,meta,enc', '--model-every', '24'] if quick else
                ['--workloads', '160', '--ops', '20', '--nested-every', '5', '--nested-all', '--nested2', '--flaky-every', '2',
                 '--backends', 'mem,meta,enc', '--model-every', '400'])
        summary, c01, c02, logs = cc.run_explorer(ck, binary, 'c01', args, 'crash')
        if summary:
            ck.count(summary['evaluations'])
            ck.cov['input_distribution'] = cc.distribution(summary)
            for i in range(summary['distinct_nontrivial']):
                ck.nontrivial(('c01', i))
            mine = cc.report_failures(ck, summary, cc.C01_CLASSES, 'c01')
            other = [f for f in summary['failures'] if f['class'] not in cc.C01_CLASSES]
            ck.ob('implementation: every recovery (%d; %d crash points, %d nested, %d unknown-outcome) reopens, returns the '
                  'acknowledged documents, keeps the in-flight operation all-or-nothing, hands out a fresh id and persists a new write'
                  % (summary['recoveries'], summary['crash_points'], summary['nested_points'] + summary['nested2_points'],
                     summary['unknown_outcome_points']),
                  not mine, 'monitor', '\n'.join(f['what'][:400] for f in mine[:3]))
            ck.ob('crash injection is effective (%d of %d crash points fired)' % (summary['crashes_fired'], summary['crash_points']),
                  summary['crash_points'] > 0 and summary['crashes_fired'] * 10 >= summary['crash_points'] * 8, 'monitor')
            if other:
                ck.cov['index_failures_reported_under_C02'] = len(other)
            cc.judge(ck, 'check_durable', 'c01case', c01, 'recoveries (spec vs get(id) of every id)', 'c01')
            cc.judge(ck, 'check_log', 'string * list ev', logs,
                     'per-operation backend mutation logs (shape prescribed by the generated step orders)', 'logs')
            for c in c01[:2]:
                ck.sample({'spec_and_observation': c})
            for c in logs[:3]:
                ck.sample({'mutation_log': c})
    ck.finish()
