"""C02 — every index answers exactly from the stored documents (DESIGN.md section 4 / C02)."""
import collcommon as cc

META = {
    'category': 'proof',
    'text': ('Coq model of index-key derivation (null skipped, array and map-key expansion, composite key, I64/U64 read-back '
             'canonicalisation, token postings, vector presence) and a monitor consistent_b proved sound for the two-directional '
             'statement (every id an index returns is a live document deriving that key, every derived key finds its document; '
             'ids() = fetchable documents; counts agree). The protocol model proves that recovery from any invariant-satisfying '
             'backend rebuilds exactly derive(stored documents) for every registered index, and the generated create order is '
             'backfill, persist, then register. The monitor judges full dumps of the real collection (query_all_ids(Eq k) for every '
             'key ever written, BM25 term search, HNSW search and size) at every quiescent point of generated histories with '
             'rejected writes mixed in and after every recovery of the C01 crash explorer; the harness compares the same dumps '
             'with f(stored documents) computed from its own copy.'),
    'design_ref': 'DESIGN.md section 4 / C02',
    'note': ('Proved: recovery establishes Consistent and every completed add/update/remove/flush preserves it; for rejected writes '
             'the rollback closures of add/update/remove are proved, over the generated order of their loops and the generated '
             'registration points, to restore the entry of the document id in the id-keyed indexes (BM25, HNSW) whichever stage '
             'refused (the B-tree reverse update and index creation/removal are monitor-checked only). Rejections are produced at '
             'the schema stage (wrong type), the B-tree stage (duplicate unique value) and the HNSW stage (wrong dimension, NaN, '
             'infinity); the BM25 stage cannot reject through the public API (tokenless text is accepted by design). HNSW: soundness of search results, '
             'entry count and self-retrieval are checked (recall is C12). Text is tokenised by the implementation (trusted).'),
    'technique': 'Coq proof (derivation model, sound monitor, recovery convergence) + translator-generated orders + correspondence of full index dumps',
}


def run(ck):
    quick = ck.tier == 'quick'
    ck.rule = ('7 of 100 ops are writes one stage must reject (update 2/3, add 1/3; HNSW wrong dimension 3 and 5, NaN, infinity; schema '
               'wrong type; besides the duplicate-uid adds/updates), on documents that carry a value in every index kind, with other '
               'fields changed in the same patch; 1/3 of them are followed by flush + reopen; an accepted invalid write is a failure; '
               'histories of 10-24 ops over a schema with a unique text field, U64, I64, optional text, text array, wildcard map, '
               'text body and vector; ten indexes (unique, scalar, optional, array, map-keyed, composite, 2 x BM25, HNSW) created and '
               'removed across reopens; full two-directional dump after every op (quiescent) and after every recovery (every crash '
               'point k, nested for a sample, 3 backends, unknown-outcome faults); non-trivial = a dump with >= 2 stored documents')
    cc.coq_part(ck)
    binary = ck.cargo('h_collcrash')
    if binary:
        qargs = (['--quiescent-only', '--workloads', '300', '--ops', '22', '--model-every', '12'] if quick else
                 ['--quiescent-only', '--workloads', '6000', '--ops', '26', '--model-every', '150'])
        cargs = (['--workloads', '24', '--ops', '14', '--nested-every', '11', '--nested-all', '--flaky-every', '5',
                  '--backends', 'mem,meta,enc', '--model-every', '24', '--sentinel-every', '6'] if quick else
                 ['--workloads', '120', '--ops', '20', '--nested-every', '5', '--nested-all', '--nested2', '--flaky-every', '2',
                  '--backends', 'mem,meta,enc', '--model-every', '250'])
        dist = {}
        cases = []
        for label, args in (('quiescent', qargs), ('recovery', cargs)):
            summary, _c01, c02, _logs = cc.run_explorer(ck, binary, 'c02', args, label)
            if not summary:
                continue
            ck.count(summary['evaluations'])
            dist[label] = cc.distribution(summary)
            for i in range(summary['distinct_nontrivial']):
                ck.nontrivial((label, i))
            mine = cc.report_failures(ck, summary, cc.C02_CLASSES, label)
            ck.ob('implementation (%s): all %d full index dumps equal f(stored documents) in both directions; ids = fetchable documents'
                  % (label, summary['evaluations']), not mine, 'correspondence', '\n'.join(f['what'][:400] for f in mine[:3]))
            cases += c02
        ck.cov['input_distribution'] = dist
        cc.judge(ck, 'check_consistent', 'c02case', cases, 'index dumps', 'c02')
        for c in cases[:2]:
            ck.sample({'indexes_and_dump': c})
    ck.finish()
