"""C04 — unique constraints always hold; a rejected write leaves no trace (DESIGN.md section 4 / C04)."""
import json
import os

META = {
    'category': 'proof',
    'text': ('Coq theorems over an executable sequential model of Collection::add/update/remove on its B-tree indexes '
             '(derive = null skipped, array expansion, composite tuple; unique indexes first; the code\'s step order and '
             'rollback closures; BTree::update = insert(new)? then remove(old); insert_array pre-check + per-key '
             're-check; batch_update by set difference), proved for ALL histories by induction: every posting is '
             'derived from the stored documents, a unique index has at most one owner per key in every reachable '
             'state (also after rollbacks and storage faults), an operation that returns an error leaves documents, '
             'ids and all postings identical, a released value is free and a free value is insertable; and a '
             'small-step model of any number of writers contending for one key (atomic test-and-insert, then the '
             'storage write, then registration; failed add runs its rollback) with one winner for every interleaving '
             'and a final state equal to a sequential order; and a second small-step model of any number of writers each '
             'replacing its key SET in one unique array index (pre-check, per-key test-and-insert, per-key removal, '
             'compensation on the failing index) proving that for every schedule the index stays unique and a rejected '
             'writer keeps exactly its old keys. Tied to the source by translator-generated facts '
             '(step orders, rollback shapes, insert-before-remove, position 0) and by a correspondence run of generated '
             'histories through the real Collection with a direct oracle (full observable state before/after every '
             'rejected write, postings vs. documents after every operation, insertability probes; BM25/HNSW state in '
             'oracle-only histories), a concurrent run with seeded interleavings, a systematic enumeration of all '
             'interleavings of backend calls of 2-3 writers over a parked backend, and crash points of such histories '
             '(FaultStore power failure, reopen, unique invariant and postings = documents after recovery).'),
    'design_ref': 'DESIGN.md section 4 / C04',
    'note': ('Trusted: Coq kernel + vm_compute; translator (regex anchors); harness h_uniq and its canonicalisation. '
             'Modelled, not verified: postings as sets (UniqueVec order, bucket accounting, the ordered key set and '
             'flush are C10), composite key = injective tuple, Null == missing for indexing, storage faults as an '
             'oracle input; BM25/HNSW rollback closures are checked by the direct oracle only (not in the Coq model); '
             'doc_locks/operation gate are C05; recovery itself is C01 (here only: the unique invariant and postings = '
             'documents hold after recovery at sampled/all crash points). In the array-update concurrent model the '
             'idempotent re-insert of the old keys during compensation is not a step (it changes no state). '
             'Finding conc-rejected-array-update-leaves-postings fixed by 197295c (witness for the old order: '
             'C04_conc_array_update_partial_refuted).'),
    'technique': 'Coq proof (invariant by induction over histories; small-step interleaving invariant) + translator-generated facts + differential model/impl run + direct oracle',
}

IMPORTS = 'From Verif Require Import Uniq.Model Uniq.Run.'


def run(ck):
    quick = ck.tier == 'quick'
    ck.rule = ('histories of 4..36 (quick) / 4..60 (thorough) add/update/remove operations over a 6-field schema '
               '(unique Text, unique Option<Array<Text>>, U64, Option<Text>, Option<U64>, plain) with a random subset '
               'and creation order of {unique scalar, unique array, multi-field (a,b), multi-field (email,grp), '
               'non-unique grp, non-unique a} indexes; values from small universes so conflicts are frequent; '
               'invalid types, Null for required, missing required, unknown fields, empty updates, missing ids; '
               'non-trivial = a model-compared history with at least one accepted and one rejected write; '
               'concurrency: rounds of 2-3 tasks contending for one unique scalar / array element / tuple')
    ck.translate()
    ck.coq(['Uniq/Props.v'], ['Uniq'], model_targets=['Uniq/Run.vo'])
    ck.assume('single handle, default IndexHooks, B-tree indexes only (BM25/HNSW rollback is the same closure shape, not modelled)',
              'index fields exist in the schema (create_btree_index checks it) - premise wf_indexes of the theorems',
              'uniqueness re-check and posting mutation happen under one dashmap entry lock (generated fact '
              'insert_unique_check_under_entry_lock) - the atomic test-and-insert of the concurrent model')
    binary = ck.cargo('h_uniq')
    if not binary:
        ck.finish()
        return
    # ------------------------------------------------------------------ sequential histories
    out = ck.work + '/seq.jsonl'
    args = ['seq', '--out', out] + (['--cases', '200', '--len', '36'] if quick else ['--cases', '1600', '--len', '60'])
    rc, text = ck.run_harness(binary, args, timeout=3000)
    ok = ck.ob('harness h_uniq seq ran', rc == 0 and os.path.exists(out), 'correspondence', text[-2000:])
    if ok:
        rows = [json.loads(l) for l in open(out)]
        summary = [r for r in rows if r['kind'] == 'summary'][-1]
        model_rows = [r for r in rows if r['kind'] == 'model']
        ck.count(summary['evaluations'])
        ck.cov['input_distribution'] = {k: summary[k] for k in ('cases', 'op_outcomes', 'history_lengths', 'indexes_per_schema',
                                                                'rejected_noop_checks', 'insertable_probes', 'aux_cases_bm25_hnsw_oracle_only')}
        for f in summary['failures']:
            cls = f['what'].split(':')[0]
            ck.violation(cls, f['what'][:600], True, {'failing_input': f})
        ck.ob('implementation: after every operation postings = derive(documents), unique keys have one owner, a '
              'rejected write leaves the full observable state identical, free unique values are insertable '
              '(%d histories, %d rejected writes compared, %d probes)' % (summary['cases'], summary['rejected_noop_checks'],
                                                                          summary['insertable_probes']),
              summary['oracle_failures'] == 0, 'correspondence', json.dumps(summary['failures'][:2])[:3000])
        cases = [{'t': [r['case'], r['obs']]} for r in model_rows]
        res = ck.eval_cases(IMPORTS, 'ucase * uobs', 'check_case', cases, shard=12)
        bad = [i for i, r in enumerate(res) if r is not True]
        for r in model_rows:
            results = r['obs']['t'][0]
            kinds = {x['c'] for x in results}
            if 'RErr' in kinds and ({'RId', 'ROk'} & kinds):
                ck.nontrivial(r['case'])
        for r in model_rows[:2]:
            ck.sample({'ops': r['case']['t'][2][:6], 'results': r['obs']['t'][0][:6]})
        detail = ''
        if bad:
            from coqterm import to_coq
            i = bad[0]
            looks = [{'t': [x['t'][0], x['t'][1]]} for x in model_rows[i]['obs']['t'][3]]
            detail = 'case %d: %s\nobserved: %s\nmodel: %s' % (
                i, json.dumps(model_rows[i]['case'])[:3000], json.dumps(model_rows[i]['obs'])[:3000],
                ck.eval_term(IMPORTS, 'show_case %s %s' % (to_coq(model_rows[i]['case']), to_coq(looks)))[:3000])
        ck.ob('model = implementation on %d histories (accept/reject + error class of every operation, final ids, '
              'documents, every queried posting, poison flag)' % len(cases), not bad, 'correspondence', detail)
    # ------------------------------------------------------------------ concurrent contenders
    out2 = ck.work + '/conc.jsonl'
    args = ['conc', '--out', out2] + (['--rounds', '240', '--wide', '40'] if quick else ['--rounds', '3000', '--wide', '600'])
    rc, text = ck.run_harness(binary, args, timeout=3000)
    ok = ck.ob('harness h_uniq conc ran', rc == 0 and os.path.exists(out2), 'correspondence', text[-2000:])
    if ok:
        summary = [json.loads(l) for l in open(out2)][-1]
        ck.count(summary['evaluations'])
        ck.cov['concurrent_rounds'] = {'rounds': summary['rounds'], 'runtimes': summary['runtimes']}
        for f in summary['failures']:
            cls = f['what'].split(':')[0]
            ck.violation(cls, f['what'][:600], True, {'failing_input': f})
        ck.ob('implementation: %d rounds of 2-3 concurrent writers contending for one unique value: exactly one winner '
              '(none when the value is held), losers get the uniqueness error, final state = the winner\'s operation alone, '
              'postings = derive(documents)' % summary['rounds'],
              all(ck.is_known(f['what'].split(':')[0]) for f in summary['failures']) and
              summary['oracle_failures'] == len(summary['failures']),
              'correspondence', json.dumps(summary['failures'][:2])[:3000])
    # ------------------------------------------------------------------ every interleaving over a parked backend
    out3 = ck.work + '/sys.jsonl'
    rc, text = ck.run_harness(binary, ['sys', '--out', out3, '--cap', '150' if quick else '4000'], timeout=3000)
    ok = ck.ob('harness h_uniq sys ran', rc == 0 and os.path.exists(out3), 'correspondence', text[-2000:])
    if ok:
        summary = [json.loads(l) for l in open(out3)][-1]
        ck.count(summary['evaluations'])
        ck.cov['systematic_interleavings'] = summary['scenarios']
        for f in summary['failures']:
            ck.violation(f['what'].split(':')[0], f['what'][:600], True, {'failing_input': f})
        ck.ob('implementation: every interleaving of backend calls (parked backend, depth-first, cap per scenario) of '
              '%d writer sets contending for one unique value: one winner, final state = the successful operations, '
              'postings = derive(documents) (%d runs)' % (len(summary['scenarios']), summary['evaluations']),
              summary['oracle_failures'] == 0, 'correspondence', json.dumps(summary['failures'][:2])[:3000])
    # ------------------------------------------------------------------ crash points
    out4 = ck.work + '/crash.jsonl'
    args = ['crash', '--out', out4] + (['--cases', '6', '--points', '10'] if quick else ['--cases', '30', '--points', '0'])
    rc, text = ck.run_harness(binary, args, timeout=3000)
    ok = ck.ob('harness h_uniq crash ran', rc == 0 and os.path.exists(out4), 'correspondence', text[-2000:])
    if ok:
        summary = [json.loads(l) for l in open(out4)][-1]
        ck.count(summary['evaluations'])
        ck.cov['crash_recovery'] = {k: summary[k] for k in ('cases', 'recoveries', 'crash_points_in_histories')}
        for f in summary['failures']:
            ck.violation(f['what'].split(':')[0], f['what'][:600], True, {'failing_input': f})
        ck.ob('implementation: power failure at %d crash points of C04 histories, reopen: every recovered document is a '
              'version the history wrote, no two share a unique key, postings = derive(recovered documents), a fresh '
              'write is accepted' % summary['recoveries'],
              summary['oracle_failures'] == 0, 'correspondence', json.dumps(summary['failures'][:2])[:3000])
    ck.finish()
