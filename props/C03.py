"""C03 — filters follow set algebra; a bounded page is an end of the full result (DESIGN.md section 4 / C03)."""
import json
import os
import re

META = {
    'category': 'proof',
    'text': ('Coq theorems over an executable model that transcribes filter_by_field_with / filter_by_id / the B-tree '
             'range scan (range_query_inner, range_keys, UniqueVec) / ScanOrder::truncate / query_ids_from / the filter '
             'stage of search_ids: for every well-formed collection, every filter tree, every candidate set, either scan '
             'direction and every FxHashSet iteration order, unbounded evaluation returns exactly the set-algebra reading '
             '(ascending, duplicate-free); query_ids / query_last_ids return the first / last min(limit, MAX) elements of '
             'that full result whatever the shape; logically equivalent filters give equal pages; a search with a filter '
             'returns the candidates in their order restricted to the same match set. Tied to the source by facts '
             're-extracted on every run (limits, the limit argument of every operand evaluation, the form of the B-tree '
             'leaf, entry-point orders) and by a correspondence run of the model against the real Collection on '
             'generated collections whose ids are uncorrelated with key order, with a direct set-algebra oracle.'),
    'design_ref': 'DESIGN.md section 4 / C03',
    'note': ('Trusted: Coq kernel + vm_compute; translator tools/gen_limits.py; harness h_filter (public API only, no hook). '
             'Modelled, not verified: BTreeSet::range / DashMap lookups as list filters and association lookups; keys as Z '
             '(Text keys through an order-preserving encoding); errors (unknown index, key type mismatch) are outside the '
             'model; the candidate list of a search (BM25/HNSW/RRF) is an input of the model, taken from the real index.'),
    'technique': 'Coq proof (nested induction over filter / range-query trees, canonical sorted lists) + translator-generated '
                 'facts + differential model/impl run with a set-algebra oracle',
}

IMPORTS = 'From Verif Require Import Filter.Model Filter.Run.'


def run(ck):
    from coqterm import to_coq
    quick = ck.tier == 'quick'
    ck.rule = ('collections of 1..40 (quick) / 1..200 (thorough) documents plus collections larger than MAX_SEARCH_LIMIT, '
               'built by add/remove/update so that ids are uncorrelated with key order, over _id and four B-tree indexes '
               '(U64 with duplicates and missing values, Text, U64 array, I64 with negatives); random filter trees to depth '
               '4 (quick) / 6 (thorough) over Eq/Gt/Ge/Lt/Le/Between (incl. inverted)/Include (incl. duplicates)/And/Or/Not '
               'at both levels, plus And[f] / Or[f] / Not(Not f) re-shapings; limits None, 0, 1, 2, n+1, a cutting limit, '
               'MAX, MAX+1; query_ids, query_last_ids, query_all_ids, search_ids (filter only and over BM25 candidates). '
               'non-trivial = a distinct (collection, filter, entry, limit) whose limit is smaller than the match set')
    ck.translate()
    ck.coq(['Filter/Props.v', 'Filter/PropsFixed.v'], ['Filter', 'gen'], model_targets=['Filter/Run.vo'])
    ck.trust('model premise HashOrder: an FxHashSet iterates each of its elements exactly once, in some order '
             '(the theorems hold for every order; the runner uses ascending order)',
             'model premise WF: ids ascending; each index has ascending keys and lists only live ids '
             '(checked on every dumped collection by wf_coll; C03_wf_check_sound)')
    ck.assume('BTreeSet::range and DashMap::get behave as a filter over the ascending key list and an association lookup',
              'keys are modelled as integers; Text keys reach the model through an order-preserving encoding',
              'errors (unknown index name, key of the wrong type, over-budget filters) are not part of the model; '
              'the generator stays inside the complexity budget',
              'the candidate list of a search is the real BM25 index\'s answer, handed to the model as an input')
    binary = ck.cargo('h_filter')
    if not binary:
        ck.finish()
    out = ck.work + '/c03.jsonl'
    if quick:
        args = ['--colls', '30', '--maxdocs', '40', '--filters', '8', '--depth', '4', '--big', '1']
    else:
        args = ['--colls', '300', '--maxdocs', '200', '--filters', '16', '--depth', '6', '--big', '2']
    rc, text = ck.run_harness(binary, ['--out', out] + args, timeout=1500)
    if not ck.ob('harness h_filter ran', rc == 0 and os.path.exists(out), 'correspondence', text[-2000:]):
        ck.finish()
    rows = [json.loads(l) for l in open(out)]
    summary = [r for r in rows if r['kind'] == 'summary'][-1]
    model_rows = [r for r in rows if r['kind'] == 'model']
    ck.count(summary['evaluations'])
    ck.cov['input_distribution'] = {k: summary[k] for k in (
        'collections', 'collection_sizes', 'top_level_shapes', 'cutting_evaluations',
        'collections_with_key_order_not_id_order', 'max_search_limit')}
    ck.cov['fraction_limit_cuts_match_set'] = round(summary['cutting_evaluations'] / max(1, summary['evaluations']), 3)

    # direct oracle on the implementation: the set-algebra reading over the harness's own documents
    for f in summary['failures']:
        ck.violation(f['class'], f['what'][:400], True, {'failing_input': f})
    ck.ob('implementation = set-algebra reading (match set, first/last page, search restriction) on %d evaluations over %d collections'
          % (summary['evaluations'], summary['collections']),
          summary['oracle_failures'] == 0, 'correspondence',
          '%d failures; first: %s' % (summary['oracle_failures'], json.dumps(summary['failures'][:1])[:1500]))
    ck.ob('every dumped index lists exactly the keys/ids of the documents written (model input is the real index)',
          summary['dump_problem_count'] == 0, 'correspondence', json.dumps(summary['dump_problems'])[:1500])
    ck.ob('ids are uncorrelated with key order in the generated collections (%d of %d collections have an inversion)'
          % (summary['collections_with_key_order_not_id_order'], summary['collections']),
          summary['collections_with_key_order_not_id_order'] * 2 >= summary['collections'], 'correspondence', '')

    # model vs implementation
    cases = [{'t': [r['case'], r['obs']]} for r in model_rows]
    res = ck.eval_cases(IMPORTS, 'mcase * mobs', 'check_case', cases, shard=2 if quick else 8, timeout=1200)
    nq = 0
    for ci, r in enumerate(model_rows):
        qs = r['case']['t'][1]
        nq += len(qs)
        for q in qs:
            if q['t'][2] is True:
                ck.nontrivial((ci, json.dumps(r['case']['t'][0], sort_keys=True)[:4000], json.dumps(q, sort_keys=True)))
    for r in model_rows[:1] + model_rows[2:3]:
        qs = r['case']['t'][1]
        k = min(len(qs) - 1, 1)
        ck.sample({'collection': r['case']['t'][0], 'query': qs[k], 'observed': r['obs'][k]})
    bad = [i for i, v in enumerate(res) if v is not True]
    detail = ''
    if bad:
        i = bad[0]
        outp = ck.eval_term(IMPORTS, 'diff_case (%s, %s)' % (to_coq(model_rows[i]['case']), to_coq(model_rows[i]['obs'])))
        m = re.search(r'\[\s*(\d+)', outp.split('=', 1)[-1]) if 'false' not in outp.split(',')[0] else None
        detail = 'collection %d: diff_case = %s' % (i, outp[-600:])
        if m:
            k = int(m.group(1))
            q = model_rows[i]['case']['t'][1][k]
            mv = ck.eval_term(IMPORTS, 'run_query (mk_coll %s) %s' % (to_coq(model_rows[i]['case']['t'][0]), to_coq(q)))
            detail += '\nquery %d: %s\nobserved: %s\nmodel: %s' % (k, json.dumps(q)[:1500], json.dumps(model_rows[i]['obs'][k])[:600], mv[-600:])
    ck.ob('model = implementation on %d collections / %d queries (wf_coll holds of every dump)' % (len(cases), nq),
          not bad, 'correspondence', detail)
    ck.finish()
