"""C03 — filters follow set algebra; a bounded page is an end of the full result (DESIGN.md section 4 / C03)."""
import json
import os
import re

META = {
    'category': 'proof',
    'text': ('Coq theorems over an executable model that transcribes filter_by_field_with / filter_by_id / the B-tree '
             'range scan (range_query_inner, range_keys, UniqueVec) / ScanOrder::truncate / query_ids_from / the filter '
             'stage of search_ids: for every well-formed collection, every filter tree, every candidate set, either scan '
             'direction and every FxHashSet iteration order, unbounded evaluation returns exactly the set-algebra reading '
             '(ascending, duplicate-free); query_ids / query_last_ids return the first / last min(limit, MAX) elements of '
             'that full result whatever the shape; logically equivalent filters give equal pages; a search with a filter '
             'returns the candidates in their order restricted to the same match set. Tied to the source by facts '
             're-extracted on every run (limits, the limit argument of every operand evaluation, the form of the B-tree '
             'leaf, entry-point orders) and by a correspondence run of the model against the real Collection on '
             'generated collections whose ids are uncorrelated with key order, with a direct set-algebra oracle.'),
    'design_ref': 'DESIGN.md section 4 / C03',
    'note': ('Trusted: Coq kernel + vm_compute; translator tools/gen_limits.py; harness h_filter (public API only, no hook). '
             'Modelled, not verified: BTreeSet::range / DashMap lookups as list filters and association lookups; keys as Z '
             '(Text keys through an order-preserving encoding); the candidate list of a search (BM25/HNSW/RRF) is an input of the model, rebuilt from the real indexes and checked against the unfiltered search.'),
    'technique': 'Coq proof (nested induction over filter / range-query trees, canonical sorted lists) + translator-generated '
                 'facts + differential model/impl run with a set-algebra oracle',
}

IMPORTS = 'From Verif Require Import Filter.Model Filter.Run.'


def run(ck):
    from coqterm import to_coq
    quick = ck.tier == 'quick'
    ck.rule = ('collections of 1..40 (quick) / 1..200 (thorough) documents plus collections larger than MAX_SEARCH_LIMIT, '
               'built by add/remove/update so that ids are uncorrelated with key order, over _id and four B-tree indexes '
               '(U64 with duplicates and missing values, Text, U64 array, I64 with negatives); random filter trees to depth '
               '4 (quick) / 6 (thorough) over Eq/Gt/Ge/Lt/Le/Between (incl. inverted)/Include (incl. duplicates)/And/Or/Not '
               'at both levels, plus And[f] / Or[f] / Not(Not f) re-shapings; limits None, 0, 1, 2, n+1, a cutting limit, '
               'MAX, MAX+1 and every limit 0..n+1 for collections of <= 8 documents; query_ids, query_last_ids, query_all_ids, search_ids '
               '(filter only; text over two BM25 indexes, vector over an HNSW index, and hybrid, with limits 1..3 on collections of '
               '60..300 documents so that the fused candidate list exceeds top_k = 10*limit, under filters of every top-level shape '
               'that keep most documents); an error stream (unknown index, unconvertible keys, alone and inside And/Or/Not) '
               'and a budget stream at and one past each MAX_FILTER_* / include bound. '
               'non-trivial = a distinct (collection, filter, entry, limit) whose limit is smaller than the match set')
    # only Gen_Limits concerns this property: regenerate exactly that file (a lost anchor of another
    # property's generator is that property's broken obligation, not this one's)
    import sys
    import vlib
    with vlib.Lock('coq'):
        rc_t, out_t, _ = vlib.sh([sys.executable, vlib.ROOT + '/tools/translate.py', '--repo', vlib.REPO,
                                  '--out', vlib.COQ + '/gen', '--only', 'gen_limits'], timeout=300)
    lost = [l for l in out_t.splitlines() if l.startswith('LOST-ANCHOR')]
    ck.ob('translator regenerates gen/Gen_Limits.v from /repo working tree', rc_t == 0 and not lost, 'generated',
          out_t if (rc_t != 0 or lost) else '')
    ck.trust('translator /verif/tools/translate.py + tools/gen_limits.py (regex extraction of limits, operand limit arguments, '
             'leaf form and entry-point orders from Rust source)')
    ck.coq(['Filter/Props.v', 'Filter/PropsFixed.v'], ['Filter', 'gen'], model_targets=['Filter/Run.vo'])
    ck.trust('model premise HashOrder: an FxHashSet iterates each of its elements exactly once, in some order '
             '(the theorems hold for every order; the runner uses ascending order)',
             'model premise WF: ids ascending; each index has ascending keys and lists only live ids '
             '(checked on every dumped collection by wf_coll; C03_wf_check_sound)')
    ck.assume('BTreeSet::range and DashMap::get behave as a filter over the ascending key list and an association lookup',
              'keys are modelled as integers; Text keys reach the model through an order-preserving encoding',
              'errors are modelled as the first error in evaluation order (eval_err) beside the value function (eval); '
              'a leaf with a key the index cannot convert is the model constructor FFieldBad',
              'the candidate list of a search is rebuilt from the real indexes\' own answers (BM25 x2, HNSW) fused by the public RRF reranker and handed to the model as an input; it is checked against the unfiltered search')
    binary = ck.cargo('h_filter')
    if not binary:
        ck.finish()
    out = ck.work + '/c03.jsonl'
    if quick:
        args = ['--colls', '30', '--maxdocs', '40', '--filters', '8', '--depth', '4', '--big', '1', '--hybrid', '4']
    else:
        args = ['--colls', '300', '--maxdocs', '200', '--filters', '16', '--depth', '6', '--big', '2', '--hybrid', '30']
    rc, text = ck.run_harness(binary, ['--out', out] + args, timeout=1500)
    if not ck.ob('harness h_filter ran', rc == 0 and os.path.exists(out), 'correspondence', text[-2000:]):
        ck.finish()
    rows = [json.loads(l) for l in open(out)]
    summary = [r for r in rows if r['kind'] == 'summary'][-1]
    model_rows = [r for r in rows if r['kind'] == 'model']
    ck.count(summary['evaluations'])
    ck.cov['input_distribution'] = {k: summary[k] for k in (
        'collections', 'collection_sizes', 'documents', 'top_level_shapes', 'node_kinds', 'entry_points', 'limits',
        'outcomes', 'streams', 'searches', 'cutting_evaluations', 'collections_with_key_order_not_id_order', 'max_search_limit')}
    ck.cov['fraction_limit_cuts_match_set'] = round(summary['cutting_evaluations'] / max(1, summary['evaluations']), 3)

    # direct oracle on the implementation: the set-algebra reading over the harness's own documents,
    # the complexity budget counted independently, errors only where the tree has an unknown index / bad key
    for f in summary['failures']:
        ck.violation(f['class'], f['what'][:400], True, {'failing_input': f})
    ck.ob('implementation = set-algebra reading (match set, first/last page, search restriction; rejected iff over the '
          'complexity budget; errors only for unknown index / unconvertible key) on %d evaluations over %d collections'
          % (summary['evaluations'], summary['collections']),
          summary['oracle_failures'] == 0, 'correspondence',
          '%d failures %s; first: %s' % (summary['oracle_failures'], json.dumps(summary['failure_classes']),
                                         json.dumps(summary['failures'][:1])[:1500]))
    ck.ob('every dumped index lists exactly the keys/ids of the documents written (model input is the real index)',
          summary['dump_problem_count'] == 0, 'correspondence', json.dumps(summary['dump_problems'])[:1500])
    ck.ob('no query (accepted, rejected or failing) changed the ids or any index of its collection',
          summary['collections_whose_state_changed_during_queries'] == 0, 'correspondence',
          '%d collections changed' % summary['collections_whose_state_changed_during_queries'])
    ck.ob('the candidate list handed to the model and the oracle is the search stage\'s own (per-index top_k answers fused by '
          'the default RRF reranker): the unfiltered search_ids result is its head in every one of %d searches; %d of them '
          'have a candidate list longer than top_k (hybrid text + vector over two BM25 indexes and one HNSW index)'
          % (summary['searches']['with_a_search_clause'], summary['searches']['candidate_list_longer_than_top_k']),
          not summary['candidate_problems'] and summary['searches']['candidate_list_longer_than_top_k'] > 0,
          'correspondence', json.dumps(summary['candidate_problems'])[:1500])
    ck.ob('ids are uncorrelated with key order in the generated collections (%d of %d collections have an inversion)'
          % (summary['collections_with_key_order_not_id_order'], summary['collections']),
          summary['collections_with_key_order_not_id_order'] * 2 >= summary['collections'], 'correspondence', '')
    lim = summary['limits']
    ck.ob('generated limits cover None, 0, 1..n, n+1, MAX, MAX+1; array / missing / duplicate values, Include with duplicates, '
          'both streams present',
          all(lim.get(k, 0) > 0 for k in ('None', '0', '1..n', 'n+1', 'MAX', 'MAX+1'))
          and all(v > 0 for v in summary['documents'].values())
          and summary['node_kinds'].get('Include-with-duplicates', 0) > 0
          and all(v > 0 for v in summary['streams'].values())
          and all(summary['outcomes'].get(k, 0) > 0 for k in ('ok', 'EBudget', 'EIndex', 'EType')),
          'correspondence', json.dumps({'limits': lim, 'documents': summary['documents'], 'streams': summary['streams'],
                                        'outcomes': summary['outcomes']}))

    # model vs implementation: one Coq case per collection (queries grouped by filter, id lists as strings);
    # shards balanced by text size
    if not quick:
        # thorough: the direct oracle has judged every evaluation; the Coq model is compared on a stratified
        # sample (the witness/budget collection, every collection larger than MAX_SEARCH_LIMIT, every third other)
        model_rows = [r for i, r in enumerate(model_rows) if r['witness'] or r['docs'] > 400 or i % 3 == 0]
        ck.cov['model_compared_collections'] = len(model_rows)
    # a collection larger than MAX_SEARCH_LIMIT is costly to evaluate in the model (quadratic list sorts per query):
    # split its filter groups over several cases (same collection term) so that the shards stay balanced
    def keep_for_model(e, ei):
        # large collections: the model is compared on every unbounded / MAX-clamped entry and a third of the others
        # (each model query there costs about a second); the direct oracle has judged them all
        if e.get('c') == 'EAll':
            return True
        lim = e['a'][-1]
        if lim is None or lim['some']['nat'] >= summary['max_search_limit']:
            return True
        return ei % 3 == 0
    cases, weight, origin = [], [], []
    sampled_out = 0
    for ri, r in enumerate(model_rows):
        coll_t, groups = r['case']['t']
        if r['docs'] > 400:
            ng, no = [], []
            for g, o in zip(groups, r['obs']):
                idx = [ei for ei, e in enumerate(g['t'][1]) if keep_for_model(e, ei)]
                sampled_out += len(g['t'][1]) - len(idx)
                ng.append({'t': [g['t'][0], [g['t'][1][ei] for ei in idx]]})
                no.append([o[ei] for ei in idx])
            groups, r = ng, dict(r, obs=no)
        step = 1 if r['docs'] > 400 else max(1, len(groups))
        for a in range(0, max(1, len(groups)), step):
            c = {'t': [{'t': [coll_t, groups[a:a + step]]}, r['obs'][a:a + step]]}
            cases.append(c)
            weight.append(len(json.dumps(c)) * (12 if r['docs'] > 400 else 1))
            origin.append((ri, a))
    sizes = weight
    ck.cov['model_entries_sampled_out_on_large_collections'] = sampled_out
    nshard = 12 if quick else 16
    order = sorted(range(len(cases)), key=lambda i: -sizes[i])
    bins = [[] for _ in range(nshard)]
    load = [0] * nshard
    for i in order:
        b = load.index(min(load))
        bins[b].append(i)
        load[b] += sizes[i] + 20000
    perm = [i for b in bins for i in b]
    bounds = []
    res = [None] * len(cases)
    # eval_cases shards consecutively by a fixed size; evaluate bin by bin with one shard each
    import concurrent.futures as cf

    def run_bin(k):
        b = bins[k]
        if not b:
            return k, []
        return k, ck.eval_cases(IMPORTS, 'mcase * mobs', 'check_case', [cases[i] for i in b], shard=len(b), timeout=1200 if quick else 2400,
                                label='cases_%02d' % k)
    with cf.ThreadPoolExecutor(max_workers=nshard) as ex:
        for k, out_k in ex.map(run_bin, range(nshard)):
            for i, v in zip(bins[k], out_k):
                res[i] = v
    nq = 0
    for ci, r in enumerate(model_rows):
        groups = r['case']['t'][1]
        for gi, g in enumerate(groups):
            es = g['t'][1]
            nq += len(es)
            for ei, e in enumerate(es):
                if r['cuts'][gi][ei] is True:
                    ck.nontrivial((ci, r['case']['t'][0]['t'][0][:2000], json.dumps(g['t'][0], sort_keys=True)[:3000], json.dumps(e, sort_keys=True)))
    for r in model_rows[:1] + model_rows[2:3]:
        g = r['case']['t'][1][0]
        ck.sample({'collection': r['case']['t'][0], 'filter': g['t'][0], 'entries': g['t'][1][:3], 'observed': r['obs'][0][:3]})
    bad = [i for i, v in enumerate(res) if v is not True]
    detail = ''
    if bad:
        ri, goff = origin[bad[0]]
        i = ri
        outp = ck.eval_term(IMPORTS, 'diff_case (%s, %s)' % (to_coq(model_rows[i]['case']), to_coq(model_rows[i]['obs'])))
        detail = 'collection %d: diff_case = %s' % (i, outp[-400:])
        m = re.search(r'\[\s*\(\s*(\d+)\s*,\s*(\d+)\s*\)', outp)
        if m:
            gi, ei = int(m.group(1)), int(m.group(2))
            g = model_rows[i]['case']['t'][1][gi]
            mv = ck.eval_term(IMPORTS, 'run_entry (mk_coll %s) %s %s' % (
                to_coq(model_rows[i]['case']['t'][0]), to_coq(g['t'][0]), to_coq(g['t'][1][ei])))
            detail += '\nfilter: %s\nentry: %s\nobserved: %s\nmodel: %s' % (
                json.dumps(g['t'][0])[:1200], json.dumps(g['t'][1][ei])[:300], json.dumps(model_rows[i]['obs'][gi][ei])[:600], mv[-600:])
    ck.ob('model = implementation on %d collections / %d queries incl. error kinds and budget rejections (wf_coll holds of every dump)'
          % (len(model_rows), nq - sampled_out), not bad, 'correspondence', detail)
    ck.finish()
