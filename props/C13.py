"""C13 — what validation accepts, storage returns unchanged (DESIGN.md section 4/C13)."""
import json
import os

META = {
    'category': 'proof',
    'text': ('Coq theorems over an executable model of anda_db_schema (validate / validate_complexity / normalize / '
             'prune_undeclared / set_field / try_from_doc / upgrade_with and the schema-less CBOR read-back): every value in '
             'the declared variant that passes validation is encodable and reads back bit-identical at every type shape and '
             'depth (induction over the nested FieldType), each single violation (variant, null, map key set, key kind, tuple '
             'arity, NaN, range, budget - at any depth) makes validate fail, normalize is idempotent, upgrade chains never '
             'reuse a retired index, and an old document reads under the upgraded schema restricted to what it declares - '
             'top-level fields and keys of nested structs at any depth (inside every element of homogeneous arrays, tuples, maps, options); tied to the source by regenerated match-arm tables, step '
             'orders and budget constants, and by a correspondence run of the model against the real cbor2 encode -> '
             'DocumentOwned -> Document::try_from_doc path on grammar-generated (type, value) pairs, single mutations, '
             'upgrade chains and derive-macro structs.'),
    'design_ref': 'DESIGN.md section 4 / C13',
    'note': ('Trusted: Coq kernel + vm_compute; translator (regex extraction); harness h_schema. Premises of the theorems: '
             'IEEE-754 facts narrow(widen x) = x and is_f32_read_back(widen x) for non-NaN f32 (checked against Rust casts on '
             '>= 1e5 bit patterns per run, every bf16 pattern included). cbor2 + serde are not modelled: `readback` is the model '
             'of their combined effect and is what the correspondence run tests. Outside the declared variant the round trip '
             'is false of the code (known finding untyped-vector-unreadable; Option(Json) Json(null) reads as Null) - both '
             'carried as _refuted lemmas. The nested-upgrade theorems exclude a struct turning into the untyped Map({}) or back '
             '(compat_ne), where nothing is pruned or normalised.'),
    'technique': 'Coq proof (custom induction over nested inductives) + translator-generated facts + differential model/impl run + direct oracle',
}

IMPORTS = 'From Verif Require Import Schema.Model Schema.Run.'

STREAMS = {
    'wr': ('wcase * wobs', 'check_wr', 'run_wr'),
    'wb': ('wcase * (bool * bool * bool)', 'check_wb', None),
    'tw': ('wcase * option fvalue', 'check_tw', 'run_tw'),
    'ex': ('wcase * bool', 'check_ex', None),
    'fl': ('(Z * Z) * (bool * bool * bool)', 'check_fl', None),
    'up': ('(sterm * sterm) * option sterm', 'check_up', None),
    'doc': ('(sterm * dterm * ftab) * option dterm', 'check_doc', None),
}


def _nontrivial_wr(case):
    """a written pair counts as non-trivial when its type is a composite or needs normalisation"""
    t = case['t'][0]
    return t.get('c') in ('TArray', 'TMap', 'TOption', 'TJson', 'TVector', 'TF32', 'TI64')


def run(ck):
    quick = ck.tier == 'quick'
    ck.rule = ('FieldType grammar to nesting depth 4 (Option, untyped / homogeneous / tuple Array, untyped / wildcard (Text, I64, '
               'Bytes keys) / keyed Map, Vector, Json, all scalars); per type one canonical valid value with boundary numerics '
               '(i64::MIN/MAX, u64::MAX, -0.0, subnormals, f32::MAX, infinities, bf16 edge patterns), its schema-less read-back '
               'shape, single mutations (wrong variant, null, NaN, tuple arity, undeclared / missing key, wildcard key kind, '
               'over budget), arbitrary type-independent values, a fixed budget battery at and one over each bound, upgrade '
               'chains (add optional / remove / re-add / nested key gain or loss at any depth / illegal steps) with documents of every '
               'earlier version, single-field evolutions of nested structs inside arrays (>= 2 elements), tuples, wildcard maps and options '
               'with a document written under the old type and an independent projection as the expected read-back, a fixed derive-macro battery; non-trivial = a distinct model-compared case on a composite, '
               'Json, Vector, F32 or I64 type, or an upgrade / document case')
    ck.translate(only=['gen_schema'])
    ck.coq(['Schema/Props.v'], ['Schema'], model_targets=['Schema/Run.vo'])
    ck.trust('IEEE-754 premises of C13_roundtrip_*: (f32 as f64) as f32 = f32 and is_f32_read_back(f32 as f64) for non-NaN f32 '
             '(checked by the harness against Rust casts on the float stream)')
    ck.trust('cbor2 + serde Visitor are modelled by Schema.Model.readback, compared with the real decode on every case')
    ck.assume('values reach the model as canonicalised terms (maps in BTreeMap order, floats as bit patterns); text is drawn from a fixed ASCII set',
              'generation depth <= 4 bounds the correspondence run only; the theorems are for all depths')
    binary = os.environ.get('VERIF_C13_BIN') or ck.cargo('h_schema')   # VERIF_C13_BIN: prebuilt harness (development only)
    if not binary:
        ck.finish()
    out = ck.work + '/c13.jsonl'
    args = ['c13', '--out', out] + (
        ['--valid', '2200', '--mutations', '2200', '--wild', '1000', '--model-every', '5', '--floats', '120000', '--chains', '220', '--chain-model-every', '3', '--evolutions', '1500', '--evolution-model-every', '8']
        if quick else
        ['--valid', '40000', '--mutations', '40000', '--wild', '15000', '--model-every', '24', '--floats', '1000000', '--chains', '3000', '--chain-model-every', '30', '--evolutions', '30000', '--evolution-model-every', '60'])
    rc, text = ck.run_harness(binary, args, timeout=3000)
    ok = ck.ob('harness c13 ran', rc == 0 and os.path.exists(out), 'correspondence', text[-2000:])
    if not ok:
        ck.finish()
    rows = [json.loads(l) for l in open(out)]
    summary = [r for r in rows if r['kind'] == 'summary'][-1]
    ck.count(summary['evaluations'])
    ck.cov['input_distribution'] = summary['distribution']
    ck.cov['float_hypotheses'] = summary['float_hypotheses']
    ck.cov['derive_battery'] = summary['derive_battery']
    # ---- direct oracle on the implementation
    for f in summary['failures']:
        ck.violation(f.get('class', 'oracle'), f.get('what', ''), True, {'failing_input': f})
    known = {k.get('class') for k in __import__('vlib').known_findings() if k.get('property') == 'C13' and k.get('status') == 'open'}
    unknown = [f for f in summary['failures'] if f.get('class') not in known]
    ck.ob('implementation: accepted values read back valid and unchanged, violations rejected, upgrades keep indexes and fields '
          '(%d evaluations; known open classes aside)' % summary['evaluations'],
          not unknown, 'correspondence', json.dumps(unknown[:2])[:3000])
    fh = summary['float_hypotheses'] or {}
    ck.ob('IEEE premises hold against Rust casts on %s bit patterns' % fh.get('patterns'), fh.get('violations') == 0, 'correspondence', json.dumps(fh))
    # ---- model = implementation
    total_bad = 0
    for stream, (ty, fn, runner) in STREAMS.items():
        mrows = [r for r in rows if r['kind'] == 'model' and r['stream'] == stream]
        cases = [{'t': [r['case'], r['obs']]} for r in mrows]
        res = ck.eval_cases(IMPORTS, ty, fn, cases, shard=2 if stream == 'wb' else (120 if stream in ('wr', 'doc', 'tw') else 250), label='cases_' + stream, timeout=1200)
        bad = [i for i, r in enumerate(res) if r is not True]
        total_bad += len(bad)
        for r in mrows:
            if stream in ('up', 'doc') or (stream == 'wr' and _nontrivial_wr(r['case'])):
                ck.nontrivial((stream, r['case']))
        if stream == 'wr':
            for r in mrows[12:15]:
                ck.sample({'case': r['case'], 'observed': r['obs']})
        if stream == 'up':
            for r in mrows[:1]:
                ck.sample({'upgrade': r['case'], 'observed': r['obs']})
        detail = ''
        if bad:
            i = bad[0]
            from coqterm import to_coq
            detail = 'stream %s case %d: %s\nobserved: %s' % (stream, i, json.dumps(mrows[i]['case'])[:3000], json.dumps(mrows[i]['obs'])[:3000])
            if runner:
                detail += '\nmodel: ' + ck.eval_term(IMPORTS, '%s %s' % (runner, to_coq(mrows[i]['case'])))[:3000]
        ck.ob('model = implementation on %d %s cases' % (len(cases), stream), not bad and len(cases) > 0, 'correspondence', detail)
    ck.finish()
