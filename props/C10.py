"""C10 — B-tree index = ordered multimap, across flush, crash and threads (DESIGN.md section 4/C10)."""
import json
import os

META = {
    'category': 'proof',
    'text': ('Coq theorems over an executable model of anda_db_btree (postings / ordered key set / buckets / manifest): '
             'every mutation refines an ordered multimap and preserves the postings<->btree bijection and single bucket '
             'ownership, uniqueness is enforced; range_keys = filter of the key set by the boolean tree and range_query = '
             'the callback folded over the matching keys in the requested direction until it stops (all trees, both '
             'directions, every stop position); a flush is a well-formed commit (fresh generation objects, one metadata '
             'write, deletes of unreferenced objects) so by the generic CommitPoint theorem every crash prefix loads the '
             'last committed flush or the interrupted one. Tied to the code by a differential run of model vs '
             'BTreeIndex on generated histories (incl. interrupted flushes, failed flushes, reloads, legacy layouts) and '
             'by the Coq-proved wf_commit monitor judging every recorded flush write log; a BTreeMap<u64,BTreeSet<u64>> '
             'oracle and a load of every crash prefix search for failing inputs on the implementation.'),
    'design_ref': 'DESIGN.md section 4 / C10',
    'note': ('Concurrency: a small-step Coq model (entry accesses, btree lock and gate as atomic steps) is proved linearizable '
             'for any number of threads, with gate exclusion for compaction; a hook-free schedule explorer (key type whose Hash '
             'is a yield point) runs every single-preemption and sampled double-preemption schedule of 2 (thorough: 3) threads on '
             'the real index and compares with sequential orders of the multimap. Not proved: key-set/postings consistency at '
             'quiescence in the concurrent model (explored), the concurrent array calls (explored at pair granularity), '
             'insert_array/remove_array/batch_update refinement and the clean-bucket store invariant that closes the flush/load round trip '
             '(the load side is proved: C10_load_reads_manifest_files; the round trip is compared on every run, incl. dirty-tracking and '
             'overlapped-flush probes; a flush overlapped by a mutation is not modelled, only searched on the implementation). Hash-map iteration order is abstracted to list order, so bucket placement is compared only '
             'on histories without multi-value batch operations, compaction or reload. CBOR sizes are exact for unsigned keys/ids.'),
    'technique': 'Coq proof (invariants, refinement, structural induction on query trees, generic commit-point atomicity, '
                 'linearization points of a small-step concurrent model) + differential model/impl run + certified monitor on '
                 'flush write logs + deterministic schedule explorer',
}

IMPORTS = 'From Verif Require Import Common.ObjStore Common.CommitPoint BTree.Model BTree.Run.'


def classify(what):
    w = what.lower()
    if 'stale copy' in w:
        return 'stale-copy'
    if 'concurrent mutations' in w or 'schedule explorer' in w:
        return 'lost-update'
    if 'overlapped flush' in w or 'in-flight flush' in w:
        return 'overlapped-flush-loss'
    if 'crash' in w or 'failed flush' in w or 'round trip' in w or 'legacy' in w or 'reload' in w:
        return 'crash-atomicity'
    if 'range query' in w or 'keys(' in w or 'point query' in w:
        return 'query-mismatch'
    if 'panic' in w:
        return 'panic'
    return 'multimap-mismatch'


def run(ck):
    quick = ck.tier == 'quick'
    ck.rule = ('histories of 1..45 (quick) / 1..120 (thorough) operations over ids 0..40(+200..400) and keys 0..16(+24..324), '
               'bucket_overload_size in {64,96,128,200}, unique and non-unique; operations: insert, remove, insert_array, '
               'remove_array, batch_update, compact, flush (every prefix of its write log loaded), flush with an injected '
               'write failure, crash after k backend steps + reload, range queries (trees to depth 3, both directions, stop '
               'after 1..8 keys, empty groups), keys paging, point queries, stats; legacy manifest-less layouts with stale '
               'duplicates and tombstones; dirty-tracking probes (clean state, ONE mutation of each kind, flush, reload); overlapped-flush probes '
               '(1..2 mutations landing inside the bucket / metadata write callbacks of a flush, then a quiet flush and a reload); schedule explorer: '
               '2 threads (3 in thorough) doing insert/remove/insert_array/remove_array/compact on overlapping keys, every single '
               'preemption point (key-hash yield points) and a sample of double preemptions. non-trivial = a distinct model-compared history with >= 8 operations, or a '
               'distinct flush log with >= 2 steps')
    ck.translate()
    ck.coq(['BTree/Props.v'], ['BTree', 'Common'], model_targets=['BTree/Run.vo'])
    ck.trust('std BTreeSet::range / iteration order and DashMap single-threaded map semantics (modelled as a sorted list / assoc list)')
    ck.assume('concurrency: the model takes every DashMap entry access / btree lock / gate acquisition as one atomic step; '
              'memory ordering and shard-lock internals are not modelled',
              'hash-map iteration order is irrelevant to everything but bucket placement',
              'the caller deletes FlushOutcome::obsolete after a successful flush, as anda_db index/btree.rs does',
              'u64 keys and ids (CBOR size model)')
    binary = ck.cargo('h_btree')
    if binary:
        out = ck.work + '/c10.jsonl'
        args = ['--out', out] + (['--seqs', '80', '--max-ops', '45', '--model-every', '1', '--legacy', '6', '--probes', '54', '--sched-random', '40', '--sched-deep-every', '6'] if quick
                                 else ['--seqs', '3000', '--max-ops', '100', '--model-every', '6', '--legacy', '60', '--probes', '540', '--sched-random', '400',
                                       '--sched-deep-every', '1', '--sched-three', '60'])
        rc, text = ck.run_harness(binary, args, timeout=3000)
        ok = ck.ob('harness h_btree ran', rc == 0 and os.path.exists(out), 'correspondence', text[-2000:])
        if ok:
            rows = [json.loads(l) for l in open(out)]
            summary = [r for r in rows if r['kind'] == 'summary'][-1]
            ck.count(summary['evaluations'])
            ck.cov['input_distribution'] = {k: summary[k] for k in (
                'histories', 'op_histogram', 'history_lengths', 'flushes', 'flushes_with_2plus_dirty_buckets',
                'crash_points', 'stats_with_migration', 'unique_rejections', 'early_stopped_queries', 'legacy_loads',
                'dirty_tracking_probes', 'overlapped_flush_probes', 'mutations_landed_during_flush', 'schedule_explorer')}
            for f in summary['failures']:
                ck.violation(classify(f['what']), f['what'], True, {'failing_input': f})
            ck.ob('implementation = BTreeMap<u64,BTreeSet<u64>> oracle on every operation, query, flush round trip and '
                  'crash prefix (%d evaluations, %d crash points)' % (summary['evaluations'], summary['crash_points']),
                  summary['oracle_failures'] == 0, 'correspondence', json.dumps(summary['failures'][:2])[:3000])

            # ---- C: model = implementation on whole histories
            ops = [r for r in rows if r['kind'] == 'ops']
            cases = [{'t': [r['case'], r['obs']]} for r in ops]
            res = ck.eval_cases(IMPORTS, 'ocase * list ores', 'check_ops', cases, shard=30, timeout=1500, label='ops')
            bad = [i for i, r in enumerate(res) if r is not True]
            for r in ops:
                if len(r['obs']) >= 8:
                    ck.nontrivial(r['case'])
            for r in ops[:2]:
                ck.sample({'history': r['case'], 'observed': r['obs'][:6]})
            detail = ''
            if bad:
                from coqterm import to_coq
                i = bad[0]
                detail = 'history %d: %s\nobserved: %s\nmodel: %s' % (
                    ops[i]['seq'], json.dumps(ops[i]['case'])[:1500], json.dumps(ops[i]['obs'])[:1500],
                    ck.eval_term(IMPORTS, 'map fst (run_case ' + to_coq(ops[i]['case']) + ')')[-2500:])
            ck.ob('model = implementation on %d histories (results, queries, flush dumps, reloads)' % len(cases),
                  not bad, 'correspondence', detail)
            ck.count(len(cases))

            # ---- M: every recorded flush log is a well-formed commit (or an invisible aborted attempt)
            logs = [r for r in rows if r['kind'] == 'flushlog']
            res = ck.eval_cases(IMPORTS, 'bstore * list bstep', 'check_flushlog', [r['case'] for r in logs], shard=120, timeout=1500, label='logs')
            badl = [i for i, r in enumerate(res) if r is not True]
            for r in logs:
                if len(r['case']['t'][1]) >= 2:
                    ck.nontrivial(r['case'])
            ck.ob('monitor: wf_commit accepts every recorded flush write log (%d logs)' % len(logs), not badl, 'monitor',
                  json.dumps(logs[badl[0]]['case'])[:3000] if badl else '')
            ck.count(len(logs))
            if logs:
                ck.sample({'flush_log': logs[0]['case']})

            # ---- C: the model's loader on captured object maps (crash prefixes, legacy layouts)
            loads = [r for r in rows if r['kind'] == 'load']
            res = ck.eval_cases(IMPORTS, 'bstore * list (Z * list Z)', 'check_load', [r['case'] for r in loads], shard=120, timeout=1500, label='loads')
            badd = [i for i, r in enumerate(res) if r is not True]
            ck.ob('model loader = load_all on %d captured object maps (crash prefixes, legacy layouts)' % len(loads),
                  not badd, 'correspondence', json.dumps(loads[badd[0]]['case'])[:3000] if badd else '')
            ck.count(len(loads))

            # ---- C: schedule explorer outcomes (single-pair calls) = some sequential order of the model
            conc = [r for r in rows if r['kind'] == 'conc']
            res = ck.eval_cases(IMPORTS, 'conc_case', 'check_conc', [r['case'] for r in conc], shard=120, timeout=1500, label='conc')
            badc = [i for i, r in enumerate(res) if r is not True]
            for r in conc:
                ck.nontrivial(('conc', json.dumps(r['case'])))
            se = summary.get('schedule_explorer') or {}
            ck.ob('schedule explorer: %d scenarios, %d schedules on the implementation; every distinct outcome (%d) is some '
                  'sequential order of the model' % (se.get('scenarios', 0), se.get('schedules', 0), len(conc)),
                  not badc and se.get('schedules', 0) > 0, 'correspondence', json.dumps(conc[badc[0]]['case'])[:3000] if badc else '')
            if conc:
                ck.sample({'concurrent_outcome': conc[len(conc) // 2]['case']})
    ck.finish()
