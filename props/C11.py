"""C11 — full-text index: exact retrieval, stable ranking (DESIGN.md section 4/C11)."""
import json
import os

META = {
    'category': 'proof',
    'text': ('Coq theorems over an executable model of BM25Index (insert / remove / purge_ids bookkeeping, '
             'load-time pruning, execute_query with the positives/negatives split and the negated_not flag, '
             'compare_scored_docs, top_k_results, the manifest commit protocol of flush_with): a query returns exactly '
             'the set its Term/And/Or/Not structure denotes, over every index state and every history; results are '
             'indexed documents only and no indexed document holding a query token is missed; exact retrieval for '
             'every history without a non-covering remove() (the general statement is refuted by a witness = known '
             'finding stale-reinsert-ghost); total_tokens = sum of doc_tokens after any history; the comparator is a '
             'total order, so top-k = first k of the sorted list, a prefix of top-(k+1), independent of hash-map order '
             'and of select_nth; every crash prefix of every flush shows the last committed snapshot or the new one. '
             'Tied to the code by generated facts, a model/implementation correspondence run, a Coq-proved monitor over '
             'the real flush write logs and direct oracles (naive inverted index, every crash prefix loaded by load_all).'),
    'design_ref': 'DESIGN.md section 4 / C11',
    'note': ('Trusted: Coq kernel + vm_compute; translator gen_bm25.py; harness h_bm25 (whitespace tokenizer, canonicalisation); '
             'the tokenizer is an oracle (universally quantified); select_nth_unstable_by through its documented contract '
             '(premise); score values are not modelled (integer total_cmp key + NaN flag supplied by the harness; '
             'finiteness and sign are checked on the implementation only). Bucket layout/sizes and CBOR are abstracted '
             '(payload oracle; the final bucket of a newly placed token is an oracle read off verif_dump). The bucket-level '
             'statement of reload_same_answers is PARTIAL: proved are the per-mutation dirtying lemmas; the history-level '
             'part is tied by per-step comparison with the implementation and by the live = reloaded oracle. Concurrency '
             '(mutations vs compaction) is PARTIAL: the gate sides are a generated fact and a threaded stress is not a proof. '
             'Hook: BM25Index::verif_dump (cfg anda_verif, read-only).'),
    'technique': 'Coq proof (structural induction on query trees, history invariants, sorted-permutation uniqueness, '
                 'commit-point refinement) + translator-generated facts + differential model/impl run + certified monitor',
}

IMPORTS = 'From Verif Require Import Bm25.Model Bm25.BModel Bm25.Run.'
IMPORTS_FLUSH = 'From Verif Require Import Bm25.Persist Bm25.RunFlush.'


def run(ck):
    quick = ck.tier == 'quick'
    ck.rule = ('histories of 6..30 (quick) / 6..60 (thorough) operations over ids 1..8 and a 12-word vocabulary (+ a '
               '1-byte noise word, empty words): insert, re-insert (often with the text the id had before), remove with '
               'original text, remove with non-original text, remove of absent ids, purge_ids, compact_buckets, flush, '
               'flush+load, tiny bucket_overload_size; every fourth history starts with the insert / remove-with-wrong-text / '
               're-insert family on one id with a flush or flush+load between every pair of operations; after each '
               'mutation the bucket bookkeeping (verif_dump) is compared with the bucket-level model; search() with 1..3 '
               'words and search_advanced() on query trees of depth <= 3 with 8 BM25Params incl. NaN/inf/negative, every k '
               'in 0..n+1; at every flush: every crash prefix loaded with load_all, and live answers = answers after the '
               'completed flush (+ every prefix of the obsolete deletions); 6 (quick) / 200 (thorough) stress rounds of 3 '
               'mutator threads against a compaction loop (partial: a stress, not an exploration); non-trivial = a distinct '
               'history in which some query returned >= 2 documents')
    ck.translate()
    ck.coq(['Bm25/Props.v'], ['Bm25', 'Common', 'gen'], model_targets=['Bm25/Run.vo', 'Bm25/RunFlush.vo'])
    ck.trust('std slice::select_nth_unstable_by contract (premise of C11_top_k_is_sorted_prefix / C11_top_k_repeatable)',
             'f32::total_cmp orders bit patterns as the integer key the harness derives from them (std implementation)',
             'Common/ObjStore.v + Common/CommitPoint.v crash model: each put/delete atomic, a sequence interruptible anywhere')
    ck.assume('the tokenizer is a deterministic function of the text (Section variable / oracle)',
              'load_all is a function of the metadata object and the bucket objects its manifest references '
              '(generated fact load_reads_manifest_objects)',
              'flushes are not concurrent with mutations or each other (documented caller contract)')
    binary = ck.cargo('h_bm25')
    if binary:
        out = ck.work + '/c11.jsonl'
        args = ['c11', '--out', out] + (['--histories', '200', '--max-ops', '30', '--stress', '6'] if quick
                                        else ['--histories', '1500', '--max-ops', '60', '--stress', '200'])
        rc, text = ck.run_harness(binary, args, timeout=3000)
        ok = ck.ob('harness c11 ran', rc == 0 and os.path.exists(out), 'correspondence', text[-2000:])
        if ok:
            rows = [json.loads(l) for l in open(out)]
            summary = [r for r in rows if r['kind'] == 'summary'][-1]
            model_rows = [r for r in rows if r['kind'] == 'model']
            flush_rows = [r for r in rows if r['kind'] == 'flush']
            ck.count(summary['evaluations'])
            ck.cov['input_distribution'] = summary['distribution']
            ck.cov['histories'] = summary['histories']
            ck.cov['flush_logs'] = len(flush_rows)
            # direct oracles on the implementation
            by_class = {}
            for f in summary['failures']:
                by_class.setdefault(f['class'], f)
            for cls, f in by_class.items():
                ck.violation(cls, f['what'], True, {'failing_input': f})
            import vlib
            known = {k.get('class') for k in vlib.known_findings() if k.get('property') == 'C11' and k.get('status') == 'open'}
            unknown = [f for f in summary['failures'] if f['class'] not in known]
            ck.ob('implementation vs naive inverted index / set algebra / ranking order, prefix, repeatability / '
                  'score range / counters / every crash prefix (%d histories, %d evaluations)'
                  % (summary['histories'], summary['evaluations']),
                  not unknown, 'correspondence', json.dumps(unknown[:2])[:3000])
            # model = implementation, one case per history
            cases = [r['case'] for r in model_rows]
            res = ck.eval_cases(IMPORTS, 'list rop', 'check_case', cases, shard=20, label='cases')
            ck.count(len(cases))
            bad = [i for i, r in enumerate(res) if r is not True]
            for r in model_rows:
                if r.get('nontrivial'):
                    ck.nontrivial(r['case'])
            for r in model_rows[:2]:
                ck.sample({'history': r['history'][:12], 'steps_compared': len(r['case'])})
            detail = ''
            if bad:
                from coqterm import to_coq
                i = bad[0]
                where = ck.eval_term(IMPORTS, 'first_bad ' + to_coq(cases[i]))
                detail = 'history %d: %s\nfirst disagreeing step: %s' % (i, json.dumps(model_rows[i]['history'])[:2500], where[-300:])
            ck.ob('bucket-level model = implementation on %d histories (results of insert/remove/purge, per-bucket dirty flag / '
                  'listed tokens / doc_ids / token owners after every mutation, buckets rewritten by every flush, state after '
                  'every flush+load, doc_tokens, total_tokens, result sets, ranking, top-k) and = whole-index model' % len(cases), not bad, 'correspondence', detail)
            # certified monitor over the recorded flush write logs
            fcases = [r['case'] for r in flush_rows]
            if fcases:
                fres = ck.eval_cases(IMPORTS_FLUSH, 'flush_case', 'check_flush', fcases, shard=120, label='flush')
                ck.count(len(fcases))
                fbad = [i for i, r in enumerate(fres) if r is not True]
                ck.ob('monitor wf_flush_log accepts all %d recorded flush write logs (fresh generation, single commit '
                      'last, obsolete disjoint from the new manifest)' % len(fcases),
                      not fbad, 'monitor', json.dumps(fcases[fbad[0]])[:2000] if fbad else '')
                if flush_rows:
                    ck.sample({'flush_log': flush_rows[min(3, len(flush_rows) - 1)]['case']})
            else:
                ck.ob('harness produced flush write logs', False, 'monitor', 'no flush recorded')
    ck.finish()
