"""C14 — service keys confine callers to their database; reads never write (DESIGN.md section 4/C14)."""
import json
import os
import subprocess
import sys

import vlib

META = {
    'category': 'proof',
    'text': ('Coq theorems over an executable model of the server\'s authorization and dispatch (auth::authorize as the '
             'generated rule list, AppState::authorize, require_auth + execute_rpc, the RootMethod/DbMethod tables and '
             'dispatch arms regenerated from the source on every run, and the admin operations create/open/connect/close/'
             'set_api_key/remove_api_key/restart): a non-admin token reaches only database handlers of the one database '
             'an admin operation bound it to, for every route, verb, method name, encoding and body and after every history; '
             'the rejection of an outsider is a single value independent of whether the addressed database exists; root '
             'methods are admin only; the tables are total. Tied to the code by the translator and by a complete '
             'enumeration of the request matrix through the real axum router over a recording object store, judged by the '
             'model and by a direct oracle (uniform 401 bytes, no foreign object changed, no foreign name/secret/hash in a '
             'tenant\'s responses). "Reads never write" is observed exhaustively: every Read-classified method of the '
             'generated table, with parameters that make the handler run, over databases in ten lifecycle states, must '
             'leave the mutation counter of the recording store untouched.'),
    'design_ref': 'DESIGN.md section 4 / C14',
    'note': ('Trusted: Coq kernel + vm_compute; translator tools/gen_server.py (regex extraction; unrecognised shapes are '
             'lost anchors); harness h_server and its classification of responses; anda_object_store::FaultStore as the '
             'recording store. Hashes are abstract in Coq (premise: verify (hash k) k\' = (k =? k\')); SHA3-256 and the '
             'constant-time comparison are not modelled. Handler bodies are not modelled: "performs no write" and "shows '
             'nothing foreign" are observed on the implementation, not proved; timing is out of scope.'),
    'technique': 'Coq proof (inversion of the request handler, invariant over operation histories) + translator-generated tables + complete matrix run of model vs implementation with a direct oracle',
}

IMPORTS = 'From Verif Require Import Server.Model Server.Inst Server.Run.'
CELL_T = 'cell * list (body * obs)'
HIST_T = 'world * list oopres'
ENUM_T = 'enum_case'
PRIMARY, MAX_DBS = 'corp_main', 5


def world_term(w):
    admin, ops = w['t']
    return {'t': [admin, PRIMARY, {'nat': MAX_DBS}, ops]}


def run(ck):
    quick = ck.tier == 'quick'
    ck.rule = ('complete matrix per world: 10 routes (/, /A, /B, closed-but-bound /C, /primary, missing, malformed name, '
               'percent-encoded, 2 unrouted) x {POST, GET, PUT} x {CBOR, JSON, text/plain} x 13 Authorization headers (none, '
               'garbage, key of A, key of B, revoked, 7 malformed/near-miss forms of the admin key, admin) x every method name of '
               'both generated tables + 8 unknown names x {no params, valid params, params pointing at another tenant} + malformed '
               'and oversized bodies; worlds = 7 fixed histories (tenants, rotated, unbound, closed/reopened, restarted, shared key '
               '+ attempts on primary/missing, instance without admin key) + random histories of 7-14 admin operations; every sequence of <= 3 (quick) / 4 (thorough) operations over an 11-operation alphabet (create A/B with key, create without key, set/rotate/share key, remove key of A/B, close, open, restart), each probed (4 databases x 5 tokens) before and after a restart over the same store; reads phase '
               '= every Read method x 10 lifecycle states x {admin, tenant key} x {CBOR, JSON}; non-trivial = a distinct model-compared '
               'cell (world, verb, route, principal, encoding) of a non-admin caller on an RPC route')
    ck.translate()
    ck.coq(['Server/Props.v'], ['Server', 'gen'], model_targets=['Server/Run.vo'])
    ck.trust('key hash is collision free: verify (hash k) k\' = (k =? k\') (premise of C14_history_confined, C14_rotation_revokes, '
             'C14_removal_revokes; SHA3-256 + constant_time_eq are not modelled)')
    ck.assume('handler bodies are not modelled: a request that reaches a handler is the model response RDispatch* carrying the '
              'variant, the path\'s database name and the principal',
              'the harness drives build_router(AppState) in-process (tower oneshot); TLS/proxy layers and timing are out of scope',
              'one request at a time: concurrent interleavings of key rotation with requests are not explored')
    # the tables the harness enumerates are the generated ones
    tables_path = ck.work + '/tables.json'
    rc = subprocess.run([sys.executable, vlib.ROOT + '/tools/gen_server.py', '--json', '--repo', vlib.REPO],
                        stdout=subprocess.PIPE, stderr=subprocess.PIPE)
    try:
        text = rc.stdout.decode()       # a lost anchor prints LOST-ANCHOR lines ahead of the JSON (reported by ck.translate above);
        tables = json.loads(text[text.index('{'):])   # the harness still needs the name/effect tables to look for a failing input
        json.dump(tables, open(tables_path, 'w'))
    except Exception:
        tables = None
    ck.ob('method tables for the harness regenerated from the source', tables is not None, 'generated', rc.stdout.decode()[-1500:] if tables is None else '')
    binary = ck.cargo('h_server') if tables is not None else None
    if binary:
        out = ck.work + '/c14.jsonl'
        args = ['c14', '--out', out, '--tables', tables_path, '--random', '2' if quick else '24', '--enum', '3' if quick else '4']
        rc, text = ck.run_harness(binary, args, timeout=1500 if quick else 3000)
        ok = ck.ob('harness c14 ran', rc == 0 and os.path.exists(out), 'correspondence', text[-2000:])
        if ok:
            rows = [json.loads(l) for l in open(out)]
            summary = [r for r in rows if r['kind'] == 'summary'][-1]
            cells = [r for r in rows if r['kind'] == 'model']
            hists = [r for r in rows if r['kind'] == 'history' and r.get('label') != 'enum']
            ck.count(summary['evaluations'])
            ck.cov['input_distribution'] = {k: summary[k] for k in (
                'classes', 'by_principal', 'worlds', 'tenant_requests_handled', 'tenant_mutations', 'reads', 'read_ok_by_method')}
            # ---- direct oracle on the implementation
            for f in summary['failures']:
                ck.violation(f['class'], f['what'], True, {'failing_input': f['input']})
            ck.ob('implementation: outsiders get one byte-identical 401 and write nothing; tenants write only under their own prefix, '
                  'see no foreign name/secret/key hash and change no foreign object or the registry (%d requests)' % summary['evaluations'],
                  not [f for f in summary['failures'] if not f['class'].startswith('read-method')], 'correspondence',
                  json.dumps(summary['failures'][:2])[:3000])
            KNOWN = 'read-method-writes-crash-recovery'   # known_findings.json: first cold open after an unclean stop
            other_reads = [f for f in summary['failures'] if f['class'].startswith('read-method') and f['class'] != KNOWN]
            writers = {k: v for k, v in summary.get('read_writers', {}).items() if not k.startswith('CrashImage/')}
            ck.ob('implementation: no Read-classified method of the generated tables attempts a storage mutation, in any of the lifecycle states '
                  'fresh/unflushed/flushed/db read-only/collection read-only/reopened/restarted/closed/missing and anywhere in the matrix '
                  '(%d read calls); the crash-image state is the recorded finding %s' % (sum(summary['reads'].values()), KNOWN),
                  not other_reads and not writers, 'correspondence', json.dumps(other_reads[:2])[:3000] + json.dumps(writers))
            ck.cov['input_distribution']['read_writers_on_crash_image'] = {k: v for k, v in summary.get('read_writers', {}).items() if k.startswith('CrashImage/')}
            untemplated = summary['untemplated_read_methods']
            idle = [m for m in summary['read_methods'] if summary['read_ok_by_method'].get(m, 0) == 0]
            ck.ob('every Read-classified method was exercised with parameters that make its handler succeed',
                  not untemplated and not idle, 'correspondence', 'no parameter template: %s; never answered 200: %s' % (untemplated, idle))
            ck.ob('tenant traffic was not vacuous (handlers reached and storage written under the tenant key)',
                  summary['tenant_requests_handled'] > 100 and summary['tenant_mutations'] > 0, 'correspondence',
                  'handled=%s mutations=%s' % (summary['tenant_requests_handled'], summary['tenant_mutations']))
            # ---- model = implementation: histories, then every cell of the matrix
            hcases = [{'t': [world_term(r['case']), r['obs']]} for r in hists]
            hres = ck.eval_cases(IMPORTS, HIST_T, 'check_history', hcases, shard=max(250, len(hcases) // 16 + 1), timeout=1200, label='hist')
            hbad = [i for i, r in enumerate(hres) if r is not True]
            detail = ''
            if hbad:
                from coqterm import to_coq
                i = hbad[0]
                detail = 'history %s: %s\nobserved: %s\nmodel: %s' % (
                    hists[i]['label'], json.dumps(hists[i]['case']), json.dumps(hists[i]['obs']),
                    ck.eval_term(IMPORTS, 'run_history_results ' + to_coq(world_term(hists[i]['case']))))
            ck.ob('model = implementation on the result of every admin operation of %d histories' % len(hcases), not hbad, 'correspondence', detail)
            # ---- enumerated histories: per history one compact case = operation results + the bindings probed after the
            # sequence and again after a restart over the same store (the harness writes: probe, probe, history)
            probes = [r for r in rows if r['kind'] == 'probe']
            ehists = [r for r in rows if r['kind'] == 'history' and r.get('label') == 'enum']
            ecases, ok_shape = [], len(probes) == 2 * len(ehists)
            for k, hr in enumerate(ehists if ok_shape else []):
                before, after = probes[2 * k], probes[2 * k + 1]
                admin, ops = hr['case']['t']
                ok_shape = ok_shape and before['case']['t'][1] == ops[:-1] and after['case']['t'][1] == ops
                dbs, auths = [], []
                for o in before['obs']:
                    d, a = o['t'][0][0], o['t'][1]
                    if d not in dbs:
                        dbs.append(d)
                    if a not in auths:
                        auths.append(a)
                ecases.append({'t': [world_term({'t': [admin, ops[:-1]]}), hr['obs'], dbs, auths,
                                     [o['t'][2] for o in before['obs']], [o['t'][2] for o in after['obs']]]})
                ck.nontrivial(before['key'])
            eres = ck.eval_cases(IMPORTS, ENUM_T, 'check_enum', ecases, shard=max(100, len(ecases) // 16 + 1), timeout=1200, label='enum')
            ebad = [i for i, r in enumerate(eres) if r is not True]
            detail = ''
            if ebad:
                from coqterm import to_coq
                i = ebad[0]
                c = ecases[i]['t']
                detail = 'history: %s\nobserved results: %s\nobserved before restart: %s\nobserved after restart: %s\nmodel (results, before, after): %s' % (
                    json.dumps(c[0])[:1500], json.dumps(c[1])[:800], json.dumps(c[4])[:1500], json.dumps(c[5])[:1500],
                    ck.eval_term(IMPORTS, 'run_enum %s %s %s' % (to_coq(c[0]), to_coq(c[2]), to_coq(c[3])))[:4000])
            ck.ob('model = implementation on every sequence of <= %d admin operations (11-operation alphabet: create with/without key, rotate, '
                  'share, remove, close, open, restart): result of every operation, and the answer to every (database, token) probe before and '
                  'after a restart over the same store (%d histories)' % (summary['enumerated_max_len'], len(ecases)),
                  ok_shape and not ebad and len(ecases) > 0, 'correspondence', detail)
            ck.cov['input_distribution']['enumerated_histories'] = {k: summary[k] for k in ('enumerated_histories', 'enumerated_max_len', 'probe_cases', 'probes_by_entitled_key')}
            from coqterm import to_coq
            cases, icases, worlds_ix, bodies_ix = [], [], {}, {}
            for r in cells:
                w, verb, path, auth, ct = r['case']['t']
                seen, uniq = set(), []        # the params variants of one method are the same model body: compare each (body, class) once
                for o in r['obs']:
                    key = json.dumps(o, sort_keys=True)
                    if key not in seen:
                        seen.add(key)
                        uniq.append(o)
                r['uniq'] = uniq
                cases.append({'t': [{'t': [world_term(w), verb, path, auth, ct]}, uniq]})
                wi = worlds_ix.setdefault(to_coq(world_term(w)), len(worlds_ix))
                pairs = [{'t': [{'nat': bodies_ix.setdefault(to_coq(o['t'][0]), len(bodies_ix))}, o['t'][1]]} for o in uniq]
                icases.append({'t': [{'nat': wi}, verb, path, auth, ct, pairs]})
            # worlds and bodies are defined once in the prelude of every shard and referred to by index
            prelude = (IMPORTS + '\nFrom Coq Require Import List String.\nImport ListNotations.\nOpen Scope list_scope.\n'
                       'Definition WS : list world := [%s].\nDefinition BS : list body := [%s].\n'
                       % ('; '.join(sorted(worlds_ix, key=worlds_ix.get)), '; '.join(sorted(bodies_ix, key=bodies_ix.get))))
            res = ck.eval_cases(prelude, 'cell_ix', '(check_cell_ix WS BS)', icases, shard=max(60, len(icases) // 16 + 1), timeout=1200)
            bad = [i for i, r in enumerate(res) if r is not True]
            for r in cells:
                if r['nontrivial']:
                    ck.nontrivial(r['key'])
            for r in cells[:2] + [c for c in cells if 'key_a' in c['key'] and '/tenant_a' in c['key']][:2]:
                ck.sample({'cell': r['key'], 'first_observations': r['obs'][:3]})
            detail = ''
            if bad:
                from coqterm import to_coq
                i = bad[0]
                c = cases[i]['t'][0]
                bodies = [o['t'][0] for o in cells[i]['uniq']]
                detail = 'cell %s\ncase: %s\nobserved: %s\nmodel: %s' % (
                    cells[i]['key'], json.dumps(cells[i]['case'])[:1500], json.dumps([o['t'][1] for o in cells[i]['uniq']])[:3000],
                    ck.eval_term(IMPORTS, 'run_cell %s %s' % (to_coq(c), to_coq(bodies)))[:6000])
            ck.ob('model = implementation on %d cells (%d requests): status and body class of every request of the matrix'
                  % (len(cases), sum(len(r['obs']) for r in cells)), not bad, 'correspondence', detail)
    ck.finish(exhaustive=True)
