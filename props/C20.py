"""C20 — belief projection (DESIGN.md section 4/C20)."""
import json
import os

META = {
    'category': 'proof',
    'text': ('Coq theorems over an executable model of eligible/aggregate/classify/project (the groups of the merge loop '
             'are exactly the connected components of "shares an actor or evidence id", pairwise disjoint, each with '
             'the maximum of its members; group count, multiset of maxima, scores and classification are invariant '
             'under permutation of the recording order; ineligible rows contribute only to the excluded ledger; '
             'silence is insufficient; rejected needs an opposing group; at most one new group per candidate and none '
             'when it shares a key; score in [0,1], monotone, symmetric over exact rationals; the binary64 score is a '
             'function of the multiset because the fold runs over the sorted maxima), generated facts re-extracted '
             'from the source on every run, a bit-exact correspondence run of model vs the private aggregate/classify, '
             'and an end-to-end run (real Nexus, KML writes in several recording orders, KQL BELIEF queries with FOR '
             'TIME / WITH EPISTEMIC) compared across orders, with an independent oracle and with the model project.'),
    'design_ref': 'DESIGN.md section 4 / C20',
    'note': ('Trusted: Coq kernel + vm_compute on primitive floats; translator; harness + hook '
             'projection::verif; IEEE facts about f64::total_cmp (premises). In the end-to-end part the rows given to '
             'the model are reconstructed by the harness from what it wrote through KML (ids from the MUTATE handles, '
             'timestamps in stored form), not read back from the store.'),
    'technique': 'Coq proof (loop invariant = partition into connected components, bijection between partitions, canonical sorted form) + translator-generated facts + differential model/impl runs (pure stages and end-to-end)',
}

IMPORTS = 'From Verif Require Import Belief.Model Belief.Run.'


def run(ck):
    quick = ck.tier == 'quick'
    ck.rule = ('candidate multisets over 3 actors x 3 evidence ids: every ordered sequence of grouping shapes '
               '(actor x evidence subset) up to length 3 (quick) / 4 (thorough), plus random multisets of 1..12 '
               'candidates with all permutations for <=5; thresholds from a fixed set and random; non-trivial = a '
               'distinct model-compared case with >=2 candidates on one side; end-to-end: random scenarios of 2..7 '
               'assertions over a target and 0..2 rival propositions (3 actors + unattributed, 3 evidence ids, 6 modes + '
               'an unknown mode, confidences incl. unstated, validity windows around the evaluation instants, '
               'retracted/superseded), 3-4 recording orders x 6 query variants each; 3 hand-written scenarios '
               '(unattributed claims, worked bridge) and the first 2 (quick) / 8 (thorough) random scenarios cut to 3..5 '
               'assertions are recorded in ALL permutations; for the first recording order of every scenario FOR TIME is '
               'also asked 1 ms before / at / 1 ms after every validity boundary and at the enclosing whole seconds, each '
               'instant in up to 9 RFC 3339 spellings (canonical, no fraction, +00:00, +08:00, -05:00, +05:30, -12:00, '
               'microseconds, lower case): all spellings must give the identical answer, equal to the oracle and the model '
               'at the canonical instant')
    ck.translate(only=['gen_policy'])
    ck.coq(['Belief/Props.v'], ['Belief', 'gen'], model_targets=['Belief/Run.vo'])
    ck.trust('IEEE-754: f64::total_cmp is an antisymmetric, transitive total order on bit patterns '
             '(premises of C20_sorted_fold_order_independent)')
    ck.trust('order premises of C20_groups_are_components / C20_aggregate_perm / C20_aggregate_order_independent: the group '
             'confidence operation is the max of a total, transitive (for permutation results: antisymmetric) boolean '
             'order; discharged for Qle_bool in the *_exact theorems and for Z.leb in the non-vacuity example; f64::max '
             'is such a max only away from NaN and -0.0: C20_aggregate_perm_float / C20_aggregate_float_order_independent '
             'carry the restriction as the boolean premise fgood, which the check evaluates on every generated case')
    ck.trust('IEEE-754 (premises of the *_float theorems): on binary64 values that are neither NaN nor -0.0, `<` is '
             'asymmetric, its negation is transitive, and two values neither of which is below the other are the same '
             'bit pattern')
    ck.assume('observation, not part of C20 as stated: CREATE ASSERTION without asserted_by stores asserted_by = null and '
              'asserted_by_key = the endpoint key of JSON null (non-empty), so the "anonymous:<id>" arm of eligible '
              '(its comment: "its own group rather than joining a nameless one") is not reachable through KML and all '
              'unattributed claims of a side form one group; the oracle, the model rows (actor key "lit:null") and the '
              'generated fact unattributed_is_anonymous = false follow what the engine does')
    ck.trust('on stored-form timestamps (fixed-width UTC YYYY-MM-DDTHH:MM:SS.mmmZ, years 0000-9999) bytewise order is '
             'chronological order (the crate tests it as lexicographic_order_is_chronological_order); the model compares '
             'time strings bytewise as the code does, the check verifies that every string it is given has that form, and '
             'C20_gen_projection_time_is_normalized pins that the engine hands the projection the normalised instant')
    ck.assume('rows reach the projection already decoded; time strings compare bytewise as in the code',
              'hook anda_cognitive_nexus::projection::verif (cfg anda_verif) forwards to the private aggregate/classify')
    binary = ck.cargo('h_nexus')
    if binary:
        out = ck.work + '/c20.jsonl'
        args = ['c20', '--out', out] + (['--random', '1500', '--exhaustive', '3', '--model-every', '16'] if quick
                                        else ['--random', '30000', '--exhaustive', '4', '--model-every', '40'])
        rc, text = ck.run_harness(binary, args, timeout=3000)
        ok = ck.ob('harness c20 ran', rc == 0 and os.path.exists(out), 'correspondence', text[-2000:])
        if ok:
            rows = [json.loads(l) for l in open(out)]
            summary = [r for r in rows if r['kind'] == 'summary'][-1]
            model_rows = [r for r in rows if r['kind'] == 'model']
            ck.count(summary['evaluations'])
            ck.cov['input_distribution'] = {k: summary[k] for k in ('multisets', 'bridging_multisets', 'sizes', 'statuses')}
            # direct oracle on the implementation: components + every recording order
            for f in summary['failures']:
                cls = ('order-dependence' if 'order' in f['what'] else
                       'panic' if 'panicked' in f['what'] else 'group-count')
                ck.violation(cls, f['what'], True, {'failing_input': f})
            ck.ob('implementation: group count = connected components and every recording order agrees '
                  '(%d multisets, %d evaluations)' % (summary['multisets'], summary['evaluations']),
                  summary['oracle_failures'] == 0, 'correspondence',
                  json.dumps(summary['failures'][:2]))
            cases = [{'t': [r['case'], r['obs']]} for r in model_rows]
            res = ck.eval_cases(IMPORTS, 'pcase * pobs', 'check_pure', cases)
            bad = [i for i, r in enumerate(res) if r is not True]
            for r in model_rows:
                cs = r['case']['t'][0]
                if len(cs) >= 2:
                    ck.nontrivial(r['case'])
            for r in model_rows[:3]:
                ck.sample({'case': r['case'], 'observed': r['obs']})
            detail = ''
            if bad:
                i = bad[0]
                from coqterm import to_coq
                detail = 'case %d: %s\nobserved: %s\nmodel: %s' % (
                    i, json.dumps(model_rows[i]['case']), json.dumps(model_rows[i]['obs']),
                    ck.eval_term(IMPORTS, 'run_pure ' + to_coq(model_rows[i]['case'])))
            ck.ob('model = implementation on %d cases (score bits, group counts, status)' % len(cases),
                  not bad, 'correspondence', detail)
            good = ck.eval_cases(IMPORTS, 'pcase * pobs', 'pure_good', cases, label='pure_good')
            ck.ob('premise of C20_aggregate_perm_float holds on all %d model-compared cases (no NaN, no -0.0 confidence)'
                  % len(cases), all(g is True for g in good), 'correspondence',
                  json.dumps(next((model_rows[i]['case'] for i, g in enumerate(good) if g is not True), ''))[:800])
            if bad and not summary['failures']:
                # the grouping/order oracles saw nothing (e.g. a classification change): the failing input is the
                # case on which the implementation leaves the model the theorems are about
                i = bad[0]
                ck.violation('model-mismatch', 'aggregate/classify differ from the Coq model on a generated input', True,
                             {'failing_input': {'case': model_rows[i]['case'], 'observed': model_rows[i]['obs'],
                                                'detail': detail}})
        e2e(ck, binary, quick)
    ck.finish()


def e2e(ck, binary, quick):
    """End-to-end: a real CognitiveNexus over InMemory, assertions written through KML in several recording
    orders, FIND(?b) WHERE { ... ?b BELIEF (?p) } with FOR TIME / WITH EPISTEMIC variants."""
    out = ck.work + '/c20e2e.jsonl'
    args = ['c20e2e', '--out', out, '--scenarios', '12' if quick else '150', '--orders', '3' if quick else '4',
            '--all-perms', '2' if quick else '8']
    rc, text = ck.run_harness(binary, args, timeout=3000)
    if not ck.ob('harness c20e2e ran', rc == 0 and os.path.exists(out), 'correspondence', text[-2000:]):
        return
    rows = [json.loads(l) for l in open(out)]
    summary = [r for r in rows if r['kind'] == 'summary'][-1]
    model_rows = [r for r in rows if r['kind'] == 'model']
    ck.count(summary['evaluations'])
    ck.cov['e2e_distribution'] = {k: summary[k] for k in (
        'scenarios', 'nexus_instances', 'projections', 'statuses', 'excluded_reasons', 'policies', 'with_rivals',
        'bridging', 'ledgers_in_id_order', 'features', 'all_permutation_scenarios', 'all_permutation_orders',
        'two_unattributed_on_one_side', 'for_time_spelling_probes', 'for_time_spelled_instants')}
    for f in summary['failures']:
        cls = ('e2e-order-dependence' if 'recording order' in f['what'] else
               'e2e-spelling-dependence' if 'e2e spelling' in f['what'] else 'e2e-oracle-mismatch')
        ck.violation(cls, f['what'], True, {'failing_input': f})
    ck.ob('end-to-end (KML writes, KQL BELIEF): every recording order gives the same answer and it equals the '
          'independent reading (eligibility, components, maxima, score, classification, ledgers) on %d projections '
          'of %d scenarios' % (summary['projections'], summary['scenarios']),
          summary['oracle_failures'] == 0 and summary['projections'] > 0, 'correspondence',
          json.dumps(summary['failures'][:2])[:3500])
    cases = [{'t': [r['case'], r['obs']]} for r in model_rows]
    res = ck.eval_cases(IMPORTS, 'ecase * eobs', 'check_e2e', cases, label='e2e')
    bad = [i for i, r in enumerate(res) if r is not True]
    for r in model_rows:
        own, rivals = r['case']['t'][0], r['case']['t'][1]
        if len(own) + len(rivals) >= 2:
            ck.nontrivial(('e2e', r['case']['t'][0], r['case']['t'][1], r['case']['t'][2]['t'][:4], r['obs']))
    for r in model_rows[:2]:
        ck.sample({'e2e_case': r['case'], 'observed': r['obs']})
    detail = ''
    if bad:
        from coqterm import to_coq
        i = bad[0]
        detail = 'projection %d: %s\nobserved: %s\nmodel: %s' % (
            i, json.dumps(model_rows[i]['case']), json.dumps(model_rows[i]['obs']),
            ck.eval_term(IMPORTS, 'run_e2e ' + to_coq(model_rows[i]['case'])))
        if not summary['failures']:
            # model and engine disagree although the harness-side reading agrees with the engine
            ck.violation('e2e-model-mismatch', 'Coq model project differs from the engine end-to-end', True,
                         {'failing_input': {'case': model_rows[i]['case'], 'observed': model_rows[i]['obs'], 'detail': detail}})
    ck.ob('model project = implementation end-to-end on %d projections (status, score bits, group counts, '
          'supporting/opposing/uncertain/excluded ledgers as sets)' % len(cases), not bad and len(cases) > 0,
          'correspondence', detail)
    canon = ck.eval_cases(IMPORTS, 'ecase * eobs', 'e2e_times_canonical', cases, label='e2e_times')
    ck.ob('every evaluation instant and validity bound given to the model on %d projections is in the stored form '
          'YYYY-MM-DDTHH:MM:SS.mmmZ (where text order is chronological order)' % len(cases),
          all(g is True for g in canon) and len(cases) > 0, 'correspondence',
          json.dumps(next((model_rows[i]['case'] for i, g in enumerate(canon) if g is not True), ''))[:800])
    good = ck.eval_cases(IMPORTS, 'ecase * eobs', 'e2e_good', cases, label='e2e_good')
    ck.ob('premise of C20_aggregate_perm_float holds on all %d end-to-end projections' % len(cases),
          all(g is True for g in good) and len(cases) > 0, 'correspondence',
          json.dumps(next((model_rows[i]['case'] for i, g in enumerate(good) if g is not True), ''))[:800])
