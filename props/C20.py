"""C20 — belief projection (DESIGN.md section 4/C20)."""
import json
import os

META = {
    'category': 'proof',
    'text': ('Coq theorems over an executable model of eligible/aggregate/classify (grouping = at most one new group per '
             'candidate and none when it shares an actor or evidence id; insufficient iff nobody engaged; rejected needs '
             'decisive opposition; score in [0,1], monotone, symmetric over exact rationals; the binary64 score is a '
             'function of the multiset because the fold runs over the sorted maxima), generated facts re-extracted from '
             'the source on every run, and a bit-exact correspondence run of model vs implementation.'),
    'design_ref': 'DESIGN.md section 4 / C20',
    'note': ('Trusted: Coq kernel + vm_compute on primitive floats; translator; harness + hook '
             'projection::verif; IEEE facts about f64::total_cmp (premises). Rows are supplied decoded; the KQL glue '
             'around project_belief is exercised by the end-to-end part only.'),
    'technique': 'Coq proof (induction over group lists, canonical sorted form) + translator-generated facts + differential model/impl run',
}

IMPORTS = 'From Verif Require Import Belief.Model Belief.Run.'


def run(ck):
    quick = ck.tier == 'quick'
    ck.rule = ('candidate multisets over 3 actors x 3 evidence ids: every ordered sequence of grouping shapes '
               '(actor x evidence subset) up to length 3 (quick) / 4 (thorough), plus random multisets of 1..12 '
               'candidates with all permutations for <=5; thresholds from a fixed set and random; non-trivial = a '
               'distinct model-compared case with >=2 candidates on one side')
    ck.translate()
    ck.coq(['Belief/Props.v'], ['Belief', 'gen'], model_targets=['Belief/Run.vo'])
    ck.trust('IEEE-754: f64::total_cmp is an antisymmetric, transitive total order on bit patterns '
             '(premises of C20_sorted_fold_order_independent)')
    ck.assume('rows reach the projection already decoded; time strings compare bytewise as in the code',
              'hook anda_cognitive_nexus::projection::verif (cfg anda_verif) forwards to the private aggregate/classify')
    binary = ck.cargo('h_nexus')
    if binary:
        out = ck.work + '/c20.jsonl'
        args = ['c20', '--out', out] + (['--random', '1500', '--exhaustive', '3', '--model-every', '16'] if quick
                                        else ['--random', '30000', '--exhaustive', '4', '--model-every', '40'])
        rc, text = ck.run_harness(binary, args, timeout=3000)
        ok = ck.ob('harness c20 ran', rc == 0 and os.path.exists(out), 'correspondence', text[-2000:])
        if ok:
            rows = [json.loads(l) for l in open(out)]
            summary = [r for r in rows if r['kind'] == 'summary'][-1]
            model_rows = [r for r in rows if r['kind'] == 'model']
            ck.count(summary['evaluations'])
            ck.cov['input_distribution'] = {k: summary[k] for k in ('multisets', 'bridging_multisets', 'sizes', 'statuses')}
            # direct oracle on the implementation: components + every recording order
            for f in summary['failures']:
                cls = 'order-dependence' if 'order' in f['what'] else 'group-count'
                ck.violation(cls, f['what'], True, {'failing_input': f})
            ck.ob('implementation: group count = connected components and every recording order agrees '
                  '(%d multisets, %d evaluations)' % (summary['multisets'], summary['evaluations']),
                  summary['oracle_failures'] == 0, 'correspondence',
                  json.dumps(summary['failures'][:2]))
            cases = [{'t': [r['case'], r['obs']]} for r in model_rows]
            res = ck.eval_cases(IMPORTS, 'pcase * pobs', 'check_pure', cases)
            bad = [i for i, r in enumerate(res) if r is not True]
            for r in model_rows:
                cs = r['case']['t'][0]
                if len(cs) >= 2:
                    ck.nontrivial(r['case'])
            for r in model_rows[:3]:
                ck.sample({'case': r['case'], 'observed': r['obs']})
            detail = ''
            if bad:
                i = bad[0]
                from coqterm import to_coq
                detail = 'case %d: %s\nobserved: %s\nmodel: %s' % (
                    i, json.dumps(model_rows[i]['case']), json.dumps(model_rows[i]['obs']),
                    ck.eval_term(IMPORTS, 'run_pure ' + to_coq(model_rows[i]['case'])))
            ck.ob('model = implementation on %d cases (score bits, group counts, status)' % len(cases),
                  not bad, 'correspondence', detail)
            if bad and not summary['failures']:
                # the model and the code disagree but the direct oracle saw nothing: report without a failing input
                pass
    ck.finish()
