"""C15 — KIP parsing is total, bounded, deterministic and classifies by content (DESIGN.md section 4 / C15).

Proved (Coq): the budget pre-scan, the generated call graph, the reference tokenizer.
Explored (harness, labelled as exploration): the nom parser itself on generated text.
"""
import glob
import json
import os
import re

import vlib

META = {
    'category': 'proof',
    'text': ('PROVED in Coq, for all inputs: (1) validate_parser_budget, transcribed literally as a fold over characters with the '
             'limits, bracket alphabet and comparison strictness re-extracted from parser.rs on every run: acceptance implies '
             '<= MAX_KIP_INPUT_LEN bytes and, at every prefix, <= MAX_KIP_NESTING_DEPTH open brackets outside strings and // '
             'comments in a lookahead (lexical) reading; inputs beyond either limit are refused; a refusal always has a deep/long '
             'witness; the scanner\'s string/comment flags and stack coincide with the lexical reading at every point (no '
             'desynchronisation) — the scanner runs with ITS comment terminators / quote / escape (extracted from '
             'validate_parser_budget) and the lexical reading with the PARSER\'s (extracted from skip_ws_and_comments, trivia1, '
             'string, character in json.rs / common.rs), joined by C15_trivia_sites_agree, which is decided on the generated facts, '
             'so an edit that moves the end of a comment at one site only breaks an obligation. (2) over the parser call graph regenerated from parser.rs + parser/{common,kql,kml,meta,json}.rs '
             '(one entry per call position, classified as behind a consumed opening bracket / depth+1 with the depth test / plain): '
             'every cycle passes a bracket-guarded or depth-counted call (decided by vm_compute on the finite graph: 119 functions, '
             '~470 call positions), and any chain of pending calls that respects the depth counters and holds one still-open bracket '
             'per bracket-guarded call is shorter than a constant computed from the graph, for budget-accepted input. (3) a '
             'reference tokenizer: inserting whitespace / newline-terminated comments where no string, comment or word is cut, and '
             'flipping the case of word letters outside strings and comments, preserve the tokens (up to word case). '
             'EXPLORED, NOT PROVED: that the real nom parser terminates without panic / stack overflow / hang on all strings, that '
             'its pending calls are chains of that graph, classification agreement of parse_kip with parse_kql/kml/meta, independence '
             'of keyword case / inter-token whitespace / comments (incl. comment-content independence: emptying every comment changes '
             'nothing; comments hold CR, U+2028/2029, NEL, VT, FF followed by quotes, brackets and tokens), whole-input consumption, re-validation and the serde JSON round '
             'trip: checked on grammar-derived KQL/KML/META sentences up to and beyond the nesting limit, their token-level mutants, '
             'directed recursion probes, the budget stream and arbitrary Unicode, each parse in a child process on a 256 KiB thread '
             'under catch_unwind with a wall-clock bound; the budget model and the tokenizer are evaluated by vm_compute on the same '
             'inputs (model = implementation through all five entry points; every metamorphic pair certified token-equivalent).'),
    'design_ref': 'DESIGN.md section 4 / C15',
    'note': ('Partial by design: totality/termination of the real parser on ALL strings is explored, not proved (the nom grammar is '
             'not modelled). Trusted: Coq kernel + vm_compute; the translator tools/gen_kipgraph.py (tokenises the Rust, resolves '
             'names per module, tracks binding scopes; classifies call positions); the harness and its independent lookahead reading '
             'of the limits; the modelling premises of C15_recursion_depth_bounded (pending calls form a path of the graph; each '
             'bracket-guarded pending call holds its own open bracket; nom combinator frames add a constant factor per call). '
             'Tree walkers over the finished AST (collect_*, validate_exact_*, Drop, serde) recurse structurally on a tree whose '
             'depth the parser bounded; they are listed (kg_walkers) and exercised, not modelled. Known finding (open): trees of '
             'accepted commands nested >= 62 brackets deep exceed serde_json\'s 128-level recursion limit on decode.'),
    'technique': ('Coq proof (simulation of the flag scanner by a lookahead lexer; rank certificates on a generated finite graph; '
                  'state-machine tokenizer) + translator-generated facts + differential model/impl run + grammar-based, '
                  'metamorphic and directed exploration in a sandboxed child process'),
}

IMPORTS = 'From Verif Require Import Kip.Budget Kip.BudgetInst Kip.Lex Kip.RunC15.'
MY_COQ = ['Kip/Budget.v', 'Kip/BudgetProofs.v', 'Kip/BudgetInst.v', 'Kip/CallGraph.v', 'Kip/CallGraphProofs.v',
          'Kip/CallGraphInst.v', 'Kip/Lex.v', 'Kip/LexProofs.v', 'Kip/RunC15.v', 'Kip/PropsC15.v', 'gen/Gen_KipGraph.v']

# failure classes of the harness's direct oracle -> the clause of the property they contradict
CLAUSES = [
    ('never a panic, stack overflow or hang (child process, 256 KiB thread, catch_unwind, wall-clock bound)', ('panic', 'crash', 'hang')),
    ('inputs beyond the length / nesting limits are refused before parsing, by all five entry points, and nothing within them is', ('budget',)),
    ('parse_kip agrees with parse_kql / parse_kml / parse_meta; classification is by the text alone', ('classification', 'nondeterminism')),
    ('the result does not depend on keyword case', ('metamorphic-case',)),
    ('the result does not depend on inter-token whitespace or comments', ('metamorphic-trivia', 'whitespace-kind', 'comment-content')),
    ('the whole input is consumed (a trailing token is refused)', ('trailing-input',)),
    ('validate_command accepts every tree the parser returned', ('revalidation',)),
    ('serde JSON encode/decode of the tree is the identity (within serde_json\'s recursion limit: see known finding serde-depth-limit)', ('serde-roundtrip',)),
]


def my_hygiene(ck):
    bad = []
    for f in MY_COQ:
        p = vlib.COQ + '/' + f
        if not os.path.exists(p):
            bad.append(f + ': missing')
            continue
        src = vlib.strip_coq_comments(open(p).read())
        for m in vlib.FORBIDDEN.finditer(src):
            bad.append('%s: %s' % (f, m.group(0)))
    ck.ob('no Admitted/admit/Axiom/Parameter/Conjecture/disabled checks in the C15 files', not bad, 'hygiene', '\n'.join(bad))


def run(ck):
    quick = ck.tier == 'quick'
    ck.level = 'proof'
    ck.rule = ('streams: (A) grammar-derived KQL/KML/META sentences as token lists (every clause family; nesting 0..8, and single-construct '
               'spines of depth 1..2000 straddling the 64 limit), each with 3 variants (keyword case, trivia, both) parsed and compared; '
               '(A\') the same with Unicode whitespace; (B) token-level mutants (splice/delete/duplicate/swap/truncate/crossover/char-truncate); '
               '(C) directed recursion probes (an atom repeated 63..120000 times at a token boundary of 12 seed sentences, 52 atoms incl. '
               'operators that open no bracket); (D) the budget stream (26 structured boundary cases incl. bytes!=chars at the length limit, '
               'then random bracket/quote/slash/newline strings) through all five entry points and the Coq model; (E) arbitrary Unicode. '
               'non-trivial = a distinct accepted tree (hash of its JSON), or a distinct input refused by the budget')
    ck.translate(only=['gen_kipgraph'])
    my_hygiene(ck)
    ck.coq(['Kip/PropsC15.v'], ['gen'], model_targets=['Kip/RunC15.vo'])
    ck.trust('translator tools/gen_kipgraph.py: Rust tokeniser, per-module name resolution, binding scopes, classification of call '
             'positions (bracket-guarded / depth argument / depth test)',
             'modelling premises of C15_recursion_depth_bounded: pending parser calls form a path of the generated graph, each '
             'bracket-guarded pending call holds its own still-open bracket, depth counters run as drun says')
    ck.assume('the nom parser is not modelled: its totality is explored by the harness, not proved',
              'char::is_whitespace = Unicode White_Space (the set in Kip/Lex.v is_ws)',
              'AST walkers, Drop and serde recurse structurally over a tree whose depth the parser bounded (exercised, not modelled)')
    ck.cov['explored_not_proved'] = ('termination / no panic / no overflow of the real parser on all strings; classification agreement; '
                                     'metamorphic independence; whole-input consumption; re-validation; serde round trip')
    binary = ck.cargo('h_kipparse')
    if not binary:
        return ck.finish()
    if ck.replay:
        # re-run the recorded failing input alone through the same parent/worker path
        rep = json.load(open(ck.replay))
        fi = rep.get('failing_input', {})
        rle = fi.get('input_rle')
        text = ''.join(chr(p['t'][0]['N']) * p['t'][1]['N'] for p in rle) if isinstance(rle, list) else fi.get('input', '')
        path = ck.work + '/replay_input.txt'
        open(path, 'w', encoding='utf-8').write(text)
        rc, txt = ck.run_harness(binary, ['one', '--input-file', path], timeout=600)
        try:
            r = json.loads(txt.strip().splitlines()[-1])
        except (ValueError, IndexError):
            r = {'crash': txt[-500:]}
        ck.count(1)
        fails = r.get('fails', [])
        if 'crash' in r or 'hang' in r:
            fails = [{'class': 'crash' if 'crash' in r else 'hang', 'what': json.dumps(r)[:300], 'input': text[:600]}]
        for f in fails:
            ck.violation(f['class'], '%s: %s' % (f['class'], f.get('what', '')), True, {'failing_input': f})
        ck.ob('replayed input %s shows no failure' % os.path.basename(ck.replay), not fails, 'correspondence', json.dumps(fails)[:1500])
        ck.sample({'replayed': text[:300], 'result': {k: v for k, v in r.items() if k != 'fails'}})
        return ck.finish()
    out = ck.work + '/c15.jsonl'
    if os.path.exists(out):
        os.remove(out)
    if quick:
        args = ['--sentences', '280', '--mutants', '300', '--stress', '160', '--budget', '120', '--unicode', '60', '--uws', '30',
                '--model-every', '6', '--lex-max', '450']
    else:
        args = ['--sentences', '3000', '--mutants', '4000', '--stress', '1500', '--probes', '1200', '--budget', '1000', '--unicode', '500',
                '--uws', '200', '--model-every', '12', '--lex-max', '2000']
    rc, text = ck.run_harness(binary, ['run', '--out', out] + args, timeout=3000)
    rows = []
    if os.path.exists(out):
        for l in open(out):
            try:
                rows.append(json.loads(l))
            except ValueError:
                pass
    summ = [r for r in rows if r.get('kind') == 'summary']
    if not ck.ob('harness h_kipparse ran to completion', rc == 0 and bool(summ), 'correspondence', text[-2000:]):
        return ck.finish()
    s = summ[-1]
    ck.count(s['evaluations'])
    for k in s['distinct_nontrivial_keys']:
        ck.nontrivial(k)
    ck.cov['input_distribution'] = {k: s[k] for k in ('inputs', 'accepted', 'rejected_by_code', 'budget_obs', 'accepted_fraction_sentences',
                                                      'max_accepted_bracket_depth', 'distinct_accepted_trees', 'metamorphic_groups',
                                                      'metamorphic_pairs', 'crashes', 'hangs', 'worker_restarts')}
    ck.cov['ast_variants_reached'] = [v for v in s['variants_seen'] if not v.startswith('=')]
    ck.cov['level_note'] = 'proof for the budget / call-graph / tokenizer theorems; exploration for the parser itself'
    for r in [r for r in rows if r.get('kind') == 'sample'][:6]:
        ck.sample({'stream': r['stream'], 'input': r['input'], 'class': r['class'], 'budget': r['budget']})

    # ---- the direct oracle on the implementation: every failure is a concrete failing input
    by_class = s.get('failures_by_class', {})
    for f in s['failures']:
        f = dict(f)
        if f.get('input_rle') and len(json.dumps(f['input_rle'])) > 20000:
            f['input_rle'] = '(omitted: long)'
        ck.violation(f['class'], '%s: %s' % (f['class'], f.get('what', '')), True, {'failing_input': f})
    n_inputs = sum(s['inputs'].values())
    for text_, classes in CLAUSES:
        n_bad = sum(by_class.get(c, 0) for c in classes)
        ex = [f for f in s['failures'] if f['class'] in classes][:1]
        ck.ob('explored on %d inputs: %s' % (n_inputs, text_), n_bad == 0, 'correspondence',
              json.dumps([{k: v for k, v in e.items() if k not in ('input_rle', 'base_rle')} for e in ex])[:1500])
    ck.ob('the generator reaches the grammar: >= 85%% of base sentences accepted (%.2f) and KQL, KML, META all accepted'
          % s['accepted_fraction_sentences'],
          s['accepted_fraction_sentences'] >= 0.85 and all(s['accepted'].get(k, 0) > 0 for k in ('Kql', 'Kml', 'Meta')), 'correspondence',
          json.dumps(s['accepted']))

    # ---- model = implementation: the budget scanner (through parse_kip) and the tokenizer on the metamorphic pairs
    bud = [r['case'] for r in rows if r.get('kind') == 'budget']
    res = ck.eval_cases(IMPORTS, 'list (N * N) * bres', 'check_budget', bud, shard=120, timeout=900, label='budget')
    bad = [i for i, r in enumerate(res) if r is not True]
    ck.count(len(bud))
    detail = ''
    if bad:
        from coqterm import to_coq
        c = bud[bad[0]]
        detail = 'input (rle) %s\nimplementation: %s\nmodel: %s' % (json.dumps(c['t'][0])[:1500], c['t'][1]['c'],
                                                                  ck.eval_term(IMPORTS, 'run_budget ' + to_coq(c['t'][0]))[-200:])
    ck.ob('Coq budget model = validate_parser_budget as observed through parse_kip on %d inputs (incl. the length boundary with '
          'multi-byte characters)' % len(bud), not bad and len(bud) > 0, 'correspondence', detail)
    lex = [r['case'] for r in rows if r.get('kind') == 'lex']
    res = ck.eval_cases(IMPORTS, 'list (N * N) * list (N * N)', 'check_lex', lex, shard=60, timeout=900, label='lex')
    bad = [i for i, r in enumerate(res) if r is not True]
    ck.count(len(lex))
    ck.ob('every metamorphic (base, variant) pair is token-equivalent for the reference tokenizer (%d pairs): the variants differ '
          'from the base only by trivia and word case' % len(lex), not bad and len(lex) > 0, 'correspondence',
          json.dumps(lex[bad[0]])[:1500] if bad else '')
    ck.finish()
