"""C09 — EncryptedStore: tampering is detected, no plaintext at rest, nonces unique (DESIGN.md section 4 / C09)."""
import json
import os

import vlib

META = {
    'category': 'proof',
    'text': ('Coq theorems over a symbolic model of EncryptedStore transcribed from encryption.rs (ideal AEAD as explicit '
             'premises): the metadata AAD encoder, interpreted over the statement list re-extracted from the source on every run, '
             'has a decoder and is therefore injective on (path, every authenticated field); every Metadata field a read path '
             'consults is covered by the seal; derive_gcm_nonce is injective below 2^64 (wrap-around included) and put_opts uses '
             'pairwise distinct chunk nonces; chunk and metadata AADs are domain separated; for an arbitrary adversarial backend '
             'get / ranged get (incl. first-chunk offset and last-chunk truncation logic of the decryption stream), head and list '
             'and get_ranges return Ok only with the requested slice(s) / the metadata of a plaintext honestly committed under that very path; '
             'copy/rename reseal only a document that passed verification in the loop iteration that used it, whatever the cache holds '
             '(compat mode: or the empty result of an unauthenticated legacy document - the documented downgrade window, shown by '
             'a _refuted lemma); stripped or half-stripped seals are rejected; what put_opts writes depends on the plaintext only '
             'through its length and the sealed chunks. Tie: single-site tamper enumeration on the real store over InMemory '
             '(every byte x 8 bit flips, every truncation, extensions, chunk and object swaps, key and generation exchanges, field '
             'edits, stripping, transplants) on get / ranged get / get_ranges / head / three list variants in both modes, with '
             'the outcome class compared with the model on a stratified sample; the same tampers against handles with a WARM or STALE '
             'metadata cache (second handle overwrote the key), with copy and rename judged as read paths of the source (what a fresh '
             'handle reads at the target), compared with the model of copy_payload; independent AES-GCM re-verification of every '
             'honest seal under the transcribed AAD/nonce; plaintext window scan; nonce set recomputation.'),
    'design_ref': 'DESIGN.md section 4 / C09',
    'note': ('Trusted: Coq kernel; ideal AEAD + nonce-once as premises (AES-GCM itself is not verified; cross-object nonce '
             'uniqueness rests on the CSPRNG); CBOR decoding is abstracted (the decoded document is arbitrary); translator; '
             'harness (mirror of the Metadata serde layout, its own AAD/nonce transcription checked against the real tags). '
             'Replay of a complete older version of a '
             'key is outside the property. Compat-mode legacy downgrade is a recorded open finding.'),
    'technique': 'Coq proof (decoder round trip, invariant over the decryption stream, symbolic AEAD) + translator-generated facts + exhaustive single-site tamper enumeration on the implementation with model comparison',
}

IMPORTS = ('From Coq Require Import List ZArith NArith String.\nFrom Verif Require Import Crypto.Model Crypto.Run.\n'
           'Import ListNotations.\nOpen Scope list_scope.\n')


def run(ck):
    from coqterm import to_coq
    quick = ck.tier == 'quick'
    ck.rule = ('objects of sizes 0,1,cs-1,cs,cs+1,2cs,2cs+3,3cs,3cs+1 (put, multipart with irregular parts, overwrite, copy, '
               'rename; chunk size 4 in quick, 4 and 7 in thorough); tampers: every byte x 8 bit flips of every inner object, '
               'every truncation length, extensions, chunk swaps/duplications/removals, pairwise swaps and one-way replacements '
               'of whole inner objects, key exchanges, generation re-pointing, structural field edits, all 48 auth-field strip '
               'subsets, seal/tag transplants between documents; reads: full get, ranged gets (bounded/offset/suffix across '
               'chunk boundaries; all (s,e) pairs in thorough), get_ranges, head, list / list_with_offset / list_with_delimiter, '
               'compat and strict mode; then every tamper of two keys against a handle with a warm cache and against a handle whose cache '
               'is stale (key overwritten through another handle): reads, list, copy and rename through that handle, target read '
               'through a fresh one; non-trivial = a model-compared case under a real tamper')
    ck.translate()
    ck.coq(['Crypto/Props.v'], ['Crypto', 'gen'], model_targets=['Crypto/Run.vo'])
    ck.trust('ideal AEAD (open succeeds only on honestly sealed tuples) and nonce-once are premises of C09_get/head/list_integrity; '
             'AES-256-GCM meets them up to negligible probability given nonce uniqueness',
             'cross-object nonce uniqueness rests on the 96-bit random base nonces (rand::rng CSPRNG); only the per-object part is proved',
             'CBOR (cbor2/serde) decoding is abstracted: the theorems quantify over an arbitrary decoded document')
    ck.assume('all integers of a decoded document are in their Rust ranges and all byte strings shorter than 2^64 (wf_meta)',
              'the result of a streamed read is judged after collecting the whole stream (an error after partial output is an error)',
              'replay of a complete older version of the same key (document + payload) is outside the property; measured and reported')
    binary = ck.cargo('h_crypt')
    if binary:
        out = ck.work + '/c09.jsonl'
        args = ['--out', out] + (['--chunk-sizes', '4', '--model-every', '1999', '--per-stratum', '3'] if quick
                                 else ['--chunk-sizes', '4,7', '--model-every', '499', '--per-stratum', '20'])
        rc, text = ck.run_harness(binary, args, timeout=3000)
        ok = ck.ob('harness h_crypt ran', rc == 0 and os.path.exists(out), 'correspondence', text[-2000:])
        if ok:
            rows = [json.loads(l) for l in open(out)]
            summary = [r for r in rows if r['kind'] == 'summary'][-1]
            honest = [r for r in rows if r['kind'] == 'honest']
            model_rows = [r for r in rows if r['kind'] == 'model']
            nonce_rows = [r for r in rows if r['kind'] == 'nonce']
            ck.count(summary['evaluations'])
            ck.cov['input_distribution'] = {k: summary[k] for k in (
                'tampers', 'tamper_classes', 'outcomes', 'object_sizes', 'chunk_sizes', 'plaintext_windows',
                'distinct_nonces', 'seal_checks', 'model_cases', 'panics', 'older_version_replays_in_listing',
                'cached_handle_setups', 'cached_handle_outcomes')}
            ck.cov['documented_limits_measured'] = summary['limits']
            # ---- direct oracle on the implementation
            for f in summary['failures']:
                ck.violation(f['class'], f['what'], True, {'failing_input': f})
            counts = summary['failure_counts']
            other = {k: v for k, v in counts.items() if k != 'compat-legacy-downgrade'}
            ck.ob('implementation: every read under every single-site tamper is the original outcome or an error; no plaintext '
                  'window at rest; nonces pairwise distinct; honest seals verify under the transcribed AAD/nonce '
                  '(%d tampers, %d reads)' % (summary['tampers'], summary['evaluations']),
                  not other, 'correspondence', json.dumps(other) + json.dumps(summary['failures'][:2])[:1500])
            if counts.get('compat-legacy-downgrade'):
                ck.cov['compat_legacy_downgrade_instances'] = counts['compat-legacy-downgrade']
            if summary['panics']:
                ck.cov['panic_samples'] = summary['panic_samples']
            # ---- model vs implementation
            defs = ''.join('Definition honest_%d : list hentry := %s.\n' % (h['scenario'], to_coq(h['term'])) for h in honest)
            # the honest documents are compiled once; the case shards only refer to them
            mdir = ck.work + '/model'
            os.makedirs(mdir, exist_ok=True)
            open(mdir + '/C09_honest.v', 'w').write(IMPORTS + defs)
            rc2, out2, _ = vlib.sh('coqc -q -noglob -Q %s Verif C09_honest.v' % vlib.COQ, cwd=mdir, timeout=900)
            ck.ob('honest documents load into the model', rc2 == 0, 'correspondence', out2[-1500:])
            imports = IMPORTS + 'Require Import C09_honest.\n'
            os.makedirs(ck.work + '/copy', exist_ok=True)
            if rc2 == 0:
                vlib.sh('cp -f C09_honest.vo ../copy/', cwd=mdir)
            entries = [r['case'] for r in rows if r['kind'] == 'aad']
            res = ck.eval_cases(IMPORTS, 'hentry * bytes', 'check_aad', entries, label='aad')
            bad = [i for i, r in enumerate(res) if r is not True]
            ck.ob('model AAD encoder = bytes under which the real seal verifies, and the decoder inverts them (%d documents)' % len(entries),
                  not bad and entries, 'correspondence', json.dumps(entries[bad[0]])[:1500] if bad else '')
            ncases = [r['case'] for r in nonce_rows]
            res = ck.eval_cases(IMPORTS, 'bytes * Z * bytes * Z * bytes', 'check_nonce', ncases, label='nonce')
            bad = [i for i, r in enumerate(res) if r is not True]
            ck.ob('model derive_gcm_nonce / chunk_aad = values under which the real chunks verify, incl. a counter that wraps (%d)' % len(ncases),
                  not bad and ncases, 'correspondence', json.dumps(ncases[bad[0]]) if bad else '')
            cases = [{'t': [r['case'], r['obs']]} for r in model_rows]
            res = ck.eval_cases(imports, 'tcase * obs', 'check_case', cases, shard=200, timeout=1200, label='model')
            bad = [i for i, r in enumerate(res) if r is not True]
            for r in model_rows:
                if r['tclass'] != 'identity':
                    ck.nontrivial((r['tamper'], json.dumps(r['case']['t'][5]), r['case']['t'][0]))
            for r in [r for r in model_rows if r['tclass'] != 'identity'][:4]:
                ck.sample({'tamper': r['tamper'], 'op': r['case']['t'][5], 'strict': r['case']['t'][0], 'observed_class': r['oclass']})
            detail = ''
            if bad:
                i = bad[0]
                detail = 'tamper: %s\nobserved: %s\nmodel: %s' % (
                    model_rows[i]['tamper'], json.dumps(model_rows[i]['obs'])[:600],
                    ck.eval_term(IMPORTS + defs, 'run_case ' + to_coq(model_rows[i]['case']))[-1200:])
            ck.ob('model outcome = implementation outcome on %d sampled (tamper, read) pairs' % len(cases),
                  not bad and cases, 'correspondence', detail)
            # copy / rename through a handle with a warm or stale cache: what the target reads as
            copy_rows = [r for r in rows if r['kind'] == 'copy']
            ccases = [{'t': [r['case'], r['obs']]} for r in copy_rows]
            res = ck.eval_cases(imports, 'ccase * obs', 'check_copy', ccases, shard=200, timeout=1200, label='copy')
            bad = [i for i, r in enumerate(res) if r is not True]
            for r in copy_rows:
                ck.nontrivial((r['tamper'], r['mode'], r['op'], r['case']['t'][0]))
            for r in copy_rows[:2]:
                ck.sample({'tamper': r['tamper'], 'handle': r['mode'], 'op': r['op'], 'strict': r['case']['t'][0], 'observed_class': r['oclass']})
            detail = ''
            if bad:
                i = bad[0]
                detail = 'tamper: %s (%s, %s)\nobserved: %s\nmodel: %s' % (
                    copy_rows[i]['tamper'], copy_rows[i]['mode'], copy_rows[i]['op'], json.dumps(copy_rows[i]['obs'])[:600],
                    ck.eval_term(IMPORTS + defs, 'run_copy ' + to_coq(copy_rows[i]['case']))[-1200:])
            ck.ob('model copy_source + read of the target = implementation on %d (cached document, backend document) pairs' % len(ccases),
                  not bad and ccases, 'correspondence', detail)
    # a recorded finding must not hide an obligation that no longer checks
    if (ck.broken() and any(v['found'] for v in ck.violations)
            and not any(v['found'] and v['cls'] != 'compat-legacy-downgrade' for v in ck.violations)):
        rest = ck.broken()
        ck.violation('broken-obligation', 'obligation(s) no longer check: ' + '; '.join(o['name'] for o in rest)[:600], False,
                     {'broken_obligations': [o['name'] for o in rest],
                      'details': {o['name']: o['detail'] for o in rest if 'not checked: build failed' not in o['detail']}})
    ck.finish()
