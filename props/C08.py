"""C08 — wrapper writes are atomic under crashes; garbage collection is safe (DESIGN.md section 4/C08)."""
import json
import os

META = {
    'category': 'proof',
    'text': ('Coq theorems over an executable model of the immutable-generation layout shared by MetaStore and '
             'EncryptedStore: every wrapper operation (put, multipart, copy, rename, delete; legacy data/ layout included) '
             'is the list of backend steps assembled from the call order extracted from the source on every run; for every '
             'backend, key, fresh generation and every crash prefix every key reads old-or-new in full, never dangling or '
             'mismatching, rename never loses both names (Common.CommitPoint per key); an invariant over all interleavings '
             'of writers\' steps, the in-flight registry, one collector and crashes shows collect_garbage never deletes a '
             'referenced or pending payload, and both sweep guards are shown necessary. The real wrappers are run over '
             'FaultStore with a crash after every k-th inner mutation and a cold restart (direct old-or-new oracle), their '
             'recorded mutation logs are judged by the proved monitor and compared with the model\'s step lists.'),
    'design_ref': 'DESIGN.md section 4 / C08',
    'note': ('Trusted: Coq kernel + vm_compute; translator tools/gen_flush.py; harness h_store (recording layer, '
             'canonicalisation of CBOR documents: a document "describes" its payload when size and H(generation||bytes) / '
             'copy-derived e_tag match, for EncryptedStore size and AES-tag count, decryptability is checked end to end by '
             'reading through the real wrapper); FaultStore and InMemory from /repo. Modelled: moka\'s per-key compute '
             'section as a mutex, generation freshness as a premise. Concurrency of GC with writers is proved on the '
             'transition system (incl. the mark snapshot: exempting keys without a commit point at mark time from the re-check is refuted); '
             'on the implementation every backend call of the collector and of one writer (put / copy / multipart / delete, new key '
             'and overwrite) is a scheduling point (issue and answer of reads) and their interleavings are enumerated depth-first '
             '(bounded in the quick tier, plus random schedules); two writers x GC only in the parked-at-pointer-switch schedule (partial).'),
    'technique': 'Coq proof (commit-point theory per key, transition-system invariant) + translator-generated call orders + certified monitor over FaultStore mutation logs + exhaustive crash-point exploration',
}

IMPORTS = 'From Verif Require Import Store.Model Store.Run.'
CASE_T = {'log': 'bstore * list lstep', 'gclog': 'bstore * list lstep',
          'op': 'bool * opk * bstore * octx * list lstep'}
FN = {'log': 'check_log', 'gclog': 'check_gclog', 'op': 'check_op'}


MAXROWS = True


def run(ck):
    quick = ck.tier == 'quick'
    ck.rule = ('operation sequences (3-6 ops of put[4 modes]/multipart/copy/rename/delete/collect_garbage over 4 nested keys, '
               'payload sizes around the chunk size, planted legacy objects, orphan generations and foreign objects) x 5 wrapper '
               'configurations (MetaStore, EncryptedStore chunk 1/7/16/65536); every k: crash after the k-th inner mutation, cold '
               'restart, read/list/head every key, collect_garbage, read again; plus GC-race scenarios: 1-2 writers (put overwrite / put new / copy / multipart) parked '
               'at their pointer switch while collect_garbage runs to completion; plus enumerated interleavings of all backend calls of one '
               'writer (6 shapes) with all backend calls of collect_garbage (mark listing, per-key reads, gen/ and data/ listings, re-checks, '
               'deletes), both wrappers; non-trivial = a distinct (sequence, crash point) '
               'whose interrupted operation changes the key (old != new)')
    ck.translate()
    ck.coq(['Store/Props_C08.v'], ['Store', 'gen', 'Common'], model_targets=['Store/Run.vo'])
    ck.trust('premise: the generation minted for an operation differs from the one the key points at (new_generation: ms timestamp + 32 random bits)',
             'premise (C08_gc_*): every generation object on the backend was minted earlier (set `used`), new generations are not in it',
             'model: the per-key critical section of moka and_try_compute_with keeps a key\'s commit point unchanged between fetch and put')
    ck.assume('backend puts/deletes/copies are individually atomic (the repository\'s crash model, FaultStore)',
              'external corruption of metadata documents is out of scope (undecodable documents are not modelled)')
    binary = ck.cargo('h_store')
    if binary:
        out = ck.work + '/c08.jsonl'
        args = ['c08', '--out', out, '--seqs', '90' if quick else '2500']
        rc, text = ck.run_harness(binary, args, timeout=3000)
        ok = ck.ob('harness c08 ran', rc == 0 and os.path.exists(out), 'monitor', text[-2000:])
        if ok:
            rows = [json.loads(l) for l in open(out)]
            summary = [r for r in rows if r['kind'] == 'summary'][-1]
            model_rows = [r for r in rows if r['kind'] == 'model']
            ck.count(summary['evaluations'])
            ck.cov['input_distribution'] = {k: summary[k] for k in (
                'sequences', 'crash_points', 'ops', 'wrappers', 'interrupted', 'outcomes', 'gc_runs_after_crash',
                'gc_deleted_after_crash', 'legacy_migrations', 'model_cases', 'gc_race_scenarios', 'gc_deleted_during_races', 'gc_schedule_scenarios', 'gc_schedules', 'gc_schedules_exhaustive')}
            for f in summary['failures']:
                ck.violation(f['class'], f['what'], True, {'failing_input': f})
            ck.ob('implementation: after a crash at each of %d points and a cold restart every key reads old-or-new in full, '
                  'listings/heads agree, rename keeps a name, collect_garbage changes no read' % summary['crash_points'],
                  summary['oracle_failures'] == 0, 'monitor', json.dumps(summary['failures'][:2])[:3000])
            ck.ob('crash exploration is not vacuous (crash points > 0, some leave the old and some the new value, GC reclaimed leftovers)',
                  summary['crash_points'] > 0 and summary['outcomes'].get('old', 0) > 0 and summary['outcomes'].get('new', 0) > 0
                  and summary['gc_deleted_after_crash'] > 0 and summary['gc_race_scenarios'] > 0 and summary['gc_deleted_during_races'] > 0 and summary['gc_schedules'] > 0,
                  'monitor', json.dumps(summary['outcomes']))
            for pt in summary['nontrivial']:
                ck.nontrivial(tuple(pt))
            for chk in ('log', 'gclog', 'op'):
                sel = [r for r in model_rows if r['check'] == chk]
                maxrows = 1500 if quick else 8000
                if len(sel) > maxrows:      # evenly spaced sample; the harness's direct oracle covers every case
                    step = len(sel) / float(maxrows)
                    sel = [sel[int(i * step)] for i in range(maxrows)]
                cases = [r['case'] for r in sel]
                res = ck.eval_cases(IMPORTS, CASE_T[chk], FN[chk], cases, label='c08_' + chk, shard=40, timeout=1500)
                ck.count(len(cases))
                bad = [i for i, x in enumerate(res) if x is not True]
                detail = ''
                if bad:
                    i = bad[0]
                    detail = 'row %s\ncase: %s' % (json.dumps({k: v for k, v in sel[i].items() if k != 'case'}), json.dumps(sel[i]['case'])[:3000])
                    if chk == 'op':
                        from coqterm import to_coq
                        detail += '\nmodel steps: ' + ck.eval_term(IMPORTS, 'run_op ' + to_coq(sel[i]['case']))[:2000]
                name = {'log': 'monitor: each recorded mutation log of an operation is a well-formed commit per key (%d logs)',
                        'gclog': 'monitor: each collect_garbage log after a crash deletes only unreferenced payloads (%d logs)',
                        'op': 'model step list (from generated call order) = recorded mutation log (%d operations)'}[chk] % len(cases)
                ck.ob(name, not bad and len(cases) > 0, 'monitor' if chk != 'op' else 'correspondence', detail)
            for r in model_rows[:2]:
                ck.sample({'check': r['check'], 'case': r['case']})
    ck.finish()
