"""C12 — vector search is sound, distance-ordered, and keeps its recall floor (DESIGN.md section 4/C12)."""
import json
import os

META = {
    'category': 'proof',
    'text': ('Coq theorems over an executable model of HnswIndex search_layer/search_attempt/search_inner/search_f32, '
             'remove and load_nodes (validate, drop missing ids, prune edges, repair entry point): search is sound for ANY '
             'graph and ANY distance oracle (at most k results, distinct ids, every id a key of nodes, reported distance = '
             'oracle value, non-decreasing in the OrderedFloat order); whatever load_nodes accepts over ANY ids bitmap and ANY '
             'mixture of node blobs - hence every crash prefix of every write sequence - has nodes = ids and a live entry '
             'point; a removed id is unreachable. Tied to the source by generated facts (constants, flush step order, '
             'validation order) and by a correspondence run of the model against the real index (search results incl. '
             'tie-breaks, loaded states of every crash prefix, removals) on generated histories over all four metrics and '
             'both neighbour-selection strategies, at the index level and through the collection-level Hnsw wrapper over '
             'Storage (CAS puts, purge_orphan_node_blobs). insert needs no invariant for soundness (any graph); it is proved '
             'to keep nodes and ids in step, so the statements compose over any history after any crash prefix. RECALL FLOORS ARE NOT A THEOREM: recall@10 on the documented workloads '
             'is measured over several seeds and reported as a measurement; a drop below floor minus margin is reported '
             'as a violation with the seed.'),
    'design_ref': 'DESIGN.md section 4 / C12',
    'note': ('Partial by design: recall floors are statistical (measured, not proved). Trusted: Coq kernel + vm_compute; '
             'translator; harness and its distance keys (the f32 the crate\'s own metric returns, seen through the '
             'OrderedFloat order); an independent f64 reading of the four metrics in the harness (tolerance 1e-3) ties '
             '"configured metric" to the crate function. Modelled, not verified: papaya/croaring/cbor2; the layer '
             'generator (LayerGen::generate draws from rand::rng(), the thread RNG - the crate offers no seed, so graphs '
             'differ between runs with one VERIF_SEED; operations, vectors and queries are deterministic in the seed); '
             'insert: layer choice, construction searches and neighbour selection are arbitrary parameters of the model '
             '(soundness holds for any graph) and are exercised through the graphs they build; the re-link of '
             'reconnect_on_delete is an arbitrary function in the model and is read off the observation in the '
             'correspondence run (with a check that it only draws from the candidate set of the code); node key = node.id '
             '(enforced by insert and validate_loaded_node); multipart uploads of the object store are not snapshotted '
             '(not used by the HNSW artifacts). Concurrency is out of scope here (single-threaded histories).'),
    'technique': 'Coq proof (loop invariants over the two heaps, any-graph soundness, load/crash-prefix invariant) + translator-generated facts + differential model/impl run + measured recall',
}

IMPORTS = 'From Verif Require Import Hnsw.Model Hnsw.Run.'


def run(ck):
    quick = ck.tier == 'quick'
    ck.rule = ('insert/remove/re-insert/flush/query histories of 12..70 operations over id spaces of 4..60; history h uses '
               'metric h%4, strategy (h/4)%2, reconnect (h/8)%2 and dimension 2+((h+seed)*11 mod 63) (all of 2..64 in the '
               'thorough tier, 36 of them in the quick tier, most not multiples of 8), M 2..6, ef 1..24, max_layers 1..5; vectors '
               'uniform / clustered / integer lattice (exact ties) / wide, with duplicates; queries stored / zero / x1e6 / '
               'one huge coordinate / reflected / in-distribution / NaN, inf, wrong dimension; k in {0,1,n,n+1,random}; '
               'every crash prefix of the last flush (nodes, ids, metadata, purge deletes) loaded, searched, re-indexed, '
               'searched; corrupted disk images; the same through the collection-level Hnsw wrapper over Storage over a '
               'snapshotting object store (every crash prefix of the real PUT / conditional-PUT / DELETE sequence of '
               'Hnsw::flush, bootstrap incl. purge_orphan_node_blobs, re-index, recovery flush, second bootstrap; a second '
               'writer with stale versions). The distribution actually drawn is in coverage.input_distribution. non-trivial = a distinct model-compared case with >=3 nodes (search: a '
               'non-empty result; load: a blob missing or unlisted; remove: a node removed)')
    ck.translate(only=['gen_hnsw'])
    ck.coq(['Hnsw/Props.v'], ['Hnsw'], model_targets=['Hnsw/Run.vo'])
    ck.trust('premise of the search theorems: the heap order leK (OrderedFloat<f32>) is total - proved for the integer-key '
             'instance of the correspondence run (C12_run_order_total); nothing is assumed about the raw f32 comparisons')
    ck.assume('a node is stored under its own id (insert; validate_loaded_node on load): the model has no separate node.id',
              'distances are taken from the crate\'s own DistanceMetric::compute_mixed on the stored bf16 vector, as integer keys',
              'single-threaded histories; the layer generator uses the thread RNG, so the same VERIF_SEED replays the same '
              'operations but not the same graph')
    binary = ck.cargo('h_hnsw')
    if binary:
        out = ck.work + '/c12.jsonl'
        if quick:
            args = ['--histories', '36', '--model-every', '5', '--recall-seeds', '1', '--crash-prefixes', '10',
                    '--wrapper-histories', '8']
        else:
            args = ['--histories', '252', '--model-every', '6', '--recall-seeds', '4', '--crash-prefixes', '120',
                    '--wrapper-histories', '64']
        rc, text = ck.run_harness(binary, ['c12', '--out', out] + args, timeout=6000)
        ok = ck.ob('harness c12 ran', rc == 0 and os.path.exists(out), 'correspondence', text[-2000:])
        if ok:
            rows = [json.loads(l) for l in open(out)]
            summary = [r for r in rows if r['kind'] == 'summary'][-1]
            ck.count(summary['evaluations'])
            ck.cov['input_distribution'] = summary['counts']
            # ---- direct oracle on the implementation
            for f in summary['failures']:
                ck.violation(f['class'], f['what'], True, {'failing_input': f['detail']})
            ck.ob('implementation: every result list has <=k distinct live ids, true distances, non-decreasing order; '
                  'every loaded crash prefix has nodes = ids = blobs listed and present, a live entry point (%d evaluations)'
                  % summary['evaluations'], summary['oracle_failures'] == 0, 'correspondence',
                  json.dumps(summary['failures'][:2])[:3000])
            # ---- recall: a measurement
            rec = [r for r in rows if r['kind'] == 'recall']
            ck.cov['recall_measurements'] = [
                {k: (round(r[k], 4) if isinstance(r[k], float) else r[k])
                 for k in ('scenario', 'stage', 'seed', 'avg', 'min', 'floor_avg', 'floor_min', 'at_or_above_floor')}
                for r in rec]
            ck.cov['recall_note'] = ('measurement, not a proof obligation; margins: avg 0.03 / min 0.20 on the documented '
                                     'floors, avg 0.05 after an interrupted flush + re-indexing')
            below = [r for r in rec if not r['at_or_above_floor']]
            ck.cov['recall_below_floor_within_margin'] = len([r for r in below if r['ok']])
            # ---- model = implementation
            from coqterm import to_coq
            for part, ctype, fn in (('search', 'scase', 'check_search'),
                                    ('load', 'lcase * lobs', 'check_load'),
                                    ('remove', 'rcase * robs', 'check_remove'),
                                    ('remove_relink', 'rcase * robs', 'check_remove_relink')):
                mrows = [r for r in rows if r['kind'] == 'model' and r['part'] == part]
                cases = [r['case'] for r in mrows]
                res = ck.eval_cases(IMPORTS, ctype, fn, cases, shard=12 if part == 'search' else 40, label='cases_' + part)
                bad = [i for i, r in enumerate(res) if r is not True]
                for r in mrows:
                    if r.get('nontrivial'):
                        ck.nontrivial((part, r['case']))
                if part == 'search':
                    ck.count(sum(r['queries'] for r in mrows))
                else:
                    ck.count(len(mrows))
                for r in mrows[:2]:
                    s = json.dumps(r['case'])
                    ck.sample({'part': part, 'case': s if len(s) < 1500 else s[:1500] + '...'})
                detail = ''
                if bad:
                    i = bad[0]
                    runner = {'search': 'run_scase', 'load': 'run_load (fst', 'remove': 'run_remove (fst',
                              'remove_relink': 'run_remove (fst'}[part]
                    term = to_coq(cases[i])
                    model = ck.eval_term(IMPORTS, (runner + ' ' + term + (')' if '(' in runner else '')))
                    detail = 'case %d: %s\nmodel: %s' % (i, json.dumps(cases[i])[:2500], model[-1500:])
                ck.ob('model = implementation on %d %s cases' % (len(cases), part), not bad and len(cases) > 0,
                      'correspondence', detail)
    ck.finish()
