"""C19 — unreadable elements are invisible; only the control plane changes authority
(DESIGN.md section 4 / C19)."""
import json
import os

META = {
    'category': 'proof',
    'text': ('Coq theorems over a transcription of governance/decision.rs (resolve with delegation chains and the depth '
             'bound, authorize: inactive -> suspended -> explicit deny -> owner / candidates / allow statements -> least '
             'restrictive -> approvals; candidate_matches, statement_matches, the contains relations): default deny, deny '
             'overrides, inactive and suspended denied, a revoked Grant decides exactly like an absent one, expiry, and by '
             'induction on the chain a delegated candidate permits nothing its root delegator\'s current delegable '
             'authority does not. Non-interference is proved for every evaluator expressed as an interaction tree over '
             'Context::load / candidates -> admit (counts, ordering, paging, by-id probes; field masks via redacted views). '
             'Tied to the source by generated facts (rank ladders, stage order of authorize, per-request resolve, the read '
             'choke point, the gate table, which GovernanceStore writers are reachable) and by three runs on the real '
             'engine: stored control-plane states x requests vs the model, byte comparison of gov_* collections and '
             'governance blocks around every command of a hostile battery, and p-on-S vs owner-on-restricted-clone.'),
    'design_ref': 'DESIGN.md section 4 / C19',
    'note': ('Trusted: Coq kernel + vm_compute; translator; harness and its canonicalisation (timestamps, sequence '
             'numbers, transaction ids and digests are blanked; ids are renamed to logical names). That every engine '
             'read goes through admit is a syntactic fact about kql/, meta/, projection/ (C19_gen_reads_go_through_admit) '
             'plus the engine-level oracle, not a proof of the evaluator. JSON blobs are modelled as their typed '
             'contents (well-formed). SEARCH is outside the theorem\'s premise (it ranks on an index built over every '
             'element before admit) and is judged by the oracle only.'),
    'technique': ('Coq proof (induction on delegation chains and on interaction trees) + translator-generated facts + '
                  'differential model/impl run + relational (two-store) oracle on the engine'),
}

IMPORTS = 'From Verif Require Import Gov.Model Gov.Run.'


def last_summary(path):
    rows = [json.loads(l) for l in open(path)]
    return rows, [r for r in rows if r['kind'] == 'summary'][-1]


def translate_gov(ck):
    """Regenerate gen/Gen_Gov.v only: the other generators' anchors belong to other properties and a
    lost anchor there must not break this check (and vice versa)."""
    import sys
    import vlib
    with vlib.Lock('coq'):
        rc, out, _ = vlib.sh([sys.executable, vlib.ROOT + '/tools/translate.py', '--repo', vlib.REPO, '--out', vlib.COQ + '/gen',
                              '--only', 'gen_gov'], timeout=300)
    lost = [l for l in out.splitlines() if l.startswith('LOST-ANCHOR')]
    ck.ob('translator regenerates gen/Gen_Gov.v from the repository working tree', rc == 0 and not lost, 'generated',
          out if (rc != 0 or lost) else '')
    ck.trust('translator /verif/tools/translate.py + tools/gen_gov.py (regex extraction of constants, tables and call sites from Rust source)')
    return rc == 0 and not lost


def run(ck):
    quick = ck.tier == 'quick'
    ck.rule = ('(a) generated control-plane histories (3-5 principals, 2 groups, 2-8 grants scoped by kind/type/'
               'classification/element with conditions and constraints, 0-6 delegations incl. re-delegation chains up to '
               'length 11 and cycles, policy allow/deny statements with obligations, then revoke/suspend/republish/'
               'regroup/owner changes; every third scenario gives delegators two delegable Grants of different shapes - a narrow one carrying the action, a broad one without it - and direct Delegations fitting or exceeding the narrow one), the stored state dumped after every step, 25 random requests plus requests aimed through every direct Delegation decided on it, each delegate decision compared with its delegator\'s decision for the same request; '
               '(c) ~55 KML/KQL/META commands (benign, refused, hostile; text and injected-AST path) x 2 principals each plus an EXPORT under a two-party approval (refused / allowed once, approvals spent / refused), '
               'snapshots compared after every command; (b) 6 authority shapes (ceiling, classification list, kind scope, '
               'policy allow statement, field mask, result cap) x generated populations, ~45 commands on 3 stores, plus delegate-vs-delegator id sets for two-Grant delegators; a third of the Concepts/Propositions are reclassified by the control plane after a marker coordinate (raised or lowered) and reads AS OF that coordinate reach them by type scan, by id, as tuple endpoints, through followed references (also from a visible tuple to a hidden endpoint), path steps, OPTIONAL, Assertion members and EXPORT. Non-trivial = a '
               'distinct state with >= 1 delegation or policy statement (a), a distinct (principal, command, outcome) (c), '
               'a distinct (shape, hidden count, command) with hidden elements present (b)')
    translate_gov(ck)
    ck.coq(['Gov/Props.v'], ['Gov', 'gen'], model_targets=['Gov/Run.vo'])
    ck.assume('JSON columns (scope, conditions, constraints, statements) hold well-formed typed values; the model reads their typed contents',
              'row ids are unique and query_all_ids returns them ascending (the order candidates are tried in)',
              'RFC 3339 strings of equal format compare bytewise as in the code; `now` is passed to the model as observed',
              'sequence numbers, timestamps, transaction ids, digests and cursors are not compared across stores (a hidden commit still consumes a Space sequence number)')
    binary = ck.cargo('h_gov')
    if not binary:
        ck.finish()

    # ------------------------------------------------------------------ (a) decision level
    out = ck.work + '/decide.jsonl'
    args = ['decide', '--out', out] + (['--scenarios', '16', '--steps', '5', '--requests', '25'] if quick
                                       else ['--scenarios', '40', '--steps', '6', '--requests', '30'])
    rc, text = ck.run_harness(binary, args, timeout=2400 if quick else 5400)
    if ck.ob('harness decide ran', rc == 0 and os.path.exists(out), 'correspondence', text[-2000:]):
        rows, summary = last_summary(out)
        model_rows = [r for r in rows if r['kind'] == 'model']
        ck.count(summary['evaluations'])
        ck.cov['decide_distribution'] = summary['distribution']
        for f in summary['failures']:
            ck.violation(f['what'], 'decision-level oracle on the implementation: ' + f['what'], True, {'failing_input': f})
        ck.ob('implementation: inactive/suspended denied, default deny, cited authority in force, direct delegation '
              'bounded by its delegator (%d decisions on %d stored states)' % (summary['evaluations'], summary['states']),
              summary['oracle_failures'] == 0, 'correspondence', json.dumps(summary['failures'][:2])[:3000])
        cases = [r['case'] for r in model_rows]
        res = ck.eval_cases(IMPORTS, 'state_case', 'check_state', cases, shard=8, timeout=2700, label='decide')
        bad = [i for i, r in enumerate(res) if r is not True]
        for r in model_rows:
            cp = r['case']['t'][0]
            if len(cp['a'][4]) + sum(len(p['a'][2]) for p in cp['a'][5]) >= 1:
                ck.nontrivial(('a', r['case']['t'][0]))
        for r in model_rows[:2]:
            ck.sample({'history': r['meta']['history'], 'first_request': r['case']['t'][1][0]})
        detail = ''
        if bad:
            from coqterm import to_coq
            i = bad[0]
            detail = 'state %s\nfirst disagreeing request (index, model says): %s' % (
                json.dumps(model_rows[i]['meta']), ck.eval_term(IMPORTS, 'first_bad ' + to_coq(model_rows[i]['case']))[-1500:])
        ck.ob('model = implementation on %d stored control-plane states x %d requests (decision, constraints, obligations, '
              'authority used, unrestricted, owner, groups, policy version)' % (len(cases), summary['evaluations']),
              not bad, 'correspondence', detail)

    # ------------------------------------------------------------------ (c) no command changes authority
    out = ck.work + '/escalate.jsonl'
    rc, text = ck.run_harness(binary, ['escalate', '--out', out, '--rounds', '2' if quick else '6'], timeout=2400)
    if ck.ob('harness escalate ran', rc == 0 and os.path.exists(out), 'monitor', text[-2000:]):
        _, summary = last_summary(out)
        ck.count(summary['evaluations'])
        ck.cov['escalate_distribution'] = summary['distribution']
        for k in summary['keys']:
            ck.nontrivial(('c', k))
        for f in summary['failures']:
            ck.violation(f['what'], 'a session command changed protected state: ' + f['what'], True, {'failing_input': f})
        ck.ob('every gov_* collection except the audit tail, the Space governance members, every existing governance block '
              'and 720 probe decisions are byte-identical around each of %d session commands' % summary['evaluations'],
              summary['oracle_failures'] == 0, 'monitor', json.dumps(summary['failures'][:2])[:3000])
        ck.sample({'escalate_outcomes': summary['distribution']})

    # ------------------------------------------------------------------ (b) engine-level non-interference
    out = ck.work + '/ni.jsonl'
    rc, text = ck.run_harness(binary, ['ni', '--out', out, '--scenarios', '6' if quick else '24'], timeout=2400)
    if ck.ob('harness ni ran', rc == 0 and os.path.exists(out), 'correspondence', text[-2000:]):
        _, summary = last_summary(out)
        ck.count(summary['evaluations'])
        ck.cov['ni_distribution'] = summary['distribution']
        ck.cov['ni_skipped_scenarios'] = summary['skipped']
        for k in summary['keys']:
            if '|0|' not in k:
                ck.nontrivial(('b', k))
        import vlib
        known = {k['class'] for k in vlib.known_findings() if k.get('property') == 'C19' and k.get('status') == 'open'}
        classes = {}
        for f in summary['failures']:
            # a historical read (AS OF) is admitted on the governance block the element carried
            # at that coordinate, not on the one it carries now: its own class
            if f['what'].startswith('answer-depends-on-hidden') and ' AS OF ' in f['command']:
                f['what'] = 'historical-read-judged-on-past-governance-block'
            classes.setdefault(f['what'], f)
            ck.violation(f['what'], 'engine-level non-interference: ' + f['what'] + ' on ' + f['command'], True, {'failing_input': f})
        ck.ob('results for p on S = p on S with hidden content changed = p on the restricted clone = owner on the '
              'restricted clone (%d answers, %d scenarios, %d skipped)' % (summary['evaluations'], summary['scenarios'], summary['skipped']),
              all(c in known for c in classes), 'correspondence',
              json.dumps([{'what': f['what'], 'command': f['command']} for f in summary['failures'][:6]]))
        ck.ob('ni generator: at least half of the scenarios were usable', summary['skipped'] * 2 <= summary['scenarios'],
              'correspondence', json.dumps(summary['distribution']))
    ck.finish()
