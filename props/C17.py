"""C17 — a KML statement is all-or-nothing and versions each element once (DESIGN.md section 4 / C17)."""
import json
import os

META = {
    'category': 'proof',
    'text': ('Coq-certified monitor over the real transaction engine: an abstract MemorySpace (elements with '
             'kind/version/state/row digest/identity claim, journal, version log, sequence counter, digest of every '
             'query and meta answer), an executable per-step checker check_step before response after, and the proof '
             'that if every step of a history passes then at every point: commit sequence numbers strictly increase, '
             'a refused or dry-run statement left the observable projection unchanged, version e = number of commits '
             'that changed e (one bump per statement), the version log holds versions 1..n of every element with the '
             'newest equal to the current row, one proposition per tuple, one concept per (type, key), no pending '
             'shell. Generated multi-clause KML statements run through the real parser and Executor; the full space '
             '(direct reads of the collections + KQL over every kind and state + DESCRIBE/LIST/HISTORY/CHANGES) is '
             'dumped before/after every statement and judged by the Coq checker and by an independent Rust oracle. '
             'A model of tx.rs / kml/mod.rs (shells, two-phase plan by pass, staging, commit checks, row-by-row write '
             'loop with the unique tuple_key index, abort) instantiated with translator-generated facts carries, for all '
             'statements: refused_noop / dry_run_noop (every refusal happens before the first write because ENSURE '
             'resolves tuples staged in the same block - the write loop never fails), commit_one_seq, and the '
             'refutations of refused_noop for the engine before the two fix commits.'),
    'design_ref': 'DESIGN.md section 4 / C17',
    'note': ('Trusted: Coq kernel + vm_compute; the harness dump and its 62-bit digests; translator facts. The '
             'monitor judges traces the generator produces (sampled); the theorems quantify over all histories of '
             'passing steps. Lock level: Nexus/Lock.v proves, for any number of sessions and any '
             'interleaving, that a read under the read lock sees no half-applied statement (Common/Gate.v models a one-shot '
             'retiring gate and does not fit a lock whose writers come and go); the guard placement is a generated fact; '
             'real concurrent readers are exercised on a 4-thread runtime.'),
    'technique': 'Coq proof (monitor soundness by induction over histories) + certified monitor on real traces + translator-generated facts',
}

IMPORTS = 'From Verif Require Import Nexus.Model Nexus.Run.'


def load(out):
    rows = [json.loads(l) for l in open(out)]
    summary = [r for r in rows if r['kind'] == 'summary'][-1]
    hist = [r for r in rows if r['kind'] == 'model']
    return summary, hist


def run(ck):
    quick = ck.tier == 'quick'
    ck.rule = ('histories of generated KML statements on a fresh Nexus with the cognitive-memory profile: multi-clause '
               'MUTATE blocks in shuffled order (forward references), UPSERT/ENSURE hits and misses, EXPECT guards that '
               'hold and fail, a failing clause injected first/middle/last (unknown type, duplicate handle, key claimed '
               'twice in one block, twin UPSERTs, confidence out of range, schema validation, missing field, guard on an '
               'existing element, bad timestamp), single mutations of existing elements (update/archive/tombstone/'
               'retract/supersede/correct/merge/transition/retention), ~15% dry runs; history 0 replays the two '
               'statements of the repaired findings; non-trivial = a refused or dry-run statement on a non-empty space, '
               'or a commit that changed an element that already existed')
    ck.translate()
    ck.coq(['Nexus/PropsC17.v', 'Nexus/PropsTx.v'], ['Nexus', 'gen'], model_targets=['Nexus/Run.vo'])
    ck.trust('harness dump: direct reads of the 10 collections via the public Store handles, 62-bit FNV/splitmix digests of '
             'canonical JSON rows and answers (collisions would hide a difference)')
    ck.assume('the Space row sequence counter is the only state a refused statement may move; the three META answers that '
              'print it (DESCRIBE PRIMER / EXECUTION CONTEXT, LIST SPACES) are compared without it',
              'readers concurrent with writers are run on a 4-thread runtime (3 reader tasks against one writer) and each answer must '
              'be the answer of a point between two statements; the schedules are the ones tokio produces - the statement for all '
              'interleavings is C17_readers_never_observe_a_partial_statement over the lock model')
    binary = ck.cargo('h_nexustx')
    if binary:
        out = ck.work + '/c17.jsonl'
        args = ['c17', '--out', out] + (['--histories', '16', '--steps', '18', '--concurrent', '40'] if quick else ['--histories', '160', '--steps', '30', '--concurrent', '400'])
        if ck.replay:
            rep = json.load(open(ck.replay))
            fi = rep.get('failing_input') or {}
            stmts = list(fi.get('history_so_far') or []) + [{'text': fi.get('statement'), 'params': fi.get('params'), 'dry': fi.get('dry_run', False)}]
            sp = ck.work + '/replay_statements.json'
            json.dump(stmts, open(sp, 'w'))
            args += ['--statements', sp]
        rc, text = ck.run_harness(binary, args, timeout=2400)
        ok = ck.ob('harness c17 ran', rc == 0 and os.path.exists(out), 'monitor', text[-2000:])
        if ok:
            summary, hist = load(out)
            ck.count(summary['statements'])
            ck.cov['input_distribution'] = {k: summary[k] for k in ('histories', 'statements', 'classes', 'error_codes', 'tags',
                                                                    'refused_or_dry_on_nonempty_space', 'max_elements',
                                                                    'reader_answers', 'reader_distinct_answers')}
            ck.count(summary['reader_answers'])
            # direct oracle on the implementation (independent of the Coq checker)
            for f in summary['failures']:
                ck.violation(f['class'], f['what'], True, {'failing_input': f})
            ck.ob('implementation oracle: refused/dry-run statements change nothing observable; commits take one fresh seq, '
                  'bump each changed element once, append one journal row and one version row per change '
                  '(%d statements, %d refused/dry on a non-empty space)' % (summary['statements'], summary['refused_or_dry_on_nonempty_space']),
                  summary['oracle_failures'] == 0, 'monitor', json.dumps([(f['class'], f['what']) for f in summary['failures'][:3]]))
            cases = [h['case'] for h in hist]
            res = ck.eval_cases(IMPORTS, 'hcase', 'check_hist', cases, shard=2, label='hist')
            bad = [i for i, r in enumerate(res) if r is not True]
            detail = ''
            if bad:
                from coqterm import to_coq
                i = bad[0]
                where = ck.eval_term(IMPORTS, 'bad_step ' + to_coq(cases[i]))
                detail = 'history %d: first rejected step %s\nstatements: %s' % (
                    hist[i]['history'], where[-200:], json.dumps(hist[i]['statements'])[:3000])
            ck.ob('Coq monitor check_history accepts every real history (%d histories, %d steps)' % (len(cases), summary['statements']),
                  not bad, 'monitor', detail)
            res2 = ck.eval_cases(IMPORTS, 'hcase', 'check_inv', cases, shard=2, label='inv')
            ck.ob('the invariant the theorem predicts holds, re-evaluated (inv_b) on every real state',
                  all(r is True for r in res2), 'monitor', 'histories failing: %s' % [hist[i]['history'] for i, r in enumerate(res2) if r is not True])
            for h in hist:
                for k, s in enumerate(h['statements']):
                    if s['class'] in ('refused', 'dry_run') and k > 0:
                        ck.nontrivial(('r', s['text'], h['history'], k))
                    elif s['class'] == 'committed' and any(' v1 ' not in c for c in s['changes']):
                        ck.nontrivial(('c', s['text'], h['history'], k))
            for h in hist[1:3]:
                for s in h['statements'][:2]:
                    ck.sample({'statement': s['text'], 'dry_run': s['dry'], 'response': s['class'], 'error': s['error'], 'changes': s['changes']})
    ck.finish()
