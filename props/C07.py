"""C07 — store wrappers behave as a conforming object store with real CAS (DESIGN.md section 4/C07)."""
import json
import os

META = {
    'category': 'proof',
    'text': ('Coq theorems over an executable model of MetaStore / EncryptedStore on a backend map (operation step lists '
             'assembled from the call order extracted from the source on every run): for every history of put (all modes) / '
             'multipart / copy / rename / delete calls the outcomes and every key\'s (value, token) are those of a reference '
             'in-memory store (refinement, partial: ranged / conditional reads and listings are covered by transcribed pure '
             'functions + the correspondence run); a conditional update succeeds iff its token is the one the key currently '
             'holds, create iff absent; tokens never repeat across commits and keys (fresh generation/nonce supply and a '
             'commit-id-separating hash as premises); the wrapper\'s read preconditions equal the reference '
             'GetOptions::check_preconditions with RFC 9110 precedence; the EncryptedStore range->chunk arithmetic yields '
             'the minimal chunk-aligned cover and exact trimming for all chunk sizes, sizes and ranges within u64. The real '
             'wrappers are run call by call against object_store::memory::InMemory.'),
    'design_ref': 'DESIGN.md section 4 / C07',
    'note': ('Trusted: Coq kernel + vm_compute; translator tools/gen_flush.py; harness h_store and its normalisation '
             '(error kinds, sizes, resolved ranges, bytes compared with the known payload, tokens through the per-store '
             'commit numbering, dates relative to each store\'s own last_modified); InMemory as the reference. Premises: '
             'generation/nonce supply never repeats; SHA3-256 separates different commit ids. Tolerated, counted '
             'divergences from InMemory (documented behaviour of the wrappers): delete of a missing key reports NotFound; '
             'update without e_tag reports Precondition; rename onto itself keeps the object; version-conditioned updates '
             'are refused (no versions); `head` reads return no body. Concurrent callers per key: all 2-caller reader/writer schedules at backend-call '
             'granularity are run on the implementation (judge: one commit per view, never an older commit after an acknowledged one, conditional reads '
             'answered as the reference answers before or after the writer); the placement of the precondition check in get_opts\' retry loop is a '
             'generated fact and the one-commit answer is proved on a model of the retry loop (Store/CondRead.v), its check-once variant refuted; '
             'not proved in Coq beyond the mutex abstraction of moka\'s per-key compute section; writer/writer races are not explored (partial).'),
    'technique': 'Coq proof (refinement to a reference store by induction over histories, injectivity argument, lia over div/mod) + translator-generated facts + differential run wrapper vs InMemory + model vs wrapper',
}

IMPORTS = 'From Verif Require Import Store.Model Store.Cas Store.GetOpts Store.Run.'
CASE_T = {'hist': 'bool * list (gen * N * hop) * list outcome * list (key * option (val * N))',
          'pre': 'gopts * Z * Z * pre_result',
          'span': 'Z * Z * Z * Z * Z * Z'}
FN = {'hist': 'check_hist', 'pre': 'check_pre', 'span': 'check_span'}


MAXROWS = True


def run(ck):
    quick = ck.tier == 'quick'
    ck.rule = ('call sequences of 12-40 calls over 6 nested keys (put Overwrite/Create/Update with current, stale, foreign, '
               'missing, bogus tokens and a version; multipart; get_opts with range kinds x if_match/if_none_match lists and * '
               'x date conditions x head; head; get_ranges incl. repeated and invalid ranges; list / list_with_offset / '
               'list_with_delimiter; delete; copy and rename in both target modes; cold restarts), payload sizes '
               '{0,1,cs-1,cs,cs+1,2cs,3cs+2,5} and two byte-identical payloads, x MetaStore and EncryptedStore with chunk size '
               '1/7/16/65536; plus two callers per key: every interleaving of the backend calls of one reader (list / list_with_delimiter / '
               'list_with_offset / head / get / get_ranges, and 17 conditional get_opts: if_match / if_none_match / if_unmodified_since / '
               'if_modified_since satisfied by the old commit only, the new only, both, neither, two combinations, with head and with a range) '
               'and one writer (put / copy / multipart / delete) of the same key through one instance with a cold metadata cache, with and '
               'without a failing cleanup of the replaced generation: all schedules with at most one preemption (two in the thorough tier), '
               'a bounded depth-first prefix of the full choice tree and random schedules; a conditional read must answer what InMemory '
               'answers to the same conditional read before or after the same writer (verdict, bytes, token, size, timestamp of one commit); '
               'non-trivial = a distinct sequence with >= 3 mutating calls')
    ck.translate()
    ck.coq(['Store/Props_C07.v'], ['Store', 'gen', 'Common'], model_targets=['Store/Run.vo'])
    ck.trust('premise (C07_tokens_never_repeat): the generation / nonce supply never repeats (gen_of injective)',
             'premise (C07_tokens_never_repeat): the e_tag hash separates different commit ids (SHA3-256 collision freedom, fixed-length generation prefix)',
             'premise (C07_wrapper_refines_ref_partial): the generation minted for a call is not the one its target key points at',
             'model: the per-key critical section of moka and_try_compute_with serialises the decision and the commit of one key')
    ck.assume('object_store::memory::InMemory is the reference semantics',
              'concurrency per key: reader/writer pairs only')
    binary = ck.cargo('h_store')
    if binary:
        out = ck.work + '/c07.jsonl'
        args = ['c07', '--out', out, '--seqs', '200' if quick else '6000']
        rc, text = ck.run_harness(binary, args, timeout=3000)
        ok = ck.ob('harness c07 ran', rc == 0 and os.path.exists(out), 'correspondence', text[-2000:])
        if ok:
            rows = [json.loads(l) for l in open(out)]
            summary = [r for r in rows if r['kind'] == 'summary'][-1]
            model_rows = [r for r in rows if r['kind'] == 'model']
            ck.count(summary['evaluations'])
            ck.cov['input_distribution'] = {k: summary[k] for k in (
                'sequences', 'calls', 'results', 'wrappers', 'tolerated_divergences', 'cas_ok', 'cas_rejected',
                'rewrites_after_retired_token', 'span_cases', 'pre_cases', 'two_caller_scenarios', 'two_caller_schedules', 'two_caller_exhaustive',
                'two_caller_context_bounded_schedules', 'two_caller_conditional_readers')}
            for f in summary['failures']:
                ck.violation(f['class'], f['what'], True, {'failing_input': f})
            import vlib
            known = {k['class'] for k in vlib.known_findings() if k.get('property') == ck.pid and k.get('status') == 'open'}
            unknown = {c: n for c, n in summary['failure_classes'].items() if c not in known}
            ck.cov['known_finding_instances'] = {c: n for c, n in summary['failure_classes'].items() if c in known}
            ck.ob('implementation: every call returns what InMemory returns (normalised), tokens never repeat, get/head/list agree '
                  'per commit (%d calls; instances of the recorded known findings excepted)' % summary['evaluations'],
                  not unknown, 'correspondence',
                  json.dumps([f for f in summary['failures'] if f['class'] not in known][:2])[:3000])
            ck.ob('the run exercised accepted and rejected conditional updates, rewrites after a retired token, chunk spans and preconditions',
                  summary['cas_ok'] > 0 and summary['cas_rejected'] > 0 and summary['rewrites_after_retired_token'] > 0
                  and summary['span_cases'] > 0 and summary['pre_cases'] > 0 and summary['two_caller_schedules'] > 0, 'correspondence',
                  json.dumps({k: summary[k] for k in ('cas_ok', 'cas_rejected', 'rewrites_after_retired_token', 'span_cases', 'pre_cases', 'two_caller_scenarios', 'two_caller_schedules', 'two_caller_exhaustive')}))
            for pt in summary['nontrivial']:
                ck.nontrivial(tuple(pt))
            for chk in ('hist', 'pre', 'span'):
                sel = [r for r in model_rows if r['check'] == chk]
                if chk != 'hist':
                    # distinct cases only
                    seen, uniq = set(), []
                    for r in sel:
                        key = json.dumps(r['case'], sort_keys=True)
                        if key not in seen:
                            seen.add(key)
                            uniq.append(r)
                    sel = uniq
                maxrows = 1500 if quick else 8000
                if len(sel) > maxrows:      # evenly spaced sample; the harness's direct oracle covers every case
                    step = len(sel) / float(maxrows)
                    sel = [sel[int(i * step)] for i in range(maxrows)]
                cases = [r['case'] for r in sel]
                res = ck.eval_cases(IMPORTS, CASE_T[chk], FN[chk], cases, label='c07_' + chk, shard=20 if chk == 'hist' else 150, timeout=1500)
                ck.count(len(cases))
                bad = [i for i, x in enumerate(res) if x is not True]
                detail = ''
                if bad:
                    i = bad[0]
                    detail = 'case: %s' % json.dumps(sel[i]['case'])[:3000]
                    if chk == 'hist':
                        from coqterm import to_coq
                        detail += '\nmodel: ' + ck.eval_term(IMPORTS, 'run_hist ' + to_coq(sel[i]['case']))[:2500]
                name = {'hist': 'model = wrapper on %d histories (outcome of every mutating call, final value and token of every key)',
                        'pre': 'model check_get_preconditions = wrapper on %d distinct (options, token, date) cases',
                        'span': 'model chunk span = ciphertext range the encrypted wrapper requested on %d distinct cases'}[chk] % len(cases)
                ck.ob(name, not bad and len(cases) > 0, 'correspondence', detail)
            for r in model_rows[:1]:
                ck.sample({'check': r['check'], 'case': r['case']})
            for r in [r for r in model_rows if r['check'] == 'span'][:2]:
                ck.sample({'check': 'span (cs,size,start,end,fetched_start,fetched_end)', 'case': r['case']})
    ck.finish()
