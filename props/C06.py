"""C06 — closed, deleted, poisoned or read-only handles never write; cancel = crash (DESIGN.md section 4/C06)."""
import json
import os
import re

META = {
    'category': 'proof',
    'text': ('Coq theorems over tables regenerated from collection.rs on every run (lifecycle constants; every '
             'compare_exchange/store on the lifecycle word with its guarding states; the ordered event list of every fn '
             'of impl Collection): no path of any length leads back to ACTIVE (stores widened by concurrent CAS edges), '
             'CLOSED/DELETED/POISONED stay retired, set_read_only(false) is guarded, every mutating API acquires the gate, '
             'then checks admission, then arms the cancel guard with no suspension point in between, and writes only '
             'inside the guard; for every event list of that shape and every drop point the handle ends untouched or '
             'POISONED; a generic shared/exclusive gate + admission flag transition system (any number of threads, any '
             'interleaving) instantiated with the generated relation shows that once close/begin_delete published their '
             'state and hold the exclusive gate no admitted mutation runs and none is admitted later. Coq-proved monitors '
             'judge the real implementation: every mutating API dropped after every poll count over a store whose calls '
             'are suspension points (state, mutation log = crash prefix, retained handle silent, reopen consistent and '
             'all-or-nothing), and lifecycle transitions interleaved with in-flight, gate-queued and late calls over a '
             'parking store (nothing written after the transition returned; empty prefix after delete_collection).'),
    'design_ref': 'DESIGN.md section 4 / C06, section 3 (Common/Gate)',
    'note': ('Trusted: Coq kernel + vm_compute; the translator (regex extraction of events/guards); the harness, its '
             'scheduling ObjectStore and canonicalisation. Modelled, not verified: the bodies behind each awaited call '
             '(the tables give order and write-reachability, not data flow); atomics\' memory orders and scheduler '
             'fairness are out of scope. set_read_only(true) is an admission gate, not a drain: calls admitted before it '
             'complete (counted in the evidence), calls not yet admitted write nothing.'),
    'technique': 'translator-generated tables + Coq proofs (finite tables by vm_compute, shapes/gate by induction) + certified monitors over real cancellation and interleaving runs',
}

IMPORTS = 'From Verif Require Import Life.Model Life.Run.'


def run(ck):
    quick = ck.tier == 'quick'
    ck.rule = ('part A: 13 mutating APIs (add, 2x update, remove, flush, save/remove_extension, 2x compact, reconcile, close, '
               'close_collection, delete_collection) + index create/remove inside an open callback, each dropped after every '
               'poll count k (two suspension points per backend call); part B: 6 transitions x 6..7 in-flight sets (1..3 calls) '
               'x {admitted, queued behind a flush holding the gate} x 2 late-call sets, all release schedules up to a cap then '
               'random ones; non-trivial = a distinct observation in which the call was dropped mid-flight or at least one '
               'call was pending when the transition began')
    ck.translate(only=['gen_lifecycle'])
    import vlib
    gate_src = vlib.strip_coq_comments(open(vlib.COQ + '/Common/Gate.v').read())
    ck.ob('no Admitted/Axiom/... in Common/Gate.v', not vlib.FORBIDDEN.search(gate_src), 'hygiene')
    ck.coq(['Life/Props.v'], ['Life', 'gen'], model_targets=['Life/Run.vo'])
    ck.trust('premises of the Gate theorems: the flag relation never turns a non-admitting value into an admitting one '
             '(discharged for the generated lifecycle relation by C06_no_way_back_to_active\'s table test); a closer publishes '
             'a non-admitting value before it waits for the exclusive side')
    ck.assume('interleavings are at backend-call granularity; the lock is modelled as derived from program counters (a fair or '
              'write-preferring lock only removes behaviours); memory orderings and scheduler fairness are not modelled',
              'set_read_only(true) does not drain: calls already admitted may complete; calls not yet admitted write nothing')
    binary = ck.cargo('h_collconc', timeout=9000)
    if not binary:
        return ck.finish()
    out = ck.work + '/c06.jsonl'
    args = ['c06', '--out', out] + (['--max-k', '90', '--schedules', '24'] if quick else ['--max-k', '400', '--schedules', '300'])
    rc, text = ck.run_harness(binary, args, timeout=2400)
    if not ck.ob('harness c06 ran', rc == 0 and os.path.exists(out), 'monitor', text[-2500:]):
        return ck.finish()
    rows = [json.loads(l) for l in open(out)]
    summary = [r for r in rows if r['kind'] == 'summary'][-1]
    cases = [r for r in rows if r['kind'] == 'model']
    ck.count(summary['evaluations'])
    ck.cov['input_distribution'] = summary['distribution']
    ck.cov['cancel_cases'] = summary['cancel_cases']
    ck.cov['transition_cases'] = summary['transition_cases']
    ck.cov['inflight_writes_after_nondraining_transition'] = summary['distribution'].get('inflight_writes_after_nondraining_transition', 0)
    for f in summary['failures']:
        if 'what' in f:
            ck.violation(f['class'], f['what'], True, {'failing_input': f.get('input'), 'class_detail': f['class']})
    ck.ob('implementation (direct oracle): dropped calls leave a crash prefix and an untouched or retired handle, retained '
          'handles write nothing, reopen is consistent and all-or-nothing, nothing is written after a transition returned '
          '(%d cancel cases, %d transition runs)' % (summary['cancel_cases'], summary['transition_cases']),
          summary['oracle_failures'] == 0, 'monitor', json.dumps(summary['failures'][:3])[:3000])
    for fn, ty in (('check_cancel', 'cancel_case'), ('check_silent', 'silent_case')):
        sub = [r for r in cases if r['fn'] == fn]
        res = ck.eval_cases(IMPORTS, ty, fn, [r['case'] for r in sub], label=fn)
        bad = [i for i, r in enumerate(res) if r is not True]
        for r in sub:
            ck.nontrivial((fn, json.dumps(r['input'], sort_keys=True)))
        for r in sub[:2]:
            ck.sample({'monitor': fn, 'input': r['input']})
        detail = ''
        if bad:
            detail = 'rejected: ' + json.dumps(sub[bad[0]]['input'])[:2500]
            if summary['oracle_failures'] == 0:
                ck.violation('monitor-rejects-trace', '%s rejects an observation the direct oracle accepted' % fn, True,
                             {'failing_input': sub[bad[0]]['input']})
        ck.ob('certified monitor %s accepts all %d observations' % (fn, len(sub)), not bad and len(sub) > 0, 'monitor', detail)
    # the model's prediction for the guarded APIs agrees with what was observed at the extremes:
    # dropped before the first poll completes anything -> untouched; some drop -> POISONED
    states = {k: v for k, v in summary['distribution'].items() if k.startswith('state_after_drop:')}
    ck.ob('both outcomes of the cancellation theorem were observed (untouched and POISONED)',
          states.get('state_after_drop:0', 0) > 0 and states.get('state_after_drop:5', 0) > 0, 'monitor', json.dumps(states))
    ck.finish()
