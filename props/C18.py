"""C18 — reading AS OF a past point returns what was current then (DESIGN.md section 4 / C18)."""
import json
import os

META = {
    'category': 'proof',
    'text': ('Coq theorems over a transcription of store/history.rs (element_at, elements_at, seq_of_transaction, '
             'seq_at_time, schema_version_at): over an append-only version log whose later rows carry later sequence '
             'numbers, a read AS OF any coordinate already reached resolves every element to the same version row '
             'whatever is committed, refused or previewed afterwards (by induction over checked histories), that row '
             'is the one that was current when the coordinate was the present, elements_at agrees with element_at '
             'pointwise, and the epistemic payload of an assertion/evidence record is the same in every version. The '
             'premises (append-only log, one row per change at the commit sequence, payload unchanged) are what the '
             'C17 monitor checks on every real step. Tie to the code: (a) the model functions are compared with '
             'Store::element_at/elements_at/seq_at_time/seq_of_transaction on real version logs at every coordinate; '
             '(b) a fixed battery of 27 KQL queries (element, tuple, path, structural, belief, slot, filter, NOT/'
             'OPTIONAL, aggregates) is recorded live at every committed point and replayed AS OF SEQ / TX / TIME '
             '(and at burnt sequence numbers) after every later statement; answers must be equal.'),
    'design_ref': 'DESIGN.md section 4 / C18',
    'note': ('The KQL evaluator is treated as a function of the candidate set and schema environment; that the '
             'historical path and the indexed path compute the same function is what the replay checks (sampled). '
             'PURGE (the one sanctioned way to remove the past) and a second schema activation are not in the '
             'generated histories. Trusted: Coq kernel + vm_compute; harness canonicalisation and digests; translator.'),
    'technique': 'Coq proof (induction over append-only histories, arg-max lemmas) + differential model/impl run + record/replay of real queries',
}

IMPORTS = 'From Verif Require Import Nexus.Model Nexus.Run.'
# classes of replay differences that are recorded as open findings (known_findings.json); anything else breaks the obligation
KNOWN_OPEN = {'live-by-id-ignores-state'}


def run(ck):
    quick = ck.tier == 'quick'
    ck.rule = ('histories of generated KML statements (create / update / archive / tombstone / retract / supersede / correct / '
               'merge / transition / retention; ~12% refused, ~5% dry runs, which burn sequence numbers); after every '
               'statement every earlier committed coordinate is replayed: 27 queries x {AS OF SEQ s, AS OF SEQ of the last '
               'burnt number before the next commit, AS OF TX, AS OF TIME (rotating in quick tier)} + DESCRIBE SCHEMA '
               'ENVIRONMENT AS OF; non-trivial = a replay at a coordinate whose recorded answer differs from the present one')
    ck.translate()
    ck.coq(['Nexus/PropsC18.v'], ['Nexus', 'gen'], model_targets=['Nexus/Run.vo'])
    ck.trust('harness: canonical JSON comparison of KIP responses (snapshot context removed), 62-bit row digests')
    ck.assume('histories contain no PURGE and one schema activation (the profile install); the theorems state the no-purge premise as '
              'append-only-ness of the log',
              'AS OF TIME is compared at commit instants; two commits in one millisecond resolve to the later one by design (seq_at_time)')
    binary = ck.cargo('h_nexustx')
    if binary:
        out = ck.work + '/c18.jsonl'
        args = ['c18', '--out', out] + (['--histories', '5', '--steps', '12'] if quick else ['--histories', '40', '--steps', '24', '--all-forms'])
        rc, text = ck.run_harness(binary, args, timeout=2400)
        ok = ck.ob('harness c18 ran', rc == 0 and os.path.exists(out), 'correspondence', text[-2000:])
        if ok:
            rows = [json.loads(l) for l in open(out)]
            summary = [r for r in rows if r['kind'] == 'summary'][-1]
            ck.count(summary['replays'])
            ck.cov['input_distribution'] = {k: summary[k] for k in ('histories', 'commits', 'purges', 'schema_activations', 'answers_rebaselined_by_purge', 'replays', 'by_family', 'by_form', 'later_change_ops')}
            ck.cov['battery'] = summary['battery']
            for f in summary['failures']:
                ck.violation(f['class'], f['what'], True, {'failing_input': f})
            ck.ob('replay: every query answers AS OF SEQ/TX/TIME exactly what it answered when that coordinate was current '
                  '(%d replays over %d commits, %d schema activations, %d purges)' % (summary['replays'], summary['commits'],
                                                                                     summary['schema_activations'], summary['purges']),
                  summary['oracle_failures'] == 0 or set(summary.get('failure_classes', {'?': 1})) <= KNOWN_OPEN, 'correspondence',
                  json.dumps([(f['class'], f['what'], f.get('query')) for f in summary['failures'][:3]]))
            for kind, ty, fn, what in (('element_at', 'acase', 'check_element_at', 'element_at'),
                                       ('elements_at', 'kcase', 'check_elements_at', 'elements_at'),
                                       ('coordinates', 'jcase', 'check_coordinates', 'seq_at_time / seq_of_transaction')):
                cs = [r for r in rows if r['kind'] == kind]
                res = ck.eval_cases(IMPORTS, ty, fn, [r['case'] for r in cs], shard=2, label=kind)
                n = sum(r.get('queries', 0) for r in cs)
                ck.count(n)
                ck.ob('model %s = Store::%s on the real logs (%d histories%s)' % (what, what, len(cs), ', %d reads' % n if n else ''),
                      all(r is True for r in res) and len(cs) > 0, 'correspondence',
                      'histories differing: %s' % [cs[i]['history'] for i, r in enumerate(res) if r is not True])
            for i in range(summary['distinct_nontrivial']):
                ck.nontrivial(('replay', i))
            for s in summary['samples'][:2]:
                ck.sample(s)
    ck.finish()
