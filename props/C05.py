"""C05 — concurrent writers serialize: nothing lost, nothing doubled, state converges (DESIGN.md section 4/C05)."""
import json
import os

META = {
    'category': 'proof',
    'text': ('Coq small-step model of concurrent add/update/remove/flush on one collection (operation gate and per-document '
             'locks derived from the program counters, atomic id allocator, every storage call a visible step, any number of '
             'threads, any schedule): doc-lock mutual exclusion, flush excludes mutations, distinct fresh ids, and the forward '
             'simulation to the sequential collection through the linearization points (add at the bitmap insert, update at '
             'the conditional put, remove at the delete, flush at the exclusive gate; hence no lost update, exactly one remove '
             'returns the document, return values = those of the linearization, the version-conditioned put never fails under '
             'the lock); get is in the model (no gate; linearized at its read). The read cache of storage.rs is a second '
             'small-step model whose reader and writer programs are regenerated from the source (order of lookup / load '
             'generation / fetch / re-check / insert, and of backend write / bump / evict in every write path): any number of '
             'readers and writers, any schedule, a read never returns a value older than the newest write acknowledged before '
             'it started (with a refuted witness for the order fetch-then-load). A third model covers the collection-metadata '
             'step of a flush (program regenerated from store_metadata: snapshot, PUT, watermark advanced to the snapshot\'s '
             'version) against extension writers that take no gate: after any interleaving followed by a flush that runs alone '
             'meta.cbor equals the in-memory metadata, what a flush persists is a prefix of the mutation log (refuted witness for '
             'recording the live version). Two Coq-proved checkers judge the real implementation: admits (is this trace of start / backend step / '
             'resume / return events a run of the model with the same return values and final documents?) over all '
             'interleavings of the backend steps of every ordered pair of operations and sampled 3- and 4-operation sets on a '
             'single-threaded executor through a parking store, and lin_ok (is this order a sequential execution with exactly '
             'the observed returns that respects real time and ends in the dumped documents?) additionally over cache-enabled '
             'and randomized multi-threaded runs; a harness-side sequential-order search and an index/document comparison are '
             'the direct oracles.'),
    'design_ref': 'DESIGN.md section 4 / C05',
    'note': ('Partial: extension calls are in the harness pool (set_extension with its start as a scheduling choice between the '
             'backend steps of a flush; save/remove_extension parked like the others) and in the flush-metadata model, but not '
             'in the concurrent document model: runs with them and index-only reads (query_ids) are judged by the harness '
             'oracles (serial order incl. extensions; state after close + reopen = state left in memory); the cache model is '
             'per path (capacity evictions and generation-stripe collisions only add misses); a get served by a still-valid '
             'entry while a write of the same document is applied but not yet delivered is legal (the write is unacknowledged) '
             'but not strictly linearizable: such runs are judged by the acknowledged-write rule and lin_ok over the mutations, '
             'not by admits (counted in the evidence); what a flush persists is recorded by the model '
             '(snapshot at its linearization point, mutations excluded while it holds the gate) but its content is not checked '
             'against ids.cbor (C01). A flush that finds nothing dirty returns without touching ids.cbor: the replay takes its '
             'persist step unobserved. The sequential specification lets add return any id never handed out '
             'before (the property asks for distinct ids; with a strict counter the implementation is not linearizable, see '
             'the report). 128 lock stripes are modelled as one lock per id. Interleavings are at backend-call granularity; '
             'atomics\' memory orders and scheduler fairness are out of scope. Trusted: Coq kernel + vm_compute, the harness '
             '(parking ObjectStore, manual polling, trace canonicalisation: payloads are not decoded, values are checked '
             'through return values and the final dump).'),
    'technique': 'Coq transition system + invariants by induction over schedules + forward simulation; certified trace and witness checkers over systematically explored and randomized real executions',
}

IMPORTS = 'From Verif Require Import Conc.Model Conc.Run.'


def run(ck):
    quick = ck.tier == 'quick'
    ck.rule = ('initial collection of 3 flushed documents (B-tree + BM25 indexes); pool of 10 operations (2 adds, 3 updates of 2 '
               'documents incl. same-document pairs, 2 removes, update/remove of a missing id, flush); every ordered pair with every '
               'release order of the backend calls parked before AND after each call (cap per pair, then random), the same-document '
               'pairs again with the read cache on; get / query_ids of present, removed and missing documents against every write '
               'with the cache ON and the backend GET parked before it is served and again before it is delivered, plus a reader '
               'started after the first call returned; read/write/write/read sets on one document; sampled triples and quadruples '
               '(reads and extension calls included, second wave after the first return); set/save/remove_extension against a '
               'flush made dirty by an add / update / extension write, set_extension started at every point between the flush\'s '
               'backend steps; every explorer run ends with close + reopen and the comparison of documents, indexes and '
               'extensions with what the calls left in memory; randomized 4-worker runs of 7 (quick) / 10 '
               '(thorough) operations in two waves; non-trivial = a distinct (operations, schedule) run with at least two '
               'operations on the same document or an add/flush pair')
    ck.translate(only=['gen_cache', 'gen_flushmeta'])
    ck.coq(['Conc/Props.v'], ['Conc', 'gen'], model_targets=['Conc/Run.vo'])
    ck.assume('interleavings at backend-call granularity; memory orderings and scheduler fairness are not modelled',
              'add may return any never-used id in the sequential specification',
              'the replay orders same-instant steps like the explorer does (operations started in index order; tokio gate FIFO)')
    binary = ck.cargo('h_collconc', timeout=9000)
    if not binary:
        return ck.finish()
    out = ck.work + '/c05.jsonl'
    args = ['c05', '--out', out] + (['--schedules', '60', '--triples', '40', '--quads', '10', '--mt', '120', '--model-every', '8'] if quick
                                    else ['--schedules', '600', '--triples', '200', '--quads', '100', '--mt', '600', '--model-every', '25'])
    rc, text = ck.run_harness(binary, args, timeout=2400)
    if not ck.ob('harness c05 ran', rc == 0 and os.path.exists(out), 'monitor', text[-2500:]):
        return ck.finish()
    rows = [json.loads(l) for l in open(out)]
    summary = [r for r in rows if r['kind'] == 'summary'][-1]
    cases = [r for r in rows if r['kind'] == 'model']
    ck.count(summary['evaluations'])
    ck.cov['input_distribution'] = summary['distribution']
    ck.cov['explorer_runs'] = summary['explorer_runs']
    ck.cov['model_cases'] = summary['model_cases']
    for f in summary['failures']:
        ck.violation(f['class'], f['what'], True, {'failing_input': f.get('input')})
    ck.ob('implementation (direct oracles): every run has a sequential order reproducing all return values and the final '
          'documents, indexes agree with documents, ids are distinct, at most one remove returns a document '
          '(%d runs)' % summary['evaluations'], summary['oracle_failures'] == 0, 'monitor', json.dumps(summary['failures'][:3])[:3000])
    for fn, ty in (('check_admits', 'admits_case'), ('check_lin', 'lin_case')):
        sub = [r for r in cases if r['fn'] == fn]
        res = ck.eval_cases(IMPORTS, ty, fn, [r['case'] for r in sub], label=fn, shard=64, timeout=1500)
        bad = [i for i, r in enumerate(res) if r is not True]
        for r in sub:
            ck.nontrivial((fn, json.dumps(r['input'].get('ops')), json.dumps(r['input'].get('schedule', r['input'].get('returns')))))
        for r in sub[:2]:
            ck.sample({'checker': fn, 'input': r['input']})
        detail = ''
        if bad:
            detail = 'rejected: ' + json.dumps(sub[bad[0]]['input'])[:3000]
            if summary['oracle_failures'] == 0:
                ck.violation('checker-rejects-trace', '%s rejects a run the direct oracles accepted' % fn, True,
                             {'failing_input': sub[bad[0]]['input']})
        ck.ob('certified checker %s accepts all %d runs' % (fn, len(sub)), not bad and len(sub) > 0, 'monitor', detail)
    ck.finish()
