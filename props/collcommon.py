"""Shared by props/C01.py and props/C02.py: one explorer (harness/h_collcrash), two monitors."""
import json
import os

IMPORTS = 'From Verif Require Import Coll.Tags Coll.Monitor Coll.Run.'

# failure classes of the harness's direct oracle, by property
C01_CLASSES = {'reopen-failed', 'acked-lost', 'flushed-lost', 'inflight-mixed', 'resurrected', 'id-reused', 'not-writable',
               'unknown-outcome-durability', 'panic', 'unexpected-error'}
C02_CLASSES = {'index-inconsistent-live', 'index-inconsistent-after-recovery', 'unknown-outcome-index-inconsistent',
               'panic', 'unexpected-error'}

COQ_FILES = ['Coll/Props.v']
COQ_DIRS = ['Coll', 'gen']


def coq_part(ck):
    ck.translate()
    ck.coq(COQ_FILES, COQ_DIRS, model_targets=['Coll/Run.vo'])
    ck.trust('each index commits its own snapshot atomically (one commit point per index: C10/C11, Common/CommitPoint.v); '
             'the collection-level model treats an index flush as one step',
             'FaultStore (crash after the k-th backend mutation, mutation log) and object_store::memory::InMemory as the reference backend',
             'the tokenizer (text is handed to the monitor tokenised; every vocabulary word is checked to be a fixed point of Collection::tokenize)')
    ck.assume('sequential workloads (one caller); concurrency is C05/C06',
              'below the backend-call granularity (a torn single put, memory ordering, tokio scheduling) nothing is claimed',
              'index creation/removal happens in the open callback (the only place the API allows it)')


def run_explorer(ck, binary, mode, args, label):
    out = '%s/%s_%s.jsonl' % (ck.work, mode, label)
    if os.path.exists(out):
        os.remove(out)
    rc, text = ck.run_harness(binary, [mode, '--out', out] + args, timeout=3000)
    ok = ck.ob('harness h_collcrash %s (%s) ran' % (mode, label), rc == 0 and os.path.exists(out), 'monitor', text[-2000:])
    if not ok:
        return None, [], [], []
    c01, c02, logs, summary = [], [], [], None
    for line in open(out):
        r = json.loads(line)
        k = r['kind']
        if k == 'c01':
            c01.append(r['case'])
        elif k == 'c02':
            c02.append(r['case'])
        elif k == 'log':
            logs.append(r['case'])
        elif k == 'summary':
            summary = r
    return summary, c01, c02, logs


def report_failures(ck, summary, classes, label):
    """Direct oracle of the property on the implementation: every failure of one of `classes` is a failing input."""
    mine = [f for f in summary['failures'] if f['class'] in classes]
    for f in mine:
        ck.violation(f['class'], f['what'], True, {'failing_input': f, 'explorer': label})
    return mine


def judge(ck, fn, case_type, cases, what, label):
    if not cases:
        return True
    res = ck.eval_cases(IMPORTS, case_type, fn, cases, label=label)
    bad = [i for i, r in enumerate(res) if r is not True]
    detail = ''
    if bad:
        detail = 'first rejected case: ' + json.dumps(cases[bad[0]])[:3000]
    return ck.ob('Coq monitor %s accepts %d real %s' % (fn, len(cases), what), not bad, 'monitor', detail)


def distribution(summary):
    keys = ('workloads', 'backends', 'evaluations', 'quiescent_points', 'crash_points', 'crashes_fired', 'nested_points',
            'nested2_points', 'unknown_outcome_points', 'recoveries', 'creation_recreate', 'post_recovery_writes', 'acked_ops',
            'rejected_ops', 'inflight_kinds', 'max_mutations_per_workload', 'multi_bucket_points', 'log_shapes')
    return {k: summary.get(k) for k in keys}
