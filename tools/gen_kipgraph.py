"""Gen_KipGraph: the KIP parser's call graph and budget constants (C15).

Extracted on every run from rs/anda_kip/src/parser.rs and parser/{common,kql,kml,meta,json}.rs:

  MAX_KIP_INPUT_LEN, MAX_KIP_NESTING_DEPTH     the two limits
  budget_openers / budget_pairs / *_strict     the bracket alphabet and the two comparisons of
                                               validate_parser_budget
  kg_names                                     the functions of the parser (index = node id): every fn that takes
                                               the input text / returns a nom parser, or reaches one
  kg_carrying                                  the functions with an explicit `depth: usize` parameter
  kg_edges                                     one entry per CALL POSITION f -> g (identical entries merged):
      e_br    the call sits behind a consumed opening bracket in f: inside braced(..)/parenthesized(..), in the
              2nd argument of delimited(<char('(' | '[' | '{')>, .., ..), or after a sequential
              `let .. = ..char('(' | '[' | '{').. .parse(..)?;` statement and before its closer
      e_da    what the call passes for g's `depth`: DNA (g has none) | DKeep (`depth`) | DInc (`depth + 1`) |
              DReset (`0`)
      e_chk   for DInc: f tests `depth >= MAX_KIP_NESTING_DEPTH` -> fail before the call, or g does so first
  kg_walkers                                   recursive functions over the finished tree (not part of the graph)

The Rust is tokenised (comments dropped, string / char literals become single tokens), `#[cfg(test)]` modules
are cut, names are resolved per module through its `use` lists, and an identifier counts as a call position
only when it is not a method name, not a binding and not shadowed by a binding (let / if let / let-else / for /
match arm / closure and fn parameters are tracked with their scopes).  Anything the extractor cannot classify
is a lost anchor, never a silent guess.
"""
import json
import re
import sys
from trlib import *  # noqa: F401,F403

G = 'Gen_KipGraph'
DIR = 'rs/anda_kip/src/'
FILES = [('parser', 'parser.rs'), ('common', 'parser/common.rs'), ('kql', 'parser/kql.rs'),
         ('kml', 'parser/kml.rs'), ('meta', 'parser/meta.rs'), ('json', 'parser/json.rs')]
MODS = [m for m, _ in FILES]
OPEN = {'(': ')', '[': ']', '{': '}'}
CLOSE = {v: k for k, v in OPEN.items()}
KEYWORDS = {'let', 'if', 'else', 'match', 'for', 'in', 'while', 'loop', 'return', 'move', 'fn', 'pub', 'use', 'mod',
            'impl', 'struct', 'enum', 'type', 'const', 'static', 'where', 'as', 'ref', 'mut', 'self', 'Self', 'super',
            'crate', 'true', 'false', 'break', 'continue', 'dyn', 'unsafe', 'trait'}


# --------------------------------------------------------------------------------------------- tokens
class Tok:
    __slots__ = ('k', 's')

    def __init__(self, k, s):
        self.k, self.s = k, s   # k: id | p (punct) | str | chr | life | num

    def __repr__(self):
        return '%s:%s' % (self.k, self.s)


def tokenize(src):
    toks, i, n = [], 0, len(src)
    while i < n:
        c = src[i]
        if c.isspace():
            i += 1
        elif src.startswith('//', i):
            j = src.find('\n', i)
            i = n if j < 0 else j
        elif src.startswith('/*', i):
            j = src.find('*/', i + 2)
            i = n if j < 0 else j + 2
        elif c == 'r' and re.match(r'r#*"', src[i:i + 8]):
            m = re.match(r'r(#*)"', src[i:])
            end = '"' + m.group(1)
            j = src.find(end, i + len(m.group(0)))
            toks.append(Tok('str', '"' + src[i + len(m.group(0)):j] + '"'))
            i = j + len(end)
        elif c == 'r' and src.startswith('r#', i) and re.match(r'[A-Za-z_]', src[i + 2:i + 3] or ' '):
            m = re.match(r'r#([A-Za-z_][A-Za-z0-9_]*)', src[i:])
            toks.append(Tok('id', m.group(1)))
            i += len(m.group(0))
        elif c == '"':
            j = i + 1
            while j < n and src[j] != '"':
                j += 2 if src[j] == '\\' else 1
            toks.append(Tok('str', '"' + src[i + 1:j] + '"'))
            i = j + 1
        elif c == "'":
            m = re.match(r"'(\\u\{[0-9a-fA-F]+\}|\\x[0-9a-fA-F]{2}|\\.|[^\\'])'", src[i:])
            if m:
                toks.append(Tok('chr', "'" + m.group(1) + "'"))
                i += len(m.group(0))
            else:
                m = re.match(r"'[A-Za-z_][A-Za-z0-9_]*", src[i:])
                toks.append(Tok('life', m.group(0) if m else "'"))
                i += len(m.group(0)) if m else 1
        elif c.isalpha() or c == '_':
            m = re.match(r'[A-Za-z_][A-Za-z0-9_]*', src[i:])
            toks.append(Tok('id', m.group(0)))
            i += len(m.group(0))
        elif c.isdigit():
            m = re.match(r'[0-9][0-9A-Za-z_]*(\.[0-9]+)?', src[i:])
            toks.append(Tok('num', m.group(0)))
            i += len(m.group(0))
        else:
            for op in ('::', '->', '=>', '&&', '||', '==', '!=', '<=', '>=', '..'):
                if src.startswith(op, i):
                    toks.append(Tok('p', op))
                    i += len(op)
                    break
            else:
                toks.append(Tok('p', c))
                i += 1
    return toks


def match_close(toks, i):
    """index of the bracket closing toks[i] (which is an opening bracket token)."""
    depth = 0
    for j in range(i, len(toks)):
        t = toks[j]
        if t.k == 'p':
            if t.s in OPEN:
                depth += 1
            elif t.s in CLOSE:
                depth -= 1
                if depth == 0:
                    return j
    return len(toks) - 1


def cut_tests(toks):
    out, i = [], 0
    while i < len(toks):
        if (toks[i].s == '#' and i + 6 < len(toks) and [t.s for t in toks[i:i + 7]] == ['#', '[', 'cfg', '(', 'test', ')', ']']):
            j = i + 7
            # the annotated item: `mod x { .. }` or `fn ..{ .. }`; drop through its closing brace
            while j < len(toks) and toks[j].s != '{' and toks[j].s != ';':
                j += 1
            if j < len(toks) and toks[j].s == '{':
                j = match_close(toks, j)
            i = j + 1
            continue
        out.append(toks[i])
        i += 1
    return out


# --------------------------------------------------------------------------------------------- items
class Fn:
    def __init__(self, mod, name, params, ret, body, key=None):
        self.mod, self.name, self.params, self.ret, self.body = mod, name, params, ret, body
        self.key = key or (mod + '::' + name)
        self.param_names = []
        self.is_parser = False


def split_top(toks, sep=','):
    parts, cur, depth = [], [], 0
    for t in toks:
        if t.k == 'p' and t.s in OPEN:
            depth += 1
        elif t.k == 'p' and t.s in CLOSE:
            depth -= 1
        elif t.k == 'p' and t.s == '<' and cur and cur[-1].k == 'id' and False:
            pass
        if t.k == 'p' and t.s == sep and depth == 0:
            parts.append(cur)
            cur = []
        else:
            cur.append(t)
    if cur:
        parts.append(cur)
    return parts


def parse_items(mod, toks):
    """fns of a module (top level and inside impl blocks), use-imports and re-exports."""
    fns, imports = [], {}

    def scan(lo, hi, impl_for=None):
        i = lo
        while i < hi:
            t = toks[i]
            if t.k == 'id' and t.s == 'use':
                j = i
                while toks[j].s != ';':
                    j += 1
                parse_use(toks[i + 1:j], imports)
                i = j + 1
            elif t.k == 'id' and t.s == 'impl':
                j = i
                while toks[j].s != '{':
                    j += 1
                head = toks[i + 1:j]
                target = None
                for k, h in enumerate(head):
                    if h.s == 'for' and k + 1 < len(head):
                        target = head[k + 1].s
                is_parser_impl = any(h.s == 'Parser' for h in head) and target
                end = match_close(toks, j)
                scan(j + 1, end, impl_for=(target if is_parser_impl else '@' + (target or head[-1].s)))
                i = end + 1
            elif t.k == 'id' and t.s == 'fn' and i + 1 < hi and toks[i + 1].k == 'id':
                name = toks[i + 1].s
                j = i + 2
                if toks[j].s == '<':          # generics: skip to the matching '>'
                    d = 0
                    while True:
                        if toks[j].s == '<':
                            d += 1
                        elif toks[j].s == '>':
                            d -= 1
                            if d == 0:
                                break
                        j += 1
                    j += 1
                assert toks[j].s == '(', (mod, name, toks[j])
                pe = match_close(toks, j)
                params = toks[j + 1:pe]
                k = pe + 1
                while toks[k].s not in ('{', ';'):
                    if toks[k].s in OPEN:
                        k = match_close(toks, k)
                    k += 1
                ret = toks[pe + 1:k]
                if toks[k].s == ';':
                    i = k + 1
                    continue
                be = match_close(toks, k)
                if impl_for and not impl_for.startswith('@'):
                    f = Fn(mod, impl_for, params, ret, toks[k + 1:be], key=mod + '::' + impl_for)
                    f.is_parser = True
                elif impl_for:
                    f = Fn(mod, name, params, ret, toks[k + 1:be], key=mod + '::' + impl_for[1:] + '.' + name)
                    f.method = True
                else:
                    f = Fn(mod, name, params, ret, toks[k + 1:be])
                fns.append(f)
                i = be + 1
            elif t.k == 'p' and t.s in OPEN:
                i = match_close(toks, i) + 1
            else:
                i += 1
    scan(0, len(toks))
    return fns, imports


def parse_use(toks, imports):
    """`use a::b::{c, d as e}` -> imports[local] = (module, name) when the path names one of our modules."""
    s = ''.join(t.s if t.s != 'as' else ' as ' for t in toks if t.s != 'pub')
    m = re.match(r'(.*?)::\{(.*)\}$', s)
    if m:
        prefix, names = m.group(1), [x for x in m.group(2).split(',') if x]
    else:
        prefix, _, last = s.rpartition('::')
        names = [last]
    segs = prefix.split('::')
    mod = segs[-1] if segs and segs[-1] in MODS else None
    if prefix in ('super', 'crate::parser') or (segs and segs[0] in ('nom', 'nom_language', 'std', 'serde', 'serde_json')):
        mod = None
    if mod is None:
        return
    for nm in names:
        nm = nm.strip()
        if ' as ' in nm:
            orig, local = [x.strip() for x in nm.split(' as ')]
        else:
            orig = local = nm
        if '::' in orig or orig == '*':
            continue
        imports[local] = (mod, orig)


# --------------------------------------------------------------------------------------------- scopes
def pattern_bindings(toks):
    """lower-case identifiers bound by a pattern."""
    out = []
    for i, t in enumerate(toks):
        if t.k != 'id' or t.s in KEYWORDS or not (t.s[0].islower() or t.s[0] == '_'):
            continue
        nxt = toks[i + 1].s if i + 1 < len(toks) else ''
        prv = toks[i - 1].s if i > 0 else ''
        if nxt in ('(', '::', '{', '!') or prv == '::':
            continue
        if nxt == ':' and not (i + 2 < len(toks) and toks[i + 2].s == ':'):
            continue                      # `field: pat` — the field name binds nothing
        out.append(t.s)
    return out


def block_end_of(toks, i):
    """index of the `}` closing the innermost block containing position i (len(toks) for the fn body)."""
    depth = 0
    for j in range(i, len(toks)):
        t = toks[j]
        if t.k == 'p' and t.s in OPEN:
            depth += 1
        elif t.k == 'p' and t.s in CLOSE:
            if depth == 0:
                return j
            depth -= 1
    return len(toks)


def stmt_end(toks, i):
    """index of the `;` ending the statement starting at i (same nesting), or the enclosing block end."""
    depth = 0
    for j in range(i, len(toks)):
        t = toks[j]
        if t.k == 'p' and t.s in OPEN:
            depth += 1
        elif t.k == 'p' and t.s in CLOSE:
            if depth == 0:
                return j
            depth -= 1
        elif t.k == 'p' and t.s == ';' and depth == 0:
            return j
    return len(toks)


def find_top(toks, i, targets, hi=None):
    """first index >= i of a token in `targets` at nesting depth 0 (relative to i)."""
    depth = 0
    hi = len(toks) if hi is None else hi
    for j in range(i, hi):
        t = toks[j]
        if t.k == 'p' and depth == 0 and t.s in targets:
            return j
        if t.k == 'id' and depth == 0 and t.s in targets:
            return j
        if t.k == 'p' and t.s in OPEN:
            depth += 1
        elif t.k == 'p' and t.s in CLOSE:
            if depth == 0:
                return -1
            depth -= 1
    return -1


def binding_scopes(fn):
    """list of (name, lo, hi): token ranges of fn.body in which `name` is a local variable;
    and the set of token indices that are themselves binding occurrences."""
    toks = fn.body
    scopes, binders = [], set()
    for nm in fn.param_names:
        scopes.append((nm, 0, len(toks)))
    i = 0
    n = len(toks)
    while i < n:
        t = toks[i]
        if t.k == 'id' and t.s == 'let':
            eq = find_top(toks, i + 1, {'='})
            if eq < 0:
                i += 1
                continue
            pat = toks[i + 1:eq]
            colon = find_top(toks, i + 1, {':'}, eq)
            if colon >= 0 and not (toks[colon + 1].s == ':' if colon + 1 < n else False):
                pat = toks[i + 1:colon]
            for k in range(i + 1, i + 1 + len(pat)):
                binders.add(k)
            names = pattern_bindings(pat)
            prev = toks[i - 1].s if i > 0 else ''
            if prev in ('if', 'while') or (prev == '&&'):
                # `if let P = E {block}` (also in a let-chain): scope = rest of the condition + the block
                brace = find_top(toks, eq + 1, {'{'})
                hi = match_close(toks, brace) if brace >= 0 else n
                lo = eq + 1
                # the scrutinee itself is evaluated before the binding: start after the first `&&` or at the block
                amp = find_top(toks, eq + 1, {'&&'}, brace if brace >= 0 else n)
                lo = amp if amp >= 0 else (brace if brace >= 0 else n)
                for nm in names:
                    scopes.append((nm, lo, hi))
            else:
                se = stmt_end(toks, i)
                be = block_end_of(toks, i)
                for nm in names:
                    scopes.append((nm, se, be))
            i += 1
        elif t.k == 'id' and t.s == 'for':
            kin = find_top(toks, i + 1, {'in'})
            if kin > 0:
                pat = toks[i + 1:kin]
                for k in range(i + 1, kin):
                    binders.add(k)
                brace = find_top(toks, kin + 1, {'{'})
                hi = match_close(toks, brace) if brace >= 0 else n
                for nm in pattern_bindings(pat):
                    scopes.append((nm, brace, hi))
            i += 1
        elif t.k == 'id' and t.s == 'match':
            brace = find_top(toks, i + 1, {'{'})
            if brace < 0:
                i += 1
                continue
            end = match_close(toks, brace)
            j = brace + 1
            while j < end:
                arrow = find_top(toks, j, {'=>'}, end)
                if arrow < 0:
                    break
                guard = find_top(toks, j, {'if'}, arrow)
                pend = guard if guard >= 0 else arrow
                for k in range(j, pend):
                    binders.add(k)
                names = pattern_bindings(toks[j:pend])
                if toks[arrow + 1].s == '{':
                    bend = match_close(toks, arrow + 1)
                    nxt = bend + 1
                    if nxt < end and toks[nxt].s == ',':
                        nxt += 1
                else:
                    comma = find_top(toks, arrow + 1, {','}, end)
                    bend = comma if comma >= 0 else end
                    nxt = bend + 1
                for nm in names:
                    scopes.append((nm, pend, bend))
                j = nxt
            i += 1
        elif t.k == 'p' and t.s in ('|', '||'):
            prev = toks[i - 1] if i > 0 else Tok('p', '(')
            opener = (prev.k == 'p' and prev.s in ('(', ',', '=', '{', ';', '=>', '[')) or (prev.k == 'id' and prev.s in ('move', 'return'))
            if not opener:
                i += 1
                continue
            if t.s == '||':
                i += 1
                continue
            j = i + 1
            depth = 0
            while j < n and not (toks[j].s == '|' and depth == 0):
                if toks[j].s in OPEN:
                    depth += 1
                elif toks[j].s in CLOSE:
                    depth -= 1
                j += 1
            params = toks[i + 1:j]
            # strip type ascriptions `x: T`
            names = []
            for part in split_top(params):
                c = find_top(part, 0, {':'})
                names += pattern_bindings(part[:c] if c >= 0 else part)
            for k in range(i + 1, j):
                binders.add(k)
            body_lo = j + 1
            if body_lo < n and toks[body_lo].s == '->':           # `|a| -> T { .. }`
                body_lo = find_top(toks, body_lo, {'{'})
            if body_lo < n and toks[body_lo].s == '{':
                hi = match_close(toks, body_lo)
            else:
                c = find_top(toks, body_lo, {',', ';'})
                hi = c if c >= 0 else block_end_of(toks, body_lo)
            for nm in names:
                scopes.append((nm, body_lo, hi))
            i = j + 1
        else:
            i += 1
    return scopes, binders


# --------------------------------------------------------------------------------------------- analysis
def is_open_char_expr(toks):
    """tokens of an expression like `ws(char('('))`, `char('[')`, `cut(ws(char('{')))`: returns the bracket or None."""
    ts = [t for t in toks]
    # strip wrappers
    while len(ts) >= 4 and ts[0].k == 'id' and ts[0].s in ('ws', 'cut', 'context') and ts[1].s == '(' and ts[-1].s == ')':
        ts = ts[2:-1]
        if ts and ts[0].k == 'str':       # context("..", inner)
            ts = ts[2:]
    if len(ts) >= 4 and ts[0].s == 'char' and ts[-1].s == ')' and ts[-2].k == 'chr':
        # allow `char::<..>('(')`
        if all(t.k != 'chr' for t in ts[:-2]):
            return ts[-2].s[1:-1]
    return None


def analyse_fn(fn, resolve, carrying):
    """call positions of fn: list of dict(callee, br, da, chk, idx)."""
    toks = fn.body
    scopes, binders = binding_scopes(fn)
    n = len(toks)

    # sequential bracket regions: `let .. = ..char('(').. .parse(..)?;` .. `..char(')').. ?;`
    regions = []          # (lo, hi)
    i = 0
    stmts = []            # (start, end, kind, bracket)
    while i < n:
        if toks[i].k == 'id' and toks[i].s == 'let' and not (i > 0 and toks[i - 1].s in ('if', 'while', '&&')):
            se = stmt_end(toks, i)
            seg = toks[i:se]
            if se < n and toks[se].s == ';' and len(seg) > 3 and seg[-1].s == '?':
                chrs = [t.s[1:-1] for t in seg if t.k == 'chr']
                ids = {t.s for t in seg if t.k == 'id'}
                conditional = ids & {'opt', 'peek', 'alt', 'not', 'many0', 'separated_list0', 'separated_list1', 'if', 'match'}
                eq = find_top(seg, 1, {'='})
                rhs = seg[eq + 1:] if eq >= 0 else []
                # rhs must be `<open-char-expr>.parse(x)?`
                dot = find_top(rhs, 0, {'.'})
                head = rhs[:dot] if dot >= 0 else []
                b = is_open_char_expr(head) if head else None
                if b is not None and not conditional and len(chrs) == 1:
                    stmts.append((i, se, 'open' if b in OPEN else ('close' if b in CLOSE else 'other'), b))
            i = se if se > i else i + 1
        else:
            i += 1
    for (s, e, kind, b) in stmts:
        if kind != 'open':
            continue
        be = block_end_of(toks, s)
        closers = [cs for (cs, ce, k2, b2) in stmts if k2 == 'close' and b2 == OPEN[b] and cs > e and cs < be
                   and block_end_of(toks, cs) == be]
        hi = closers[-1] if closers else be
        regions.append((e, hi))

    # enclosing call chain for every token index
    calls = []
    stack = []            # (callee_name or None, open_index, [comma positions])
    out = []
    depth_checks = []     # token indices of `depth >= MAX_KIP_NESTING_DEPTH`
    for i in range(n - 2):
        if toks[i].s == 'depth' and toks[i + 1].s == '>=' and toks[i + 2].s == 'MAX_KIP_NESTING_DEPTH':
            # must guard a `return fail(`
            blk = find_top(toks, i, {'{'})
            if blk >= 0 and toks[blk + 1].s == 'return' and toks[blk + 2].s == 'fail':
                depth_checks.append(i)
    for i, t in enumerate(toks):
        if t.k == 'p' and t.s in OPEN:
            callee = None
            if t.s == '(' and i > 0:
                p = i - 1
                if toks[p].s == '>':        # turbofish `name::<..>(`
                    d = 0
                    while p >= 0:
                        if toks[p].s == '>':
                            d += 1
                        elif toks[p].s == '<':
                            d -= 1
                            if d == 0:
                                break
                        p -= 1
                    p -= 2 if p >= 2 and toks[p - 1].s == '::' else 1
                if p >= 0 and toks[p].k == 'id' and toks[p].s not in KEYWORDS:
                    callee = toks[p].s
            stack.append([callee, i, 0])
            continue
        if t.k == 'p' and t.s in CLOSE:
            if stack:
                stack.pop()
            continue
        if t.k == 'p' and t.s == ',' and stack:
            stack[-1][2] += 1
            continue
        if t.k != 'id' or t.s in KEYWORDS or i in binders:
            continue
        prev = toks[i - 1].s if i > 0 else ''
        nxt = toks[i + 1].s if i + 1 < n else ''
        if prev == '.':
            continue                      # method call / field access
        if nxt == ':' and not (i + 2 < n and toks[i + 2].s == ':'):
            continue                      # `field: value` or type ascription
        if nxt == '!':
            continue                      # macro
        if nxt == '::':
            continue                      # path prefix; the last segment is handled when reached
        # qualified path?
        target = None
        if prev == '::':
            q = toks[i - 2].s if i >= 2 else ''
            if q in MODS:
                target = resolve(q, t.s, qualified=True)
            else:
                continue
        else:
            if any(nm == t.s and lo <= i < hi for (nm, lo, hi) in scopes):
                continue                  # a local variable of that name is in scope
            target = resolve(fn.mod, t.s, qualified=False)
        if target is None:
            continue
        # bracket guard
        br = any(lo <= i < hi for (lo, hi) in regions)
        for (callee, oi, argi) in stack:
            if callee in ('parenthesized', 'braced'):
                br = True
            elif callee == 'delimited' and argi == 1:
                first = []
                d = 0
                for k in range(oi + 1, n):
                    if toks[k].s in OPEN:
                        d += 1
                    elif toks[k].s in CLOSE:
                        d -= 1
                    if toks[k].s == ',' and d == 0:
                        break
                    first.append(toks[k])
                b = is_open_char_expr(first)
                if b in OPEN:
                    br = True
        # depth argument
        da, chk = 'DNA', True
        if target in carrying:
            if nxt != '(':
                lost(G, 'depth-carrying %s passed as a value in %s' % (target, fn.key))
                da = 'DKeep'
            else:
                ce = match_close(toks, i + 1)
                args = split_top(toks[i + 2:ce])
                pos = carrying[target]
                arg = ' '.join(x.s for x in args[pos]) if pos < len(args) else '?'
                if arg == 'depth':
                    da = 'DKeep'
                elif arg == 'depth + 1':
                    da = 'DInc'
                elif arg == '0':
                    da = 'DReset'
                else:
                    lost(G, 'depth argument `%s` of %s in %s' % (arg, target, fn.key))
                    da = 'DKeep'
            if da == 'DInc':
                chk = any(c < i for c in depth_checks) or 'ENTRY:' + target
        out.append({'callee': target, 'br': br, 'da': da, 'chk': chk, 'idx': i})
    return out


def entry_check(fn):
    """fn starts with `if depth >= MAX_KIP_NESTING_DEPTH { return fail(..` as its first statement."""
    s = [t.s for t in fn.body[:8]]
    return s[:4] == ['if', 'depth', '>=', 'MAX_KIP_NESTING_DEPTH'] and s[4] == '{' and s[5] == 'return' and s[6] == 'fail'


def build(repo):
    mods = {}
    for mod, rel in FILES:
        toks = cut_tests(tokenize(read(repo, DIR + rel)))
        fns, imports = parse_items(mod, toks)
        mods[mod] = (fns, imports, toks)
    allfns = {}
    for mod in MODS:
        for f in mods[mod][0]:
            if getattr(f, 'method', False):
                continue                  # inherent methods (`Flavor::raw_paths`) are never referenced by bare name
            if f.key in allfns:
                lost(G, 'duplicate fn ' + f.key)
            allfns[f.key] = f
    for f in allfns.values():
        parts = split_top(f.params)
        for p in parts:
            c = find_top(p, 0, {':'})
            names = pattern_bindings(p[:c] if c >= 0 else p)
            f.param_names += [x for x in names if x != 'mut']
            ty = [t.s for t in (p[c + 1:] if c >= 0 else [])]
            if 'str' in ty and names and names[0] in ('input', 'i'):
                f.is_parser = True
        rs = [t.s for t in f.ret]
        if any(x in rs for x in ('Parser', 'VResult', 'IResult', 'PResult')):
            f.is_parser = True
        if f.mod == 'parser' and f.name.startswith('parse_'):
            f.is_parser = True
    carrying = {}
    for f in allfns.values():
        parts = split_top(f.params)
        for k, p in enumerate(parts):
            if p and p[0].s == 'depth':
                carrying[f.key] = k

    def resolve(mod, name, qualified, _seen=()):
        if mod + '::' + name in allfns:
            return mod + '::' + name
        imp = mods[mod][1].get(name) if mod in mods else None
        if imp and (mod, name) not in _seen:
            return resolve(imp[0], imp[1], True, _seen + ((mod, name),))
        return None

    edges = {}
    for f in allfns.values():
        edges[f.key] = analyse_fn(f, resolve, carrying)
    for f in allfns.values():
        for e in edges[f.key]:
            if isinstance(e['chk'], str):
                e['chk'] = entry_check(allfns[e['chk'][6:]])
    # nodes of the graph: signature parsers and everything that reaches one
    reach = {k for k, f in allfns.items() if f.is_parser}
    changed = True
    while changed:
        changed = False
        for k in allfns:
            if k not in reach and any(e['callee'] in reach for e in edges[k]):
                reach.add(k)
                changed = True
    rest = [k for k in allfns if k not in reach]
    # recursive groups among the rest (tree walkers): functions on a cycle
    def reaches(a, b, seen):
        for e in edges[a]:
            c = e['callee']
            if c == b:
                return True
            if c not in seen and c in rest:
                seen.add(c)
                if reaches(c, b, seen):
                    return True
        return False
    walkers = sorted(k for k in rest if reaches(k, k, set()))
    return allfns, edges, sorted(reach), carrying, walkers, mods


def budget_facts(mods):
    fns = {f.name: f for f in mods['parser'][0]}
    toks = mods['parser'][2]
    out = {}
    for cname in ('MAX_KIP_INPUT_LEN', 'MAX_KIP_NESTING_DEPTH'):
        val = None
        for i, t in enumerate(toks):
            if t.s == 'const' and toks[i + 1].s == cname:
                j = i
                while toks[j].s != '=':
                    j += 1
                k = j
                while toks[k].s != ';':
                    k += 1
                expr = ' '.join(x.s for x in toks[j + 1:k]).replace('_', '')
                if re.fullmatch(r'[0-9 *+]+', expr):
                    val = eval(expr)
        if val is None:
            lost(G, 'const ' + cname)
            val = 0
        out[cname] = val
    f = fns.get('validate_parser_budget')
    if not f:
        lost(G, 'fn validate_parser_budget')
        return out, None
    s = ' '.join(('§%s§' % t.s[1:-1]) if t.k == 'chr' else t.s for t in f.body)
    m = re.search(r'input \. len \( \) (>=|>) MAX_KIP_INPUT_LEN', s)
    if not m:
        lost(G, 'budget length test')
    out['len_strict'] = bool(m and m.group(1) == '>')
    m = re.search(r'stack \. len \( \) (>=|>) MAX_KIP_NESTING_DEPTH', s)
    if not m:
        lost(G, 'budget depth test')
    out['depth_strict'] = bool(m and m.group(1) == '>')
    m = re.search(r'((?:§.§ \| )*§.§) => \{ stack \. push \( ch \)', s)
    if not m:
        lost(G, 'budget openers')
    out['openers'] = re.findall(r'§(.)§', m.group(1)) if m else []
    out['push_before_test'] = bool(re.search(r'stack \. push \( ch \) ; if stack \. len', s))
    pairs = re.findall(r'§(.)§ => \{ if matches ! \( stack \. last \( \) , Some \( §(.)§ \) \) \{ stack \. pop \( \)', s)
    if len(pairs) != len(out['openers']):
        lost(G, 'budget closer arms')
    out['pairs'] = pairs
    # the four state flags and the order of the tests in the loop body
    order = []
    for key, pat in (('comment', r'if in_line_comment \{'), ('string', r'if in_string \{'), ('slash', r"if ch == §/§ \{"),
                     ('brackets', r'match ch \{ §"§ => in_string = true')):
        mm = re.search(pat, s)
        if not mm:
            lost(G, 'budget loop stage ' + key)
        order.append((mm.start() if mm else -1, key))
    out['stage_order'] = [k for _, k in sorted(order)]
    out['iterates_chars'] = 'for ch in input . chars ( )' in s
    if not out['iterates_chars']:
        lost(G, 'budget iterates input.chars()')
    return out, f


def chr_value(tok_s):
    """code point of a char-literal token ('x', '\\n', '\\u{2028}', '\\x0C')."""
    b = tok_s[1:-1]
    if not b.startswith('\\'):
        return ord(b)
    simple = {'n': 10, 'r': 13, 't': 9, '0': 0, '\\': 92, "'": 39, '"': 34}
    if b[1] in simple and len(b) == 2:
        return simple[b[1]]
    if b[1] == 'x':
        return int(b[2:], 16)
    if b[1] == 'u':
        return int(b[3:-1], 16)
    raise ValueError(tok_s)


def str_codes(tok_s):
    """code points of a plain string-literal token without escapes other than \\\\ and \\"."""
    b = tok_s[1:-1].replace('\\\\', '\x00B').replace('\\"', '"').replace('\x00B', '\\')
    return [ord(c) for c in b]


def trivia_facts(allfns, mods):
    """Where the PARSER says comments and strings are (json.rs skip_ws_and_comments / string / character,
    common.rs trivia1) and where the BUDGET SCANNER says they are (parser.rs validate_parser_budget)."""
    out = {}

    def seq(fn, *words):
        """index just after the first occurrence of the token sequence in fn.body, or -1"""
        ts = [t.s for t in fn.body]
        n = len(words)
        for i in range(len(ts) - n + 1):
            if ts[i:i + n] == list(words):
                return i + n
        return -1

    # ---- parser side: skip_ws_and_comments
    f = allfns.get('json::skip_ws_and_comments')
    if not f:
        lost(G, 'fn skip_ws_and_comments')
        return out
    b = f.body
    i = seq(f, 'trim_start_matches', '(', '|', 'c', ':', 'char', '|', 'c', '.')
    if i < 0 or b[i + 1].s != '(' or b[i + 2].s != ')' or b[i + 3].s != ')':
        lost(G, 'trivia: whitespace predicate of skip_ws_and_comments')
        out['ws_pred'] = '?'
    else:
        out['ws_pred'] = b[i].s
    i = seq(f, 'if', 'remaining', '.', 'starts_with', '(')
    if i < 0 or b[i].k != 'str' or b[i + 1].s != ')':
        lost(G, 'trivia: comment opener of skip_ws_and_comments')
        out['comment_open'] = []
    else:
        out['comment_open'] = str_codes(b[i].s)
        blk = find_top(b, i + 2, {'{'})
        end = match_close(b, blk)
        body = Fn('json', '_', [], [], b[blk + 1:end])
        j = seq(body, 'remaining', '.', 'find', '(')
        terms = None
        if j >= 0:
            bb = body.body
            if bb[j].k == 'chr' and bb[j + 1].s == ')':
                terms = [chr_value(bb[j].s)]
            elif bb[j].s == '[':
                e = match_close(bb, j)
                items = [t for t in bb[j + 1:e] if t.s != ',']
                if items and all(t.k == 'chr' for t in items) and bb[e + 1].s == ')':
                    terms = [chr_value(t.s) for t in items]
            elif bb[j].s == '&' and bb[j + 1].s == '[':
                e = match_close(bb, j + 1)
                items = [t for t in bb[j + 2:e] if t.s != ',']
                if items and all(t.k == 'chr' for t in items):
                    terms = [chr_value(t.s) for t in items]
        if terms is None:
            lost(G, 'trivia: comment terminator of skip_ws_and_comments (expected remaining.find(<char> | [<chars>]))')
            terms = []
        out['comment_terms'] = terms
        # the slice that continues after the terminator, and the end-of-input arm
        sl = ' '.join(t.s for t in body.body)
        m = re.search(r'remaining = & remaining \[ (\w+) \+ 1 \.\. \]', sl)
        out['term_consumed'] = bool(m)
        if not m:
            lost(G, 'trivia: comment continuation `&remaining[pos + 1..]`')
        out['eof_ends_comment'] = bool(re.search(r'else \{ remaining = "" ; \}', sl))
        if not out['eof_ends_comment']:
            lost(G, 'trivia: comment to end of input')
        if len(re.findall(r'\. find \(', sl)) != 1:
            lost(G, 'trivia: more than one search in the comment arm')
    # ---- parser side: trivia1 (between the words of a multi-word keyword)
    f = allfns.get('common::trivia1')
    if not f:
        lost(G, 'fn trivia1')
    else:
        b = f.body
        i = seq(f, 'take_while1', '(', '|', 'c', ':', 'char', '|', 'c', '.')
        out['trivia1_ws_pred'] = b[i].s if i >= 0 and b[i + 1].s == '(' else '?'
        if out['trivia1_ws_pred'] == '?':
            lost(G, 'trivia: whitespace predicate of trivia1')
        i = seq(f, 'peek', '(', 'tag', '(')
        out['trivia1_comment_open'] = str_codes(b[i].s) if i >= 0 and b[i].k == 'str' else []
        if not out['trivia1_comment_open']:
            lost(G, 'trivia: comment opener of trivia1')
        if seq(f, 'skip_ws_and_comments', '(', 'rest', ')') < 0:
            lost(G, 'trivia: trivia1 continues with skip_ws_and_comments')
    # ---- parser side: string() and character()
    f = allfns.get('json::string')
    g2 = allfns.get('json::character')
    if not f or not g2:
        lost(G, 'fn string / character')
    else:
        b = f.body
        i = seq(f, 'preceded', '(', 'char', '(')
        opener = chr_value(b[i].s) if i >= 0 and b[i].k == 'chr' else None
        closers = [chr_value(b[k + 2].s) for k in range(len(b) - 3) if b[k].s == 'char' and b[k + 1].s == '(' and b[k + 2].k == 'chr']
        if opener is None or closers != [opener, opener]:
            lost(G, 'string(): opening and closing quote')
        out['string_quote'] = opener or 0
        b = g2.body
        i = seq(g2, 'preceded', '(', 'char', '(')
        esc = chr_value(b[i].s) if i >= 0 and b[i].k == 'chr' else None
        j = seq(g2, 'none_of', '(')
        excluded = sorted(str_codes(b[j].s)) if j >= 0 and b[j].k == 'str' else []
        if esc is None or excluded != sorted([esc, opener or 0]):
            lost(G, 'character(): escape character and the characters a plain string character excludes')
        out['string_escape'] = esc or 0
        # after the escape character exactly one character (anychar) or `u` + hex digits follows
        if seq(g2, 'map_res', '(', 'anychar') < 0:
            lost(G, 'character(): an escape takes the next character')
    # ---- scanner side: validate_parser_budget
    fns = {x.name: x for x in mods['parser'][0]}
    f = fns.get('validate_parser_budget')
    if f:
        sl = ' '.join(('§%d§' % chr_value(t.s)) if t.k == 'chr' else t.s for t in f.body)
        m = re.search(r'if in_line_comment \{ if ((?:ch == §\d+§(?: \|\| )?)+) \{ in_line_comment = false ; \} continue ; \}', sl)
        if m:
            out['budget_comment_terms'] = [int(x) for x in re.findall(r'§(\d+)§', m.group(1))]
        else:
            m = re.search(r'if in_line_comment \{ if matches ! \( ch , ((?:§\d+§(?: \| )?)+) \) \{ in_line_comment = false ; \} continue ; \}', sl)
            out['budget_comment_terms'] = [int(x) for x in re.findall(r'§(\d+)§', m.group(1))] if m else []
            if not m:
                lost(G, 'budget: comment terminator test')
        m = re.search(r'if ch == §(\d+)§ \{ if prev_slash \{ in_line_comment = true ; prev_slash = false ; \} else \{ prev_slash = true ; \} continue ; \}', sl)
        out['budget_comment_open'] = [int(m.group(1))] * 2 if m else []
        if not m:
            lost(G, 'budget: comment opener (two consecutive slashes)')
        m = re.search(r'match ch \{ §(\d+)§ => escaped = true , §(\d+)§ => in_string = false , _ => \{ \} \}', sl)
        m2 = re.search(r'match ch \{ §(\d+)§ => in_string = true ,', sl)
        if not m or not m2 or m.group(2) != m2.group(1):
            lost(G, 'budget: string quote / escape arms')
        out['budget_escape'] = int(m.group(1)) if m else 0
        out['budget_quote'] = int(m2.group(1)) if m2 else 0
    return out


def tables(repo):
    allfns, edges, nodes, carrying, walkers, mods = build(repo)
    bf, _ = budget_facts(mods)
    tf = trivia_facts(allfns, mods)
    idx = {k: i for i, k in enumerate(nodes)}
    es = set()
    for k in nodes:
        for e in edges[k]:
            if e['callee'] in idx:
                es.add((idx[k], idx[e['callee']], e['br'], e['da'], bool(e['chk'])))
    # self-test of the extraction: the entry points exist and the graph has not collapsed (an extractor that
    # stops seeing calls would make every certificate trivially true)
    succ = {}
    for (a, b, _, _, _) in es:
        succ.setdefault(a, set()).add(b)
    for root in ('parse_kip', 'parse_kql', 'parse_kml', 'parse_meta', 'parse_json'):
        key = 'parser::' + root
        if key not in idx:
            lost(G, 'entry point ' + root)
            continue
        seen, todo = {idx[key]}, [idx[key]]
        while todo:
            x = todo.pop()
            for y in succ.get(x, ()):
                if y not in seen:
                    seen.add(y)
                    todo.append(y)
        floor = {'parse_kip': 90, 'parse_kql': 45, 'parse_kml': 60, 'parse_meta': 35, 'parse_json': 12}[root]
        if len(seen) < floor:
            lost(G, 'call graph below %s collapsed: %d functions reachable (floor %d)' % (root, len(seen), floor))
    if not any(br for (_, _, br, _, _) in es) or not any(da == 'DInc' for (_, _, _, da, _) in es):
        lost(G, 'no bracket-guarded / depth-counted call found')
    return {'nodes': nodes, 'edges': sorted(es), 'carrying': sorted(idx[k] for k in carrying if k in idx),
            'walkers': walkers, 'budget': bf, 'trivia': tf,
            'roots': [idx[k] for k in nodes if k.startswith('parser::parse_')]}


def generate(repo):
    t = tables(repo)
    bf = t['budget']
    out = [HEADER, 'From Coq Require Import List String NArith.\nFrom Verif Require Import Kip.CallGraph.\n'
                   'Import ListNotations.\nLocal Open Scope string_scope.\n\n']
    out.append('Definition MAX_KIP_INPUT_LEN : N := %d%%N.\n' % bf.get('MAX_KIP_INPUT_LEN', 0))
    out.append('Definition MAX_KIP_NESTING_DEPTH : nat := %d.\n' % bf.get('MAX_KIP_NESTING_DEPTH', 0))
    out.append('Definition budget_len_strict : bool := %s.\n' % ('true' if bf.get('len_strict') else 'false'))
    out.append('Definition budget_depth_strict : bool := %s.\n' % ('true' if bf.get('depth_strict') else 'false'))
    out.append('Definition budget_push_before_test : bool := %s.\n' % ('true' if bf.get('push_before_test') else 'false'))
    out.append('Definition budget_openers : list N := [%s].\n' % '; '.join('%d%%N' % ord(c) for c in bf.get('openers', [])))
    out.append('Definition budget_pairs : list (N * N) := [%s].  (* closer, opener *)\n'
               % '; '.join('(%d%%N, %d%%N)' % (ord(a), ord(b)) for a, b in bf.get('pairs', [])))
    out.append('Definition budget_stage_order : list string := [%s].\n' % '; '.join('"%s"' % s for s in bf.get('stage_order', [])))
    tf = t['trivia']
    nl = lambda xs: '[%s]' % '; '.join('%d%%N' % x for x in xs)
    out.append('\n(* where the PARSER puts comments, whitespace and strings (json.rs skip_ws_and_comments, string, character; common.rs trivia1) *)\n')
    out.append('Definition trivia_comment_open : list N := %s.\n' % nl(tf.get('comment_open', [])))
    out.append('Definition trivia_comment_terms : list N := %s.  (* a line comment ends at, and includes, the first of these *)\n' % nl(tf.get('comment_terms', [])))
    out.append('Definition trivia_term_consumed : bool := %s.\n' % ('true' if tf.get('term_consumed') else 'false'))
    out.append('Definition trivia_eof_ends_comment : bool := %s.\n' % ('true' if tf.get('eof_ends_comment') else 'false'))
    out.append('Definition trivia_ws_pred : string := "%s".\n' % tf.get('ws_pred', '?'))
    out.append('Definition trivia1_ws_pred : string := "%s".\n' % tf.get('trivia1_ws_pred', '?'))
    out.append('Definition trivia1_comment_open : list N := %s.\n' % nl(tf.get('trivia1_comment_open', [])))
    out.append('Definition string_quote : N := %d%%N.\n' % tf.get('string_quote', 0))
    out.append('Definition string_escape : N := %d%%N.\n' % tf.get('string_escape', 0))
    out.append('(* where the BUDGET SCANNER puts them (parser.rs validate_parser_budget) *)\n')
    out.append('Definition budget_comment_open : list N := %s.\n' % nl(tf.get('budget_comment_open', [])))
    out.append('Definition budget_comment_terms : list N := %s.\n' % nl(tf.get('budget_comment_terms', [])))
    out.append('Definition budget_quote : N := %d%%N.\n' % tf.get('budget_quote', 0))
    out.append('Definition budget_escape : N := %d%%N.\n' % tf.get('budget_escape', 0))
    out.append('\n(* %d functions, %d call positions *)\n' % (len(t['nodes']), len(t['edges'])))
    out.append('Definition kg_names : list string := [\n  %s].\n' % ';\n  '.join('"%s"' % n for n in t['nodes']))
    out.append('Definition kg_nfns : nat := %d.\n' % len(t['nodes']))
    out.append('Definition kg_carrying : list nat := [%s].\n' % '; '.join(str(i) for i in t['carrying']))
    out.append('Definition kg_roots : list nat := [%s].\n' % '; '.join(str(i) for i in t['roots']))
    out.append('Definition kg_edges : list edge := [\n  %s].\n' % ';\n  '.join(
        'mkE %d %d %s %s %s' % (a, b, 'true' if br else 'false', da, 'true' if chk else 'false')
        for (a, b, br, da, chk) in t['edges']))
    out.append('Definition kg_walkers : list string := [%s].\n' % '; '.join('"%s"' % w for w in t['walkers']))
    return G, ''.join(out)


if __name__ == '__main__':
    repo = sys.argv[sys.argv.index('--repo') + 1] if '--repo' in sys.argv else '/repo'
    t = tables(repo)
    if '--json' in sys.argv:
        print(json.dumps(t))
    else:
        for (a, b, br, da, chk) in t['edges']:
            print('%-40s -> %-40s %s %s %s' % (t['nodes'][a], t['nodes'][b], 'BR' if br else '  ', da, '' if chk else 'UNCHECKED'))
        print('carrying', [t['nodes'][i] for i in t['carrying']])
        print('walkers', t['walkers'])
        print('budget', t['budget'])
        print('trivia', t['trivia'])
        print(len(t['nodes']), 'nodes', len(t['edges']), 'edges')
