"""Gen_Hnsw: constants, flush step order and load-validation order of the HNSW index (C12)."""
import re
from trlib import *  # noqa: F401,F403


def _const(src, name, g, out):
    m = re.search(r'\bconst\s+%s\s*:\s*\w+\s*=\s*([0-9_]+)\s*;' % name, src)
    if not m:
        lost(g, 'const ' + name)
        return
    out.append('Definition %s : nat := %d.\n' % (name.lower(), int(m.group(1).replace('_', ''))))


def _ordered_steps(body, table, g, item):
    """table: [(regex, tag)]; returns tags ordered by first occurrence; every regex must match."""
    found = []
    for rx, tag in table:
        m = re.search(rx, body, re.S)
        if not m:
            lost(g, '%s.%s' % (item, tag))
            continue
        found.append((m.start(), tag))
    return [t for _, t in sorted(found)]


def generate(repo):
    g = 'Gen_Hnsw'
    src = strip_rust_comments(read(repo, 'rs/anda_db_hnsw/src/hnsw.rs'))
    wrap = strip_rust_comments(read(repo, 'rs/anda_db/src/index/hnsw.rs'))
    out = [HEADER, 'From Coq Require Import List ZArith.\nFrom Verif Require Import Hnsw.Model.\nImport ListNotations.\n']
    _const(src, 'SEARCH_MAX_ATTEMPTS', g, out)
    _const(src, 'MAX_EF_SEARCH', g, out)
    _const(src, 'MAX_MAX_LAYERS', g, out)
    # HnswIndex::flush_with: order of the awaited persistence callbacks and the commit
    body = fn_body(src, 'flush_with', g)
    if body:
        steps = _ordered_steps(body, [(r'\bnode_f\s*\(', 'FNodes'), (r'\bids_f\s*\(', 'FIds'),
                                      (r'\bmetadata_f\s*\(', 'FMeta'),
                                      (r'\bcommit_flush_snapshot\s*\(', 'FCommit')], g, 'flush_with')
        out.append('Definition flush_with_order : list flush_step := [%s].\n' % '; '.join(steps))
    # Hnsw::flush (collection level): flush_with, then purge_removed_nodes
    body = fn_body(wrap, 'flush', g)
    if body:
        steps = _ordered_steps(body, [(r'\.flush_with\s*\(', 'FCommit'), (r'\.purge_removed_nodes\s*\(', 'FPurge')],
                               g, 'Hnsw::flush')
        out.append('Definition wrapper_flush_order : list flush_step := [%s].\n' % '; '.join(steps))
    # validate_loaded_node: order of the checks
    body = fn_body(src, 'validate_loaded_node', g)
    if body:
        steps = _ordered_steps(body, [
            (r'node\.id\s*!=\s*expected_id', 'VId'),
            (r'node\.vector\.len\(\)\s*!=\s*dimension', 'VDimension'),
            (r'node\.layer\s*>=\s*max_layers', 'VLayer'),
            (r'node\.neighbors\.len\(\)\s*!=\s*expected_neighbors', 'VNeighborLayers'),
            (r'node\s*\.vector\s*\.iter\(\)\s*\.any\(', 'VVectorFinite'),
            (r'\|\s*\(\s*_\s*,\s*distance\s*\)\s*\|\s*!\s*distance\.is_finite\(\)', 'VEdgeFinite'),
        ], g, 'validate_loaded_node')
        out.append('Definition validate_order : list vcheck := [%s].\n' % '; '.join(steps))
    # load_metadata clamps the recorded entry layer
    body = fn_body(src, 'load_metadata', g)
    if body:
        clamp = re.search(r'\.min\(\s*index\.metadata\.config\.max_layers\.saturating_sub\(1\)\s*\)', body)
        out.append('Definition entry_layer_clamped : bool := %s.\n' % ('true' if clamp else 'false'))
    return g, ''.join(out)
