#!/usr/bin/env python3
"""Regenerates the seeded-change table in DESIGN.md (between the SEEDTABLE markers) from seeded/*/{meta,confirmed,check_results}.json."""
import glob
import json
import os
import re

rows = []
for d in sorted(glob.glob('/verif/seeded/*/')):
    n = d.split('/')[-2]
    m = json.load(open(d + 'meta.json'))
    c = json.load(open(d + 'confirmed.json')) if os.path.exists(d + 'confirmed.json') else {}
    r = json.load(open(d + 'check_results.json')) if os.path.exists(d + 'check_results.json') else {}
    r1 = m.get('checks_run_round1', {})
    summ = re.sub(r'\s+', ' ', m.get('summary', ''))[:230].replace('|', '/')
    needs = re.sub(r'\s+', ' ', str(m.get('needs', '')))[:200].replace('|', '/')

    def fmt(v):
        if not v.get('caught'):
            return 'MISSED'
        if v.get('failing_input_found'):
            return 'caught with failing input (%s)' % ', '.join(str(x) for x in v.get('classes', []) if x != 'broken-obligation')
        return 'caught, no failing input found (broken obligation)'
    now = '; '.join('%s: %s' % (k, fmt(v)) for k, v in sorted(r.items()))
    first = '; '.join('%s: %s' % (k, fmt(v)) for k, v in sorted(r1.items())) if r1 else '—'
    conf = 'yes' if c.get('confirmed') else ('NO' if c else 'pending')
    rows.append('| %s | %s | %s | %s | %s | %s | %s |' % (n, m.get('property'), summ, needs, conf, first, now or 'pending'))
table = ['| seed | property | change | needs | confirmed (demo fails with / passes without, suite passes) | first run (before strengthening) | current checks |',
         '|---|---|---|---|---|---|---|'] + rows
p = '/verif/DESIGN.md'
s = open(p).read()
a = s.index('<!-- SEEDTABLE-BEGIN -->') + len('<!-- SEEDTABLE-BEGIN -->')
b = s.index('<!-- SEEDTABLE-END -->')
s = s[:a] + '\n' + '\n'.join(table) + '\n' + s[b:]
open(p, 'w').write(s)
print('rows', len(rows))
