#!/usr/bin/env python3
"""Run checks against a seeded (property-breaking) change without touching /repo.

  tools/seedrun.py <seed-dir> <Cnn> [<Cnn> ...] [--tier quick] [--keep]

<seed-dir> holds patch.diff (+ meta.json).  A scratch worktree of /repo's HEAD is created under
/tmp/seedrun/<name>, the patch applied there, and `VERIF_REPO=<worktree> ./check Cnn` is run for every
listed property (private Coq/harness/target copies under /verif/.cache/alt/<hash>).  The worktree and the
private copies are removed afterwards.  Prints one line per check: CAUGHT / MISSED and the VIOLATION lines.
"""
import hashlib
import json
import os
import shutil
import subprocess
import sys


def sh(cmd, **kw):
    return subprocess.run(cmd, shell=True, stdout=subprocess.PIPE, stderr=subprocess.STDOUT, **kw)


def main():
    args = [a for a in sys.argv[1:] if not a.startswith('--')]
    tier = 'quick'
    if '--tier' in sys.argv:
        tier = sys.argv[sys.argv.index('--tier') + 1]
        args.remove(tier)
    keep = '--keep' in sys.argv
    seed_dir = os.path.abspath(args[0])
    props = args[1:]
    name = os.path.basename(seed_dir.rstrip('/'))
    wt = '/tmp/seedrun/' + name
    os.makedirs('/tmp/seedrun', exist_ok=True)
    sh('git -C /repo worktree remove --force %s' % wt)
    r = sh('git -C /repo worktree add -q %s HEAD' % wt)
    if r.returncode:
        print(r.stdout.decode())
        sys.exit(2)
    r = sh('git -C %s apply %s/patch.diff' % (wt, seed_dir))
    if r.returncode:
        print('PATCH DOES NOT APPLY:', r.stdout.decode())
        sh('git -C /repo worktree remove --force %s' % wt)
        sys.exit(2)
    results = {}
    env = dict(os.environ, VERIF_REPO=wt)
    for p in props:
        r = subprocess.run(['/verif/check', p, '--tier', tier], env=env, stdout=subprocess.PIPE, stderr=subprocess.PIPE, cwd='/verif')
        out = r.stdout.decode()
        vio = [l for l in out.splitlines() if l.startswith('VIOLATION') or l.startswith('KNOWN-FINDING')]
        caught = r.returncode != 0 and any(l.startswith('VIOLATION') for l in vio)
        results[p] = {'exit': r.returncode, 'lines': vio, 'caught': caught,
                      'found_input': any('no-failing-input-found' not in l for l in vio if l.startswith('VIOLATION'))}
        print('%s %s on %s: exit=%d %s' % ('CAUGHT' if caught else 'MISSED', p, name, r.returncode, ' | '.join(vio)))
        tail = r.stderr.decode().splitlines()[-3:]
        for t in tail:
            print('    ' + t[:300])
        # keep the replay files next to the seed for the record
        h = hashlib.sha1(wt.encode()).hexdigest()[:10]
        rep_dir = '/verif/.cache/alt/%s/replays' % h
        if os.path.isdir(rep_dir):
            for f in os.listdir(rep_dir):
                if f.startswith(p + '-'):
                    shutil.copy(os.path.join(rep_dir, f), os.path.join(seed_dir, 'replay_' + f))
    json.dump(results, open(os.path.join(seed_dir, 'check_results.json'), 'w'), indent=1)
    if not keep:
        sh('git -C /repo worktree remove --force %s' % wt)
        h = hashlib.sha1(wt.encode()).hexdigest()[:10]
        shutil.rmtree('/verif/.cache/alt/' + h, ignore_errors=True)


if __name__ == '__main__':
    main()
