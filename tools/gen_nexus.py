"""Gen_Nexus: the shape of the KML transaction engine and of the historical read path (C17, C18).

Extracted from rs/anda_cognitive_nexus/src/{tx.rs, kml/mod.rs, kml/clauses.rs, store/space.rs, store/history.rs}:
the planning passes, which clauses mint a shell in phase 1, the order of the steps of Transaction::commit,
what happens to the shells on each way out, how versions and sequence numbers are assigned, and the
comparison element_at / elements_at use to pick a version."""
import re
from trlib import *  # noqa: F401,F403

G = 'Gen_Nexus'


def b(x):
    return 'true' if x else 'false'


def generate(repo):
    base = 'rs/anda_cognitive_nexus/src/'
    tx = strip_rust_comments(read(repo, base + 'tx.rs'))
    kml = strip_rust_comments(read(repo, base + 'kml/mod.rs'))
    cl = strip_rust_comments(read(repo, base + 'kml/clauses.rs'))
    sp = strip_rust_comments(read(repo, base + 'store/space.rs'))
    hi = strip_rust_comments(read(repo, base + 'store/history.rs'))
    out = [HEADER, 'From Coq Require Import List ZArith String.\nImport ListNotations.\nOpen Scope Z_scope.\n']

    # ---- planning passes
    m = re.search(r'pub const PLAN_PASSES\s*:\s*u8\s*=\s*(\d+)\s*;', cl)
    if not m:
        lost(G, 'PLAN_PASSES')
    out.append('Definition plan_passes : Z := %s.\n' % (m.group(1) if m else '0'))
    body = fn_body(cl, 'plan_pass', G)
    table = []
    for arm in re.finditer(r'((?:MutationClause::\w+\(_\)\s*\|?\s*)+)=>\s*(\d+)', body):
        for name in re.findall(r'MutationClause::(\w+)', arm.group(1)):
            table.append((name, arm.group(2)))
    dflt = re.search(r'_\s*=>\s*(\d+)', body)
    if not table or not dflt:
        lost(G, 'plan_pass arms')
    out.append('Definition plan_pass_table : list (string * Z) := [%s].\n' % '; '.join('("%s"%%string, %s)' % t for t in table))
    out.append('Definition plan_pass_default : Z := %s.\n' % (dflt.group(1) if dflt else '0'))
    body = fn_body(cl, 'declare_handles', G)
    mints = re.findall(r'MutationClause::(\w+)\(c\)\s*=>\s*\(Some\(c\.handle', body)
    late = re.findall(r'MutationClause::(\w+)\(_\)\s*=>\s*return Ok\(\(\)\)', body)
    if not mints:
        lost(G, 'declare_handles arms')
    out.append('Definition declare_mints : list string := [%s].\n' % '; '.join('"%s"%%string' % x for x in mints))
    out.append('Definition declare_binds_late : list string := [%s].\n' % '; '.join('"%s"%%string' % x for x in late))
    # plan(): every handle declared before any clause is applied
    body = fn_body(kml, 'plan', G)
    i1, i2 = body.find('declare_handles'), body.find('clauses::apply')
    out.append('Definition handles_declared_before_apply : bool := %s.\n' % b(0 <= i1 < i2))

    # ---- execute(): a planning error aborts (shells discarded); a commit error is returned as is
    body = fn_body(kml, 'execute', G)
    m = re.search(r'match plan\(.*?\{(.*?)\n    \}', body, re.S)
    out.append('Definition plan_error_aborts : bool := %s.\n' % b(bool(m and re.search(r'Err\(err\)\s*=>\s*\{[^}]*tx\.abort\(\)\.await', m.group(1), re.S))))
    body_abort = fn_body(tx, 'abort', G)
    out.append('Definition abort_discards_shells : bool := %s.\n' % b('discard_shells' in body_abort))

    # ---- Transaction::commit: order of the steps
    body = fn_body(tx, 'commit', G)
    anchors = [
        ('dry_run_return', r'if self\.dry_run\s*\{'),
        ('propagate_governance', r'self\.propagate_governance\(\)'),
        ('check_reference_closure', r'self\.check_reference_closure\(\)'),
        ('check_concept_key_identity', r'self\.check_concept_key_identity\(\)'),
        ('write_loop', r'for \(id, staged\) in std::mem::take\(&mut self\.staged\)'),
        ('discard_unstaged_shells', r'self\.discard_unstaged_shells\('),
        ('journal', r'\.journal\('),
        ('flush', r'self\.store\.flush\('),
    ]
    pos = []
    for name, rx in anchors:
        m = re.search(rx, body)
        if not m:
            lost(G, 'commit.' + name)
            continue
        pos.append((m.start(), name))
    order = [n for _, n in sorted(pos)]
    out.append('Definition commit_steps : list string := [%s].\n' % '; '.join('"%s"%%string' % n for n in order))
    idx = {n: i for i, n in enumerate(order)}
    checks = ['propagate_governance', 'check_reference_closure', 'check_concept_key_identity']
    out.append('Definition commit_checks_before_writes : bool := %s.\n' % b(all(c in idx and 'write_loop' in idx and idx[c] < idx['write_loop'] for c in checks)))
    out.append('Definition journal_once_after_writes : bool := %s.\n' % b('journal' in idx and 'write_loop' in idx and idx['write_loop'] < idx['journal'] and len(re.findall(r'\.journal\(', body)) == 1))
    # dry run: shells discarded, nothing journalled
    m = re.search(r'if self\.dry_run\s*\{(.*?)\n        \}', body, re.S)
    dry = m.group(1) if m else ''
    out.append('Definition dry_run_discards_shells : bool := %s.\n' % b('self.discard_shells()' in dry and '.journal(' not in dry and 'self.write(' not in dry))
    # a refusal by one of the commit checks discards the shells before returning
    seg = body[body.find('self.propagate_governance()'):body.find('for (id, staged) in std::mem::take')] if 'write_loop' in idx else ''
    propagates_raw = bool(re.search(r'self\.(propagate_governance|check_reference_closure|check_concept_key_identity)\(\)\.await\?', seg))
    discards = bool(re.search(r'if let Err\(err\) = \w+\s*\{[^}]*self\.discard_shells\(\)\.await;\s*return Err\(err\);', seg, re.S))
    out.append('Definition commit_refusal_discards_shells : bool := %s.\n' % b(discards and not propagates_raw))
    # versions
    m = re.search(r'let version = if staged\.is_new\s*\{\s*1\s*\}\s*else\s*\{\s*staged\.row\.version\(\)\.saturating_add\(1\)\s*\}', body)
    out.append('Definition version_new_is_one_else_plus_one : bool := %s.\n' % b(bool(m)))
    out.append('Definition unchanged_rows_skipped : bool := %s.\n' % b(bool(re.search(r'if !staged\.changed\s*\{\s*continue;', body))))
    wr = fn_body(tx, 'write', G)
    out.append('Definition version_row_recorded_with_put : bool := %s.\n' % b(0 <= wr.find('self.store.put(&row)') < wr.find('.record_version(')))
    out.append('Definition pending_becomes_active_on_write : bool := %s.\n' % b(bool(re.search(r'row\.state == state::PENDING\s*\{\s*row\.state = state::ACTIVE', wr))))
    sh = fn_body(tx, 'insert_shell', G)
    out.append('Definition shells_are_pending : bool := %s.\n' % b('state::PENDING' in sh))

    # ---- ENSURE resolves a tuple this same transaction already staged before asking the index
    ens = fn_body(cl, 'ensure_proposition', G)
    i1, i2, i3 = ens.find('tx.staged_proposition('), ens.find('find_proposition('), ens.find('tx.mint(ElementKind::Proposition)')
    out.append('Definition ensure_resolves_staged : bool := %s.\n' % b(0 <= i1 < i2 < i3))
    out.append('Definition ensure_resolves_committed : bool := %s.\n' % b(0 <= i2 < i3))
    # the in-block lookup walks the staging map itself (every row this transaction staged, whether or not a
    # handle names it - an anonymous ENSURE binds none), not the handle table
    sp_body = fn_body(tx, 'staged_proposition', G)
    out.append('Definition staged_lookup_walks_staging_map : bool := %s.\n' % b(
        bool(re.search(r'self\.staged\s*\.(iter|values)\(\)', sp_body)) and 'self.handles' not in sp_body and 'tuple_key == tuple_key' in sp_body.replace('row.', '')))
    ups = fn_body(cl, 'upsert_concept', G)
    out.append('Definition upsert_resolves_by_key : bool := %s.\n' % b('find_concept_by_key(' in ups and ups.find('find_concept_by_key(') < ups.find('tx.mint(ElementKind::Concept)')))

    # ---- the Space sequence
    bt = fn_body(sp, 'begin_transaction', G)
    out.append('Definition seq_allocated_at_begin_plus_one : bool := %s.\n' % b(bool(re.search(r'let seq = space\.seq\.saturating_add\(1\)', bt)) and '"seq".to_string(), Fv::U64(seq)' in bt))
    jr = fn_body(sp, 'journal', G)
    out.append('Definition journal_row_carries_tx_seq : bool := %s.\n' % b('seq: cx.seq' in jr and 'changed_ids' in jr))

    # ---- history.rs
    ea = fn_body(hi, 'element_at', G)
    out.append('Definition element_at_takes_greatest_seq_version : bool := %s.\n' % b(
        bool(re.search(r'\(row\.seq, row\.version\)\s*>\s*\(current\.seq, current\.version\)', ea)) and 'RangeQuery::Le(Fv::U64(seq))' in ea))
    es = fn_body(hi, 'elements_at', G)
    out.append('Definition elements_at_takes_greatest_seq_version : bool := %s.\n' % b(
        bool(re.search(r'\(current\.seq, current\.version\)\s*>=\s*\(row\.seq, row\.version\)\s*=>\s*\{\}', es)) and 'RangeQuery::Le(Fv::U64(seq))' in es))
    st = fn_body(hi, 'seq_at_time', G)
    out.append('Definition seq_at_time_is_last_commit_at_or_before : bool := %s.\n' % b(bool(re.search(r'row\.committed_at\.as_str\(\)\s*<=\s*at\s*&&\s*row\.seq\s*>\s*seq', st))))
    sv = fn_body(hi, 'schema_version_at', G)
    out.append('Definition schema_version_at_is_last_activation_at_or_before : bool := %s.\n' % b(bool(re.search(r'activated_at\s*<=\s*seq\s*&&\s*row\.version\s*>\s*version', sv))))
    rv = fn_body(hi, 'record_version', G)
    out.append('Definition version_row_carries_tx_seq : bool := %s.\n' % b('seq: cx.seq' in rv and 'add_from(&entry)' in rv))
    only_purge = len(re.findall(r'element_versions\(\)\s*;?\s*(?:\n\s*)?(?:for[^\n]*\n\s*)?collection\.remove|collection\.remove\(\*row_id\)', hi)) >= 1
    out.append('Definition version_rows_removed_only_by_purge : bool := %s.\n' % b(
        only_purge and len(re.findall(r'\.remove\(', hi)) == 1 and 'fn remove_versions' in hi))
    # ---- kql/matching.rs: the re-checks a historical read applies (the indexes describe the present, so at a
    # coordinate every constraint the index would have enforced is decided against the reconstructed row)
    mt = strip_rust_comments(read(repo, base + 'kql/matching.rs'))
    tm = fn_body(mt, 'tuple_matches', G)
    out.append('Definition historical_tuple_rechecks_active : bool := %s.\n' % b(bool(re.search(r'if row\.state != "active"\s*\{\s*return false;', tm))))
    out.append('Definition historical_tuple_rechecks_endpoints_and_predicate : bool := %s.\n' % b(
        'row.subject_key != endpoint.key()' in tm and 'row.object_key != endpoint.key()' in tm and 'predicate_ref' in tm))
    me = fn_body(mt, 'match_element', G)
    out.append('Definition historical_element_rechecks_active : bool := %s.\n' % b(bool(re.search(
        r'if by_id\.is_some\(\) \|\| historical\s*\{.*?if !constrains_state && !element\.is_active\(\)\s*\{\s*continue;', me, re.S))))
    out.append('Definition historical_element_rechecks_every_matcher_key : bool := %s.\n' % b(bool(re.search(
        r'if historical && !matches!\(column_of\(kind, key\), Some\("__id"\)\)\s*\{.*?post\.push\(\(key\.clone\(\), slot\)\);\s*continue;', me, re.S))))
    vk = fn_body(mt, 'view_key', G)
    out.append('Definition state_constraint_reads_system_state : bool := %s.\n' % b(bool(re.search(r'\(_, "state"\)\s*=>\s*"_system\.state"', vk))))
    mp = fn_body(mt, 'match_proposition', G)
    out.append('Definition proposition_by_id_rechecks_active : bool := %s.\n' % b(bool(re.search(r'element\.space\(\) == self\.space && element\.is_active\(\)', mp))))
    ms = fn_body(mt, 'match_structural', G)
    out.append('Definition structural_source_rechecks_active : bool := %s.\n' % b(bool(re.search(r'element\.space\(\) != self\.space \|\| !element\.is_active\(\)\s*\{\s*continue;', ms))))
    nb = fn_body(mt, 'neighbours', G)
    out.append('Definition historical_path_step_rechecks_active : bool := %s.\n' % b(bool(re.search(
        r'if historical\s*\{.*?!matches_anchor \|\| row\.state != "active" \|\| !symbols\.contains\(&row\.predicate_ref\)', nb, re.S))))
    ts = fn_body(mt, 'tuple_subjects', G)
    out.append('Definition historical_path_seed_rechecks_active : bool := %s.\n' % b(bool(re.search(
        r'if historical && \(row\.state != "active" \|\| !symbols\.contains\(&row\.predicate_ref\)\)', ts))))
    kq = strip_rust_comments(read(repo, base + 'kql/mod.rs'))
    cd = fn_body(kq, 'candidates', G)
    out.append('Definition historical_candidates_rebuilt_from_version_log : bool := %s.\n' % b(bool(re.search(
        r'if let Some\(seq\) = self\.as_of\s*\{\s*let elements = self\.store\.elements_at\(&self\.space, kind, seq\)', cd))))
    ld = fn_body(kq, 'load', G)
    out.append('Definition historical_load_reads_element_at : bool := %s.\n' % b(bool(re.search(
        r'Some\(seq\) => (?:match )?self\.store\.element_at\(&self\.space, id, seq\)', ld))))
    # ---- AS OF TIME: what reaches seq_at_time is the NORMALIZED instant (the value time::normalize returns), never
    # the caller's spelling - the journal scan compares strings
    ra = fn_body(kq, 'resolve_as_of', G)
    m = re.search(r'let (\w+) = crate::time::normalize\(&(\w+), "AS OF TIME"\)\?;\s*self\.store\.seq_at_time\(&self\.space, &(\w+)\)', ra)
    out.append('Definition as_of_time_passes_normalized_instant : bool := %s.\n' % b(bool(m) and m.group(1) == m.group(3)))
    matcher_norm = re.search(r'Slot::Value\(value\) if column_of\(kind, key\)\.is_some\(\) =>', fn_body(mt, 'match_element', G))
    out.append('Definition historical_matcher_normalizes_only_indexed_keys : bool := %s.\n' % b(bool(matcher_norm)))
    # ---- nexus.rs: Executor::execute for Session - which side of the RwLock each command family holds, and for how long
    nx = strip_rust_comments(read(repo, base + 'nexus.rs'))
    m = re.search(r'impl Executor for Session\s*\{(.*?)\n\}\n', nx, re.S)
    ex = m.group(1) if m else ''
    if not ex:
        lost(G, 'impl Executor for Session')
    arms = re.split(r'Command::(Kml|Kql|Meta)\(', ex)
    arm = {arms[i]: arms[i + 1] for i in range(1, len(arms) - 1, 2)}
    def holds(a, side, call):
        t = arm.get(a, '')
        g = t.find('let _guard = self.nexus.lock.%s().await;' % side)
        return 0 <= g < t.find(call) if call in t else False
    out.append('Definition kml_holds_write_lock_across_execute : bool := %s.\n' % b(holds('Kml', 'write', 'crate::kml::execute(')))
    out.append('Definition kql_holds_read_lock_across_execute : bool := %s.\n' % b(holds('Kql', 'read', 'crate::kql::execute(')))
    out.append('Definition meta_holds_read_lock_across_execute : bool := %s.\n' % b(holds('Meta', 'read', 'crate::meta::execute(')))
    return G, ''.join(out)
