"""Gen_Lifecycle: lifecycle constants, transition relation and per-API event lists of
`impl Collection` (rs/anda_db/src/collection.rs) — C06 (and the Gate instance used by C05).

Extracted (each with an anchor; a shape that is no longer recognised is a LOST-ANCHOR):
  (a) the LIFECYCLE_* constants;
  (b) every `compare_exchange(from, to)` / `.store(to)` on `self.lifecycle` together with the set of
      states guarding it (`from`): literal first argument, enclosing match arm, `matches!` early return,
      the last `match self.lifecycle.load()` whose other arms leave the function, `begin_delete()?` post-states;
  (c) for every fn of `impl Collection`: receiver, visibility, asyncness, the ordered list of events
      gate(shared|exclusive) / ensure_mutable / arm guard / await(callee, reaches-a-storage-write?) / disarm /
      lifecycle ops / poison, with `mutation_lease()` expanded in place, and whether the fn (transitively)
      reaches a storage write primitive;
  (d) the guard of `set_read_only`, every store into `read_only`, the order of the tests of `ensure_mutable`.
"""
import re
from trlib import *  # noqa: F401,F403

G = 'Gen_Lifecycle'
SRC = 'rs/anda_db/src/collection.rs'

# storage-level write primitives (anything that can change an object under the collection prefix)
STORAGE_WRITES = ('create', 'put', 'put_bytes', 'delete', 'drop_data', 'drop_prefix', 'store_metadata',
                  'to_writer', 'stream_writer')
# index-crate calls that write objects
INDEX_WRITE_RE = re.compile(
    r'\.\s*flush\s*\(\s*now_ms\s*\)|\.\s*compact_index\s*\(|\bBTree::new\s*\(|\bBTree::with_virtual_field\s*\(|'
    r'\bBM25::new\s*\(|\bHnsw::new\s*\(|\bindex\s*\.\s*drop_data\s*\(')


def match_brace(s, i):
    """s[i] == '{' -> index just after the matching '}' (strings respected)."""
    depth, n, in_str = 0, len(s), False
    while i < n:
        c = s[i]
        if in_str:
            if c == '\\':
                i += 1
            elif c == '"':
                in_str = False
        elif c == '"':
            in_str = True
        elif c == "'" and i + 2 < n and s[i + 2] == "'":
            i += 2
        elif c == '{':
            depth += 1
        elif c == '}':
            depth -= 1
            if depth == 0:
                return i + 1
        i += 1
    return n


def impl_block(src):
    m = re.search(r'^impl Collection \{', src, re.M)
    if not m:
        lost(G, 'impl Collection')
        return ''
    end = match_brace(src, m.end() - 1)
    return src[m.end():end - 1]


FN_RE = re.compile(r'^    (pub(?:\(crate\))?\s+)?(async\s+)?fn\s+(\w+)', re.M)


def functions(block):
    """[(name, vis, is_async, recv, body)] for the fns at depth 1 of the impl block."""
    out = []
    for m in FN_RE.finditer(block):
        # signature runs to the first '{' at paren depth 0 after the parameter list
        i = block.find('(', m.end())
        depth = 0
        while i < len(block):
            if block[i] == '(':
                depth += 1
            elif block[i] == ')':
                depth -= 1
                if depth == 0:
                    break
            i += 1
        params = block[block.find('(', m.end()) + 1:i]
        j = block.find('{', i)
        semi = block.find(';', i)
        if j < 0 or (0 <= semi < j):
            continue
        end = match_brace(block, j)
        body = block[j + 1:end - 1]
        p = params.strip()
        if re.match(r'&\s*mut\s+self\b', p):
            recv = 'RMut'
        elif re.match(r'&\s*self\b', p):
            recv = 'RRef'
        elif re.match(r'(mut\s+)?self\b', p):
            recv = 'RMut'
        else:
            recv = 'RNone'
        vis = (m.group(1) or '').strip()
        out.append((m.group(3), vis, bool(m.group(2)), recv, body))
    return out


TOKEN_RE = re.compile(
    r'(?P<lease>self\s*\.\s*mutation_lease\s*\(\s*\)\s*\.\s*await)'
    r'|(?P<gx>self\s*\.\s*operation_gate\s*\.\s*clone\s*\(\s*\)\s*\.\s*write_owned\s*\(\s*\)\s*\.\s*await)'
    r'|(?P<gs>self\s*\.\s*operation_gate\s*\.\s*clone\s*\(\s*\)\s*\.\s*read_owned\s*\(\s*\)\s*\.\s*await)'
    r'|(?P<gother>\boperation_gate\b)'
    r'|(?P<admit>self\s*\.\s*ensure_mutable\s*\(\s*\))'
    r'|(?P<arm>self\s*\.\s*cancel_guard\s*\()'
    r'|(?P<armraw>\bCancelGuard\s*\{)'
    r'|(?P<disarm>\.\s*disarm\s*\(\s*\))'
    r'|(?P<poison>self\s*\.\s*poison\s*\()'
    r'|(?P<lload>self\s*\.\s*lifecycle\s*\.\s*load\s*\()'
    r'|(?P<lcas>self\s*\.\s*lifecycle\s*\.\s*compare_exchange(?:_weak)?\s*\()'
    r'|(?P<lstore>self\s*\.\s*lifecycle\s*\.\s*(?:store|swap|fetch_\w+)\s*\()'
    r'|(?P<stor>self\s*\.\s*storage\s*\.\s*(?P<sname>\w+)\s*\()'
    r'|(?P<selfcall>\bself\s*\.\s*(?P<cname>\w+)\s*\()'
    r'|(?P<await>\.\s*await\b)')


def callee_before(body, pos):
    """Name of the call whose result is awaited at `pos` (the `.await`): last `ident(` whose
    parenthesis closes right before pos."""
    i = pos - 1
    while i >= 0 and body[i].isspace():
        i -= 1
    if i >= 0 and body[i] == '?':
        i -= 1
    if i < 0:
        return 'expr'
    if body[i] == ')':
        depth = 0
        while i >= 0:
            if body[i] == ')':
                depth += 1
            elif body[i] == '(':
                depth -= 1
                if depth == 0:
                    break
            i -= 1
        j = i - 1
        while j >= 0 and body[j].isspace():
            j -= 1
        # skip turbofish ::<..>
        if j >= 0 and body[j] == '>':
            d = 0
            while j >= 0:
                if body[j] == '>':
                    d += 1
                elif body[j] == '<':
                    d -= 1
                    if d == 0:
                        break
                j -= 1
            j -= 1
            while j >= 0 and body[j] in ': \n\t':
                j -= 1
        k = j
        while k >= 0 and (body[k].isalnum() or body[k] == '_'):
            k -= 1
        name = body[k + 1:j + 1]
        return name or 'expr'
    if body[i] == '}':
        return 'block'
    k = i
    while k >= 0 and (body[k].isalnum() or body[k] == '_'):
        k -= 1
    return body[k + 1:i + 1] or 'expr'


def raw_events(body):
    """Events of one fn body in source order: (kind, arg, position)."""
    evs = []
    for m in TOKEN_RE.finditer(body):
        k = m.lastgroup
        if k in ('sname', 'cname'):
            k = 'stor' if m.group('stor') else 'selfcall'
        if m.group('lease'):
            evs.append(('lease', '', m.start()))
        elif m.group('gx'):
            evs.append(('gx', '', m.start()))
        elif m.group('gs'):
            evs.append(('gs', '', m.start()))
        elif m.group('gother'):
            evs.append(('gother', '', m.start()))
        elif m.group('admit'):
            evs.append(('admit', '', m.start()))
        elif m.group('arm') or m.group('armraw'):
            evs.append(('arm', '', m.start()))
        elif m.group('disarm'):
            evs.append(('disarm', '', m.start()))
        elif m.group('poison'):
            evs.append(('poison', '', m.start()))
        elif m.group('lload'):
            evs.append(('lload', '', m.start()))
        elif m.group('lcas'):
            evs.append(('lcas', '', m.start()))
        elif m.group('lstore'):
            evs.append(('lstore', '', m.start()))
        elif m.group('stor'):
            evs.append(('stor', m.group('sname'), m.start()))
        elif m.group('selfcall'):
            evs.append(('selfcall', m.group('cname'), m.start()))
        elif m.group('await'):
            evs.append(('await', callee_before(body, m.start()), m.start()))
    return evs


def lifecycle_consts(src):
    cs = re.findall(r'^const (LIFECYCLE_\w+)\s*:\s*u8\s*=\s*(\d+)\s*;', src, re.M)
    if len(cs) < 2:
        lost(G, 'LIFECYCLE_* constants')
    return [(n, int(v)) for n, v in cs]


def arm_patterns_enclosing(body, pos):
    """Patterns `LIFECYCLE_A | LIFECYCLE_B =>` of the innermost match arm enclosing pos, or None."""
    depth = 0
    i = pos
    while i > 0:
        i -= 1
        c = body[i]
        if c == '}':
            depth += 1
        elif c == '{':
            if depth == 0:
                pre = body[:i].rstrip()
                m = re.search(r'((?:LIFECYCLE_\w+\s*\|\s*)*LIFECYCLE_\w+)\s*=>$', pre)
                if m:
                    return re.findall(r'LIFECYCLE_\w+', m.group(1))
            else:
                depth -= 1
    return None


def match_on_load_before(body, pos):
    """Last `match self.lifecycle.load(..) { arms }` that ends before pos -> (fallthrough patterns, has_wild_fallthrough)."""
    best = None
    for m in re.finditer(r'match\s+self\s*\.\s*lifecycle\s*\.\s*load\s*\([^)]*\)\s*\{', body):
        end = match_brace(body, m.end() - 1)
        if end <= pos:
            best = (m.end(), end - 1)
    if not best:
        return None
    arms_txt = body[best[0]:best[1]]
    fall = []
    wild = False
    # split arms at depth 0 on '=>'
    i = 0
    n = len(arms_txt)
    while i < n:
        m = re.compile(r'\s*((?:LIFECYCLE_\w+\s*\|\s*)*LIFECYCLE_\w+|_)\s*=>\s*').match(arms_txt, i)
        if not m:
            break
        j = m.end()
        if j < n and arms_txt[j] == '{':
            e = match_brace(arms_txt, j)
            arm_body = arms_txt[j:e]
            i = e
        else:
            e = j
            depth = 0
            while e < n and not (arms_txt[e] == ',' and depth == 0):
                if arms_txt[e] in '({[':
                    depth += 1
                elif arms_txt[e] in ')}]':
                    depth -= 1
                e += 1
            arm_body = arms_txt[j:e]
            i = e
        while i < n and arms_txt[i] in ', \n\t':
            i += 1
        leaves = re.search(r'\breturn\b', arm_body) is not None
        if not leaves:
            if m.group(1) == '_':
                wild = True
            else:
                fall += re.findall(r'LIFECYCLE_\w+', m.group(1))
    return fall, wild


def begin_delete_post(fns, names):
    """States in which `begin_delete()?` can return Ok: its CAS target + the arms that `break`."""
    body = fns.get('begin_delete')
    if body is None:
        lost(G, 'fn begin_delete')
        return list(names)
    post = set()
    for m in re.finditer(r'compare_exchange(?:_weak)?\s*\(\s*(\w+)\s*,\s*(LIFECYCLE_\w+)', body):
        post.add(m.group(2))
    for m in re.finditer(r'((?:LIFECYCLE_\w+\s*\|\s*)*LIFECYCLE_\w+)\s*=>\s*break', body):
        post.update(re.findall(r'LIFECYCLE_\w+', m.group(1)))
    if not post:
        lost(G, 'begin_delete post-states')
    return sorted(post)


def edges_of(name, body, fns, names):
    out = []
    for m in re.finditer(r'self\s*\.\s*lifecycle\s*\.\s*compare_exchange(?:_weak)?\s*\(\s*(\w+)\s*,\s*(\w+)\s*,', body):
        frm, to = m.group(1), m.group(2)
        if to not in names:
            lost(G, '%s: CAS target %s' % (name, to))
            continue
        if frm in names:
            out.append((name, 'KCas', [frm], to))
            continue
        pats = arm_patterns_enclosing(body, m.start())
        if pats is None:
            g = None
            for mm in re.finditer(r'if\s*!\s*matches!\s*\(\s*%s\s*,\s*((?:LIFECYCLE_\w+\s*\|\s*)*LIFECYCLE_\w+)\s*\)\s*\{\s*return' % re.escape(frm), body[:m.start()]):
                g = re.findall(r'LIFECYCLE_\w+', mm.group(1))
            pats = g
        if pats is None:
            lost(G, '%s: guard of compare_exchange(%s, %s)' % (name, frm, to))
            pats = list(names)
        out.append((name, 'KCas', pats, to))
    for m in re.finditer(r'self\s*\.\s*lifecycle\s*\.\s*(store|swap|fetch_\w+)\s*\(\s*(\w+)', body):
        to = m.group(2)
        if m.group(1) != 'store' or to not in names:
            lost(G, '%s: lifecycle.%s(%s) is not a recognised store of a constant' % (name, m.group(1), to))
            continue
        pats = arm_patterns_enclosing(body, m.start())
        if pats is None:
            r = match_on_load_before(body, m.start())
            if r is not None and not r[1]:
                pats = r[0]
        if pats is None:
            pre = body[:m.start()]
            if re.search(r'self\s*\.\s*begin_delete\s*\(\s*\)\s*\?', pre):
                base = begin_delete_post(fns, names)
            else:
                base = None
            excl = re.findall(r'if\s+self\s*\.\s*lifecycle\s*\.\s*load\s*\([^)]*\)\s*==\s*(LIFECYCLE_\w+)\s*\{\s*return', pre)
            if base is not None:
                pats = [s for s in base if s not in excl]
        if pats is None:
            lost(G, '%s: guard of lifecycle.store(%s)' % (name, to))
            pats = list(names)
        out.append((name, 'KStore', pats, to))
    return out


def generate(repo):
    full = strip_rust_comments(read(repo, SRC))
    cut = full.find('#[cfg(test)]\nmod tests')
    src = full if cut < 0 else full[:cut]
    consts = lifecycle_consts(src)
    names = [n for n, _ in consts]
    val = dict(consts)
    block = impl_block(src)
    fl = functions(block)
    fns = {n: b for n, _, _, _, b in fl}
    if len(fl) < 40:
        lost(G, 'functions of impl Collection (found %d)' % len(fl))

    # --- call graph / reaches-a-storage-write
    evs = {n: raw_events(b) for n, _, _, _, b in fl}
    direct = {}
    for n, _, _, _, b in fl:
        w = any(k == 'stor' and a in STORAGE_WRITES for k, a, _ in evs[n]) or INDEX_WRITE_RE.search(b) is not None
        direct[n] = w
    calls = {n: set(a for k, a, _ in evs[n] if k == 'selfcall' and a in fns) | ({'mutation_lease'} if any(k == 'lease' for k, _, _ in evs[n]) else set())
             for n in fns}
    # associated calls Self::x( / Collection::x(
    for n, _, _, _, b in fl:
        for m in re.finditer(r'\b(?:Self|Collection)::(\w+)\s*\(', b):
            if m.group(1) in fns:
                calls[n].add(m.group(1))
    writes = dict(direct)
    changed = True
    while changed:
        changed = False
        for n in fns:
            if not writes[n] and any(writes.get(c) for c in calls[n]):
                writes[n] = True
                changed = True

    async_of = {n: a for n, _, a, _, _ in fl}
    lease = evs.get('mutation_lease')
    if lease is None:
        lost(G, 'fn mutation_lease')
        lease = []
    lease_kinds = [k for k, _, _ in lease if k in ('gs', 'gx', 'admit', 'await')]
    if lease_kinds != ['gs', 'admit']:
        lost(G, 'mutation_lease shape (found %s)' % lease_kinds)

    def coq_events(n):
        out = []
        es = evs[n]
        body = fns[n]
        # positions covered by gate tokens contain their own `.await`
        for k, a, pos in es:
            if k == 'lease':
                for k2 in lease_kinds:
                    out.append({'gs': 'EGateS', 'gx': 'EGateX', 'admit': 'EAdmit', 'await': 'EAwait "lease" false'}[k2])
            elif k == 'gs':
                out.append('EGateS')
            elif k == 'gx':
                out.append('EGateX')
            elif k == 'gother':
                out.append('EGateOther')
            elif k == 'admit':
                out.append('EAdmit')
            elif k == 'arm':
                out.append('EArm')
            elif k == 'disarm':
                out.append('EDisarm')
            elif k == 'poison':
                out.append('EPoison')
            elif k == 'lload':
                out.append('ELoad')
            elif k == 'lcas':
                out.append('ECas')
            elif k == 'lstore':
                out.append('EStore')
            elif k == 'await':
                # does the awaited expression reach a storage write?
                # look at the statement text that ends at this await
                start = max(body.rfind(';', 0, pos), body.rfind('{', 0, pos), body.rfind('}', 0, pos)) + 1
                stmt = body[start:pos]
                w = False
                mm = None
                for mm in re.finditer(r'self\s*\.\s*storage\s*\.\s*(\w+)\s*\(', stmt):
                    pass
                if mm is not None and mm.group(1) in STORAGE_WRITES:
                    w = True
                if INDEX_WRITE_RE.search(stmt + '.await') or INDEX_WRITE_RE.search(stmt):
                    w = True
                for m2 in re.finditer(r'\bself\s*\.\s*(\w+)\s*\(', stmt):
                    if writes.get(m2.group(1)):
                        w = True
                for m2 in re.finditer(r'\b(?:Self|Collection)::(\w+)\s*\(', stmt):
                    if writes.get(m2.group(1)):
                        w = True
                if a == 'block':
                    # `async { .. }.await`: the block's own awaits are listed individually before it
                    w = False
                out.append('EAwait %s %s' % (coq_string(a).replace('%string', ''), 'true' if w else 'false'))
            elif k == 'selfcall':
                if a in ('begin_delete',):
                    out.append('EPublish')
                elif a in fns and a not in ('ensure_mutable', 'cancel_guard', 'poison', 'mutation_lease') and not async_of.get(a):
                    out.append('ECall %s %s' % (coq_string(a).replace('%string', ''), 'true' if writes.get(a) else 'false'))
        return out

    out = [HEADER,
           '(* source: %s *)\n' % SRC,
           'From Coq Require Import List String.\nFrom Verif Require Import Life.Model.\nImport ListNotations.\nOpen Scope string_scope.\n\n']
    out.append('Definition lifecycle_consts : list (string * nat) :=\n  [%s].\n' % '; '.join('("%s", %d)' % c for c in consts))
    for n, v in consts:
        out.append('Definition %s : nat := %d.\n' % (n, v))
    # --- edges
    edges = []
    for n, _, _, _, b in fl:
        edges += edges_of(n, b, fns, names)
    if not any(e[3] == 'LIFECYCLE_POISONED' for e in edges):
        lost(G, 'no transition into POISONED found')
    if not any(e[3] == 'LIFECYCLE_CLOSING' for e in edges):
        lost(G, 'no transition into CLOSING found')
    if not any(e[3] == 'LIFECYCLE_DELETING' for e in edges):
        lost(G, 'no transition into DELETING found')
    out.append('\nDefinition edges : list edge :=\n  [%s].\n' % ';\n   '.join(
        'mkEdge "%s" %s [%s] %d' % (f, k, '; '.join(str(val[s]) for s in frm), val[to]) for f, k, frm, to in edges))
    # initial value of the lifecycle word in every constructor
    inits = re.findall(r'lifecycle\s*:\s*AtomicU8::new\s*\(\s*(\w+)\s*\)', src)
    if not inits:
        lost(G, 'lifecycle initialiser')
    out.append('Definition lifecycle_inits : list nat := [%s].\n' % '; '.join(str(val.get(i, 99)) for i in inits))
    # any write to the lifecycle word outside the recognised forms (e.g. through a reference) is a lost anchor
    n_ops = len(re.findall(r'\blifecycle\s*\.\s*(?:store|swap|compare_exchange|compare_exchange_weak|fetch_\w+)\s*\(', src))
    if n_ops != len(edges):
        lost(G, 'lifecycle write sites: %d in source, %d recognised' % (n_ops, len(edges)))

    # --- apis
    out.append('\nDefinition apis : list api :=\n  [')
    rows = []
    for n, vis, is_async, recv, b in fl:
        es = coq_events(n)
        takes_gate = any(e in ('EGateS', 'EGateX') for e in es)
        rows.append('mkApi "%s" %s %s %s %s %s\n     [%s]' % (
            n, {'': 'VPriv', 'pub': 'VPub', 'pub(crate)': 'VCrate'}[vis.replace(' ', '')],
            'true' if is_async else 'false', recv, 'true' if writes[n] else 'false', 'true' if takes_gate else 'false',
            '; '.join(es)))
    out.append(';\n   '.join(rows))
    out.append('].\n')

    # --- set_read_only guard, read_only stores, ensure_mutable order
    sro = fns.get('set_read_only')
    if sro is None:
        lost(G, 'fn set_read_only')
        sro = ''
    st = re.search(r'self\s*\.\s*read_only\s*\.\s*store\s*\(\s*(\w+)', sro)
    pre = sro[:st.start()] if st else ''
    gm = re.search(r'if\s*!\s*read_only\s*&&\s*\((.*?)\)\s*\{(.*?)\}', pre, re.S)
    g_life = bool(gm and re.search(r'self\s*\.\s*lifecycle\s*\.\s*load\s*\([^)]*\)\s*!=\s*LIFECYCLE_ACTIVE', gm.group(1)))
    g_db = bool(gm and re.search(r'\|\|\s*self\s*\.\s*database_read_only\s*\.\s*load\s*\(', gm.group(1)))
    g_ret = bool(gm and re.search(r'\breturn\s*;', gm.group(2)))
    if not st:
        lost(G, 'set_read_only: store into read_only')
    out.append('\n(* set_read_only(v): `if !v && (lifecycle != ACTIVE || database_read_only) { return }` precedes the store *)\n')
    out.append('Definition sro_guard_lifecycle_active : bool := %s.\n' % ('true' if g_life else 'false'))
    out.append('Definition sro_guard_database_read_only : bool := %s.\n' % ('true' if g_db else 'false'))
    out.append('Definition sro_guard_returns_before_store : bool := %s.\n' % ('true' if g_ret else 'false'))
    stores = []
    for n, _, _, _, b in fl:
        for m in re.finditer(r'\b(database_)?read_only\s*\.\s*(?:store|swap|fetch_\w+|compare_exchange\w*)\s*\(\s*([^,)]+)', b):
            if m.group(1):
                continue
            stores.append((n, ' '.join(m.group(2).split())))
    out.append('Definition read_only_stores : list (string * string) :=\n  [%s].\n' % '; '.join('("%s", "%s")' % s for s in stores))
    if not stores:
        lost(G, 'read_only stores')
    em = fns.get('ensure_mutable')
    if em is None:
        lost(G, 'fn ensure_mutable')
        em = ''
    order = []
    for m in re.finditer(r'self\s*\.\s*(lifecycle|database_read_only|read_only)\s*\.\s*load\s*\([^)]*\)(\s*!=\s*LIFECYCLE_ACTIVE)?', em):
        order.append(m.group(1) + ('_ne_active' if m.group(2) else ''))
    errs = len(re.findall(r'return\s+Err\s*\(', em))
    out.append('Definition ensure_mutable_tests : list string := [%s].\n' % '; '.join('"%s"' % o for o in order))
    out.append('Definition ensure_mutable_error_returns : nat := %d.\n' % errs)
    if 'lifecycle_ne_active' not in order:
        lost(G, 'ensure_mutable: lifecycle test')
    # CancelGuard::drop poisons when armed; poison only from ACTIVE/CLOSING
    dm = re.search(r'impl Drop for CancelGuard<[^>]*>\s*\{', src)
    ok_drop = False
    if dm:
        body = src[dm.end():match_brace(src, dm.end() - 1)]
        ok_drop = re.search(r'if\s+self\s*\.\s*armed\s*\{\s*self\s*\.\s*collection\s*\.\s*poison\s*\(', body) is not None
    else:
        lost(G, 'impl Drop for CancelGuard')
    out.append('Definition cancel_guard_drop_poisons_when_armed : bool := %s.\n' % ('true' if ok_drop else 'false'))
    cg = fns.get('cancel_guard', '')
    out.append('Definition cancel_guard_created_armed : bool := %s.\n' % ('true' if re.search(r'armed\s*:\s*true', cg) else 'false'))
    return G, ''.join(out)
