#!/bin/bash
# Run every registered check once (quick tier by default) and summarise exit status and wall time.
cd /verif
TIER=${1:-quick}
OUT=.cache/runall_$TIER.log
: > $OUT
for p in $(python3 -c "import json; print(' '.join(c['property_id'] for c in json.load(open('MANIFEST.json'))['checks']))"); do
  s=$(date +%s)
  ./check $p --tier $TIER > .cache/run_$p.log 2>&1
  rc=$?
  e=$(date +%s)
  echo "$p exit=$rc wall=$((e-s))s $(grep -c '^VIOLATION' .cache/run_$p.log) violation(s) $(grep -c '^KNOWN-FINDING' .cache/run_$p.log) known" | tee -a $OUT
done
