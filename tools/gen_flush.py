"""Gen_Flush: order of backend calls in the object-store wrapper protocols (C07, C08).

Extracted from rs/anda_object_store/src/{sidecar,lib,encryption}.rs by position of the calls in the
function bodies (the bodies are straight-line async code; closures passed to update_meta_with are
textually nested at the place they run).  Every item has an anchor; a refactor that hides one is a
LOST-ANCHOR (broken obligation), never a silent pass.
"""
import re
from trlib import *  # noqa: F401,F403

G = 'Gen_Flush'


def block_after(src, pattern, gen, what):
    """Text of the brace block that starts at the first `{` after `pattern`."""
    m = re.search(pattern, src)
    if not m:
        lost(gen, what)
        return ''
    i = src.find('{', m.end() - 1)
    if i < 0:
        lost(gen, what)
        return ''
    depth, j, in_str = 0, i, False
    while j < len(src):
        c = src[j]
        if in_str:
            if c == '\\':
                j += 1
            elif c == '"':
                in_str = False
        elif c == '"':
            in_str = True
        elif c == '{':
            depth += 1
        elif c == '}':
            depth -= 1
            if depth == 0:
                return src[i + 1:j]
        j += 1
    lost(gen, what + ' (unbalanced)')
    return ''


def events(body, table, gen, what, required=()):
    """table: list of (event name, regex).  Returns event names ordered by first match position."""
    found = []
    for name, rx in table:
        ms = list(re.finditer(rx, body, re.S))
        if not ms:
            if name in required:
                lost(gen, '%s: %s' % (what, name))
            continue
        found.append((ms[0].start(), name))
    found.sort()
    return [n for _, n in found]


def all_positions(body, rx):
    return [m.start() for m in re.finditer(rx, body, re.S)]


def coq_list(xs):
    return '[' + '; '.join(xs) + ']'


def generate(repo):
    side = strip_rust_comments(read(repo, 'rs/anda_object_store/src/sidecar.rs'))
    lib = strip_rust_comments(read(repo, 'rs/anda_object_store/src/lib.rs'))
    enc = strip_rust_comments(read(repo, 'rs/anda_object_store/src/encryption.rs'))
    out = [HEADER, 'From Coq Require Import List String NArith.\nFrom Verif Require Import Store.Model.\nImport ListNotations.\n\n']

    # ---------------------------------------------------------------- sidecar core
    umw = fn_body(side, 'update_meta_with', G)
    umw_ev = events(umw, [
        ('EvReadMeta', r'self\s*\.\s*fetch_meta_bytes\s*\(\s*location\s*\)'),
        ('CALLBACK', r'\bf\s*\(\s*(?:Some\s*\(\s*&cur\s*\)|None)\s*\)'),
        ('EvPutMeta', r'\.put_opts\s*\(\s*&meta_path'),
        ('EvDelReplaced', r'self\s*\.\s*best_effort_delete\s*\(\s*&\w+\s*\)'),
    ], G, 'update_meta_with', required=('EvReadMeta', 'CALLBACK', 'EvPutMeta', 'EvDelReplaced'))
    # every invocation of the callback precedes the commit-point put
    putpos = all_positions(umw, r'\.put_opts\s*\(\s*&meta_path')
    cbpos = all_positions(umw, r'\bf\s*\(\s*(?:Some\s*\(\s*&cur\s*\)|None)\s*\)')
    if putpos and cbpos and max(cbpos) > min(putpos):
        umw_ev = [e for e in umw_ev if e != 'CALLBACK'] + ['CALLBACK']   # callback after the pointer: report it
    guarded = bool(re.search(r'\w+\s*!=\s*self\s*\.\s*payload_path\s*\(\s*location\s*,\s*rt\s*\.\s*generation\s*\(\s*\)\s*\)', umw))
    replaced_from_fresh_read = bool(re.search(
        r'\*\s*\w+\s*=\s*Some\s*\(\s*self\s*\.\s*payload_path\s*\(\s*location\s*,\s*cur\s*\.\s*generation\s*\(\s*\)\s*\)\s*\)', umw))
    create_rejects_existing = bool(re.search(r'if\s+create\s*\{\s*return\s+Err\s*\(\s*already_exists\s*\(\s*\)\s*\)', umw))
    create_forwards_mode = bool(re.search(r'if\s+create\s*\{\s*meta_mode\s*=\s*PutMode::Create', umw))
    in_section = bool(re.search(r'\.and_try_compute_with\s*\(', umw))

    dele = fn_body(side, 'delete_object', G)
    del_ev = events(dele, [
        ('EvReadMeta', r'self\s*\.\s*fetch_meta_bytes\s*\(\s*location\s*\)'),
        ('EvDelMeta', r'self\s*\.\s*store\s*\.\s*delete\s*\(\s*&self\s*\.\s*meta_path\s*\(\s*location\s*\)\s*\)'),
        ('EvDelPayload', r'self\s*\.\s*best_effort_delete\s*\(\s*&\w+\s*\)'),
    ], G, 'delete_object', required=('EvReadMeta', 'EvDelMeta', 'EvDelPayload'))

    cpp = fn_body(side, 'copy_payload', G)
    cpp_ev = events(cpp, [
        ('EvReadSrc', r'self\s*\.\s*get_meta\s*\(\s*from\s*\)'),
        ('EvMint', r'\bnew_generation\s*\(\s*\)'),
        ('EvRegister', r'self\s*\.\s*track_in_flight\s*\('),
        ('EvCopyPayload', r'\.copy_opts\s*\(\s*&src_path\s*,\s*&dst_path'),
    ], G, 'copy_payload', required=('EvReadSrc', 'EvMint', 'EvRegister', 'EvCopyPayload'))

    def expand_umw(closure_events):
        res = []
        for e in umw_ev:
            if e == 'CALLBACK':
                res.extend(closure_events)
            else:
                res.append(e)
        return res

    def wrapper(src, typ, uploader, tag):
        impl = block_after(src, r'impl\s*<\s*T\s*:\s*ObjectStore\s*>\s*ObjectStore\s+for\s+%s\s*<\s*T\s*>' % typ, G, tag + ' impl ObjectStore')
        put = fn_body(impl, 'put_opts', G)
        call = put.find('.update_meta_with(')
        if call < 0:
            lost(G, tag + ' put_opts: update_meta_with')
        outer = events(put[:call if call > 0 else 0], [
            ('EvMint', r'\bnew_generation\s*\(\s*\)'),
            ('EvRegister', r'\.track_in_flight\s*\('),
        ], G, tag + ' put_opts', required=('EvMint', 'EvRegister'))
        closure = events(put[call:], [
            ('EvCheckPre', r'\bcheck_update_version\s*\('),
            ('EvPutPayload', r'\.put_opts\s*\(\s*&gen_path'),
        ], G, tag + ' put_opts closure', required=('EvCheckPre', 'EvPutPayload'))
        put_ev = outer + expand_umw(closure) + ['EvUnregister']

        mp = fn_body(impl, 'put_multipart_opts', G)
        mp_ev = events(mp, [
            ('EvMint', r'\bnew_generation\s*\(\s*\)'),
            ('EvRegister', r'\.track_in_flight\s*\('),
            ('EvMpInit', r'\.put_multipart_opts\s*\(\s*&gen_path'),
        ], G, tag + ' put_multipart_opts', required=('EvMint', 'EvRegister', 'EvMpInit'))
        upl = block_after(src, r'impl\s*<\s*T\s*:\s*ObjectStore\s*>\s*MultipartUpload\s+for\s+%s\s*<\s*T\s*>' % uploader, G, tag + ' uploader impl')
        comp = fn_body(upl, 'complete', G)
        ccall = comp.find('.update_meta_with(')
        if ccall < 0:
            lost(G, tag + ' complete: update_meta_with')
        cclosure = events(comp[ccall:], [('EvMpComplete', r'\binner\s*\.\s*complete\s*\(\s*\)')], G, tag + ' complete closure',
                          required=('EvMpComplete',))
        mp_ev = mp_ev + expand_umw(cclosure) + ['EvUnregister']
        holds_guard = bool(re.search(r'_in_flight\s*:\s*in_flight', mp)) and bool(re.search(r'_in_flight\s*:\s*InFlightGuard', src))

        cp = fn_body(impl, 'copy_opts', G)
        cp_ev = []
        for e in events(cp, [('COPYPAYLOAD', r'\.copy_payload\s*\('), ('UMW', r'\.update_meta_with\s*\(')], G, tag + ' copy_opts',
                        required=('COPYPAYLOAD', 'UMW')):
            cp_ev.extend(cpp_ev if e == 'COPYPAYLOAD' else expand_umw([]))
        cp_ev.append('EvUnregister')
        guard_bound = bool(re.search(r'let\s*\(\s*src\s*,\s*generation\s*,\s*_in_flight\s*\)', cp))

        rn = fn_body(impl, 'rename_opts', G)
        rn_ev = events(rn, [
            ('SELF', r'if\s+from\s*==\s*to'),
            ('COPY', r'self\s*\.\s*copy_opts\s*\('),
            ('DELETE', r'self\s*\.\s*inner\s*\.\s*delete_object\s*\(\s*from\s*\)'),
        ], G, tag + ' rename_opts', required=('SELF', 'COPY', 'DELETE'))
        return put_ev, mp_ev, cp_ev, rn_ev, holds_guard, guard_bound

    for src, typ, upl, tag in ((lib, 'MetaStore', 'MetaStoreUploader', 'meta'), (enc, 'EncryptedStore', 'EncryptedStoreUploader', 'enc')):
        put_ev, mp_ev, cp_ev, rn_ev, holds_guard, guard_bound = wrapper(src, typ, upl, tag)
        out.append('Definition %s_put_events : list ev := %s.\n' % (tag, coq_list(put_ev)))
        out.append('Definition %s_multipart_events : list ev := %s.\n' % (tag, coq_list(mp_ev)))
        out.append('Definition %s_copy_events : list ev := %s.\n' % (tag, coq_list(cp_ev)))
        out.append('Definition %s_rename_order : list string := %s.\n' % (tag, coq_list(coq_string(x) for x in rn_ev)))
        out.append('Definition %s_uploader_holds_guard : bool := %s.\n' % (tag, 'true' if holds_guard else 'false'))
        out.append('Definition %s_copy_holds_guard : bool := %s.\n' % (tag, 'true' if guard_bound else 'false'))
        # conditional reads: where the read preconditions are evaluated relative to the stale-pointer retry loop
        impl = block_after(src, r'impl\s*<\s*T\s*:\s*ObjectStore\s*>\s*ObjectStore\s+for\s+%s\s*<\s*T\s*>' % typ, G, tag + ' impl ObjectStore')
        go = fn_body(impl, 'get_opts', G)
        lm = re.search(r'\bloop\s*\{', go)
        if not lm:
            lost(G, tag + ' get_opts: retry loop')
        lstart = lm.end() if lm else 0
        lbody = block_after(go, r'\bloop\s*(?=\{)', G, tag + ' get_opts: retry loop body') if lm else ''
        lend = lstart + len(lbody)
        occ = []
        for name, rx in (('RESOLVE', r'\.\s*get_meta\s*\(\s*location\s*\)'), ('CHECK', r'\bcheck_get_preconditions\s*\('),
                         ('FETCH', r'\.\s*store\s*\.\s*get_opts\s*\('), ('REFRESH', r'\.\s*refresh_meta\s*\(\s*location\s*\)')):
            ps = all_positions(go, rx)
            if not ps:
                lost(G, '%s get_opts: %s' % (tag, name))
            occ.extend((q, name) for q in ps)
        if lm:
            occ.append((lm.start(), 'LOOP'))
        occ.sort()
        order = [n for _, n in occ]
        inside = all(lstart <= q < lend for q, n in occ if n != 'LOOP')
        # the document an iteration serves is the one it resolved and checked: the refreshed document is not
        # carried into the next iteration, the options are re-derived from the caller's per iteration
        rebinds = bool(re.search(r'\bmeta\s*=\s*self\s*\.\s*inner\s*\.\s*refresh_meta', go))
        fresh_opts = bool(re.search(r'let\s+mut\s+options\s*=\s*options\s*\.\s*clone\s*\(\s*\)', lbody))
        check_on_iter_doc = bool(re.search(r'check_get_preconditions\s*\(\s*location\s*,\s*&mut\s+options\s*,\s*meta\s*\.\s*e_tag', lbody)) and \
            bool(re.search(r'let\s+meta\s*=\s*self\s*\.\s*inner\s*\.\s*get_meta\s*\(\s*location\s*\)', lbody))
        out.append('Definition %s_get_opts_order : list string := %s.\n' % (tag, coq_list(coq_string(x) for x in order)))
        out.append('Definition %s_get_check_in_retry_loop : bool := %s.\n\n' % (tag, 'true' if (inside and not rebinds and fresh_opts and check_on_iter_doc) else 'false'))

    out.append('Definition delete_events : list ev := %s.\n' % coq_list(del_ev))
    out.append('Definition update_meta_events : list string := %s.\n' % coq_list(coq_string(x) for x in umw_ev))
    out.append('Definition reclaim_guarded_by_neq : bool := %s.\n' % ('true' if guarded else 'false'))
    out.append('Definition replaced_from_fresh_read : bool := %s.\n' % ('true' if replaced_from_fresh_read else 'false'))
    out.append('Definition commit_in_key_section : bool := %s.\n' % ('true' if in_section else 'false'))
    out.append('Definition create_rejects_existing : bool := %s.\n' % ('true' if create_rejects_existing else 'false'))
    out.append('Definition create_forwards_mode : bool := %s.\n\n' % ('true' if create_forwards_mode else 'false'))

    # ---------------------------------------------------------------- garbage collector
    gc = fn_body(side, 'collect_garbage', G)
    mloop = re.search(r'for\s*\([^)]*\)\s*in\s+candidates', gc)
    loop = mloop.start() if mloop else -1
    if loop < 0:
        lost(G, 'collect_garbage: sweep loop')
        loop = 0
    phases = events(gc[:loop], [
        ('GcFloor', r'let\s+floor_ms\s*='),
        ('GcMark', r'self\s*\.\s*store\s*\.\s*list\s*\(\s*Some\s*\(\s*&self\s*\.\s*meta_prefix\s*\)\s*\)'),
        ('GcListGen', r'self\s*\.\s*store\s*\.\s*list\s*\(\s*Some\s*\(\s*&self\s*\.\s*gen_prefix\s*\)\s*\)'),
        ('GcListData', r'self\s*\.\s*store\s*\.\s*list\s*\(\s*Some\s*\(\s*&self\s*\.\s*data_prefix\s*\)\s*\)'),
    ], G, 'collect_garbage', required=('GcMark', 'GcListGen', 'GcListData'))
    sweep = events(gc[loop:], [
        ('GcCheckInFlight', r'self\s*\.\s*is_in_flight\s*\('),
        ('GcRecheck', r'self\s*\.\s*is_referenced\s*\('),
        ('GcDelete', r'self\s*\.\s*store\s*\.\s*delete\s*\(\s*&full_path\s*\)'),
    ], G, 'collect_garbage sweep', required=('GcRecheck', 'GcDelete'))
    # the re-read of the commit point is the sole condition of its `if` (no candidate is exempted from it)
    recheck_unconditional = bool(re.search(r'if\s+self\s*\.\s*is_referenced\s*\(', gc[loop:]))
    floor_guard = bool(re.search(r'if\s+ts\s*>=\s*floor_ms\s*\{[^}]*continue', gc, re.S))
    skips_marked = bool(re.search(r'Some\s*\(\s*PayloadRef::Generation\s*\(\s*g\s*\)\s*\)\s*if\s*\*g\s*==\s*generation\s*=>\s*continue', gc))
    isref = fn_body(side, 'is_referenced', G)
    recheck_reads_backend = bool(re.search(r'self\s*\.\s*fetch_meta_bytes\s*\(\s*location\s*\)', isref)) and \
        bool(re.search(r'meta\s*\.\s*generation\s*\(\s*\)\s*==\s*generation', isref))
    tif = fn_body(side, 'track_in_flight', G)
    registers = bool(re.search(r'lock_in_flight\s*\(\s*&self\s*\.\s*in_flight\s*\)\s*\.\s*insert\s*\(', tif))
    drop = block_after(side, r'impl\s+Drop\s+for\s+InFlightGuard', G, 'impl Drop for InFlightGuard')
    unregisters = bool(re.search(r'\.remove\s*\(\s*&self\s*\.\s*key\s*\)', drop))
    out.append('Definition gc_phases : list gc_ev := %s.\n' % coq_list(phases))
    out.append('Definition gc_sweep : list gc_ev := %s.\n' % coq_list(sweep))
    out.append('Definition gc_recheck_unconditional : bool := %s.\n' % ('true' if recheck_unconditional else 'false'))
    out.append('Definition gc_floor_guard : bool := %s.\n' % ('true' if floor_guard else 'false'))
    out.append('Definition gc_skips_marked : bool := %s.\n' % ('true' if skips_marked else 'false'))
    out.append('Definition gc_recheck_reads_backend : bool := %s.\n' % ('true' if recheck_reads_backend else 'false'))
    out.append('Definition guard_registers : bool := %s.\n' % ('true' if registers else 'false'))
    out.append('Definition guard_drop_unregisters : bool := %s.\n\n' % ('true' if unregisters else 'false'))

    # ---------------------------------------------------------------- metadata cache discipline (C07)
    le = fn_body(side, 'listing_entry', G)
    listing_inserts = bool(re.search(r'meta_cache\s*\.\s*(insert|entry)\s*\(', le))
    gm = fn_body(side, 'get_meta', G)
    rm = fn_body(side, 'refresh_meta', G)
    def in_section(body):
        i = body.find('.and_try_compute_with(')
        j = body.find('self.load_meta(')
        return i >= 0 and j > i and 'self.load_meta(' not in body[:i]
    loads_in_section = in_section(gm) and in_section(rm)
    out.append('Definition listing_inserts_cache : bool := %s.\n' % ('true' if listing_inserts else 'false'))
    out.append('Definition loads_in_key_section : bool := %s.\n\n' % ('true' if loads_in_section else 'false'))
    # ---------------------------------------------------------------- constants used by C07
    m = re.search(r'const\s+DEFAULT_CHUNK_SIZE\s*:\s*u64\s*=\s*([0-9_ *]+);', enc)
    if m:
        val = 1
        for f in m.group(1).split('*'):
            val *= int(f.strip().replace('_', ''))
        out.append('Definition default_chunk_size : N := %d%%N.\n' % val)
    else:
        lost(G, 'DEFAULT_CHUNK_SIZE')
    # order of the three tests in validate_ranges and in check_update_version / check_get_preconditions
    vr = fn_body(lib, 'validate_ranges', G)
    vr_ev = events(vr, [
        ('"start>=len"', r'range\s*\.\s*start\s*>=\s*len'),
        ('"end<=start"', r'range\s*\.\s*end\s*<=\s*range\s*\.\s*start'),
        ('"end>len"', r'range\s*\.\s*end\s*>\s*len'),
    ], G, 'validate_ranges', required=('"start>=len"', '"end<=start"', '"end>len"'))
    out.append('Definition validate_ranges_order : list string := %s.\n' % coq_list(x + '%string' for x in vr_ev))
    cuv = fn_body(lib, 'check_update_version', G)
    cuv_ev = events(cuv, [
        ('"missing_etag"', r'let\s+Some\s*\(\s*expected\s*\)\s*=\s*&update\s*\.\s*e_tag\s+else'),
        ('"etag_mismatch"', r'current_e_tag\s*\.\s*as_ref\s*\(\s*\)\s*!=\s*Some\s*\(\s*expected\s*\)'),
        ('"version_mismatch"', r'current_generation\s*\.\s*as_ref\s*\(\s*\)\s*!=\s*Some\s*\(\s*version\s*\)'),
    ], G, 'check_update_version', required=('"missing_etag"', '"etag_mismatch"', '"version_mismatch"'))
    out.append('Definition check_update_order : list string := %s.\n' % coq_list(x + '%string' for x in cuv_ev))
    cgp = fn_body(lib, 'check_get_preconditions', G)
    cgp_ev = events(cgp, [
        ('"if_match"', r'if\s+let\s+Some\s*\(\s*if_match\s*\)\s*=\s*if_match'),
        ('"if_unmodified_since"', r'options\s*\.\s*if_unmodified_since\s*\.\s*take\s*\(\s*\)'),
        ('"if_none_match"', r'if\s+let\s+Some\s*\(\s*if_none_match\s*\)\s*=\s*if_none_match'),
        ('"if_modified_since"', r'options\s*\.\s*if_modified_since\s*\.\s*take\s*\(\s*\)'),
    ], G, 'check_get_preconditions', required=('"if_match"', '"if_unmodified_since"', '"if_none_match"', '"if_modified_since"'))
    out.append('Definition get_precondition_order : list string := %s.\n' % coq_list(x + '%string' for x in cgp_ev))
    etag_clears_dates = bool(re.search(r'options\s*\.\s*if_unmodified_since\s*=\s*None', cgp)) and \
        bool(re.search(r'options\s*\.\s*if_modified_since\s*=\s*None', cgp))
    out.append('Definition etag_condition_clears_date : bool := %s.\n' % ('true' if etag_clears_dates else 'false'))
    unmod_strict = bool(re.search(r'last_modified\s*>\s*date', cgp))
    mod_nonstrict = bool(re.search(r'last_modified\s*<=\s*date', cgp))
    out.append('Definition date_comparisons_as_modelled : bool := %s.\n' % ('true' if unmod_strict and mod_nonstrict else 'false'))
    # e_tag derivation: the generation (MetaStore) / the per-commit nonce (EncryptedStore) is hashed first
    mput = fn_body(block_after(lib, r'impl\s*<\s*T\s*:\s*ObjectStore\s*>\s*ObjectStore\s+for\s+MetaStore\s*<\s*T\s*>', G, 'meta impl'), 'put_opts', G)
    meta_seed = bool(re.search(r'Sha3_256::new\s*\(\s*\)\s*;\s*hasher\s*\.\s*update\s*\(\s*generation\s*\.\s*as_bytes\s*\(\s*\)\s*\)', mput))
    eput = fn_body(block_after(enc, r'impl\s*<\s*T\s*:\s*ObjectStore\s*>\s*ObjectStore\s+for\s+EncryptedStore\s*<\s*T\s*>', G, 'enc impl'), 'put_opts', G)
    enc_seed = bool(re.search(r'Sha3_256::new\s*\(\s*\)\s*;\s*hasher\s*\.\s*update\s*\(\s*base_nonce\s*\)', eput))
    dce = fn_body(lib, 'derive_copy_e_tag', G)
    copy_seed = bool(re.search(r'Sha3_256::new\s*\(\s*\)\s*;\s*hasher\s*\.\s*update\s*\(\s*generation\s*\.\s*as_bytes\s*\(\s*\)\s*\)', dce))
    out.append('Definition etag_seeded_by_commit_id : bool := %s.\n' % ('true' if meta_seed and enc_seed and copy_seed else 'false'))
    return G, ''.join(out)
