"""Gen_Bm25: facts about rs/anda_db_tfs/src/{bm25,query,tokenizer}.rs the C11 theorems are stated over.

Not a translation of the code: the order of the durable writes of flush_with, where the flush
generation comes from, what load_buckets reads, the arms of compare_scored_docs, the AND
partition predicate, the liveness filter of score_term, the noise-token length and the
NOT-complement guard — each with an anchor that is reported as lost when the shape changes."""
import re
from trlib import *  # noqa: F401,F403


def _norm(s):
    return ' '.join(s.split())


def generate(repo):
    g = 'Gen_Bm25'
    src = strip_rust_comments(read(repo, 'rs/anda_db_tfs/src/bm25.rs'))
    tok = strip_rust_comments(read(repo, 'rs/anda_db_tfs/src/tokenizer.rs'))
    out = [HEADER, 'From Coq Require Import List String ZArith.\nImport ListNotations.\nOpen Scope string_scope.\n\n',
           'Inductive flush_stage := FWriteBuckets | FCommitMeta | FPublishSaved.\n\n']

    # ---- flush_with: order of the awaited durable writes and of the in-memory publication
    fl = fn_body(src, 'flush_with', g)
    if fl:
        pos = {}
        m = re.search(r'for\s+snapshot\s+in\s+dirty\s*\{\s*f\s*\(', fl)
        pos['FWriteBuckets'] = m.start() if m else -1
        m = re.search(r'metadata_f\s*\(\s*meta_buf\s*\)\s*\.await', fl)
        pos['FCommitMeta'] = m.start() if m else -1
        m = re.search(r'self\s*\.\s*mark_bucket_saved\s*\(', fl)
        pos['FPublishSaved'] = m.start() if m else -1
        for k, v in pos.items():
            if v < 0:
                lost(g, 'flush_with.' + k)
        order = [k for k, v in sorted(pos.items(), key=lambda kv: kv[1]) if v >= 0]
        out.append('Definition flush_order : list flush_stage := [%s].\n' % '; '.join(order))
        # every awaited bucket write happens before the manifest commit and there is a single commit
        out.append('Definition flush_meta_commits : nat := %d.\n' % len(re.findall(r'metadata_f\s*\(', fl)))
        m = re.search(r'let\s+generation\s*=\s*([^;]+);', fl)
        if not m:
            lost(g, 'flush_with.generation')
        else:
            out.append('Definition flush_generation_expr : string := %s.\n' % coq_string(_norm(m.group(1))))
        m = re.search(r'if\s+has_dirty\s*&&\s*!\s*self\.has_pending_metadata_flush\(\)\s*\{\s*self\.update_metadata\(\|m\|\s*m\.stats\.version\s*\+=\s*1\s*\)', fl)
        out.append('Definition flush_forces_fresh_version : bool := %s.\n' % ('true' if m else 'false'))
        m = re.search(r'manifest\.get\(id\)\s*!=\s*Some\(generation\)', fl)
        out.append('Definition obsolete_is_committed_minus_new : bool := %s.\n' % ('true' if m else 'false'))
        m = re.search(r'manifest\.insert\(id,\s*generation\)', fl) and re.search(r'manifest\.insert\(id,\s*\*committed_generation\)', fl)
        out.append('Definition manifest_dirty_new_clean_committed : bool := %s.\n' % ('true' if m else 'false'))
    # ---- load_buckets: with a manifest, exactly the referenced objects are read
    lb = fn_body(src, 'load_buckets', g)
    if lb:
        m = re.search(r'manifest\s*\.iter\(\)\s*\.map\(\|\(bucket_id,\s*generation\)\|\s*BucketObject\s*\{\s*bucket_id:\s*\*bucket_id,\s*generation:\s*\*generation,?\s*\}\)', lb)
        out.append('Definition load_reads_manifest_objects : bool := %s.\n' % ('true' if m else 'false'))
        if not m:
            lost(g, 'load_buckets.manifest-objects')
        m = re.search(r'posting\.1\.retain\(\|entry\|\s*\{\s*if\s+let\s+Some\(token_count\)\s*=\s*doc_token_lengths\.get\(&entry\.0\)', lb)
        out.append('Definition load_prunes_entries_without_length : bool := %s.\n' % ('true' if m else 'false'))
    # ---- compare_scored_docs: the four arms, verbatim
    cmpf = fn_body(src, 'compare_scored_docs', g)
    if cmpf:
        arms = re.findall(r'\(\s*(true|false)\s*,\s*(true|false)\s*\)\s*=>\s*(.*?),\s*(?=\(|\})', cmpf, re.S)
        if len(arms) != 4:
            lost(g, 'compare_scored_docs.arms')
        out.append('Definition compare_arms : list (string * string * string) := [\n  %s].\n' % ';\n  '.join(
            '(%s, %s, %s)' % (coq_string(a), coq_string(b), coq_string(_norm(c))) for a, b, c in arms))
        m = re.search(r'match\s*\(\s*a\.1\.is_nan\(\)\s*,\s*b\.1\.is_nan\(\)\s*\)', cmpf)
        out.append('Definition compare_scrutinee_is_nan_pair : bool := %s.\n' % ('true' if m else 'false'))
    # ---- top_k_results
    tk = fn_body(src, 'top_k_results', g)
    if tk:
        steps = []
        for name, rx in (('select_nth', r'select_nth_unstable_by\(\s*top_k\s*-\s*1\s*,\s*Self::compare_scored_docs\s*\)'),
                         ('truncate', r'results\.truncate\(\s*top_k\s*\)'),
                         ('sort', r'results\.sort(?:_unstable)?_by\(\s*Self::compare_scored_docs\s*\)')):
            m = re.search(rx, tk)
            if not m:
                lost(g, 'top_k_results.' + name)
            else:
                steps.append((m.start(), name))
        out.append('Definition top_k_steps : list string := [%s].\n' % '; '.join(coq_string(n) for _, n in sorted(steps)))
        m = re.search(r'if\s+results\.len\(\)\s*>\s*top_k', tk)
        out.append('Definition top_k_selects_only_when_longer : bool := %s.\n' % ('true' if m else 'false'))
    # ---- score_and: the positives / negatives split
    sa = fn_body(src, 'score_and', g)
    if sa:
        m = re.search(r'\.partition\(\|q\|\s*!\s*matches!\(q,\s*QueryType::Not\(_\)\)\)', sa)
        out.append('Definition and_partitions_on_not : bool := %s.\n' % ('true' if m else 'false'))
        if not m:
            lost(g, 'score_and.partition')
        m = re.search(r'let\s+skip_negatives\s*=\s*if\s+positives\.is_empty\(\)\s*\{\s*1\s*\}\s*else\s*\{\s*0\s*\}', sa)
        out.append('Definition and_skips_first_negative_when_no_positive : bool := %s.\n' % ('true' if m else 'false'))
        m = re.search(r'let\s+excluded\s*=\s*self\.execute_query\(subquery,\s*params,\s*true\)', sa)
        out.append('Definition and_subtracts_negated_operand : bool := %s.\n' % ('true' if m else 'false'))
    sn = fn_body(src, 'score_not', g)
    if sn:
        m = re.search(r'let\s+exclude\s*=\s*self\.execute_query\(subquery,\s*params,\s*false\)', sn)
        out.append('Definition not_evaluates_operand_unnegated : bool := %s.\n' % ('true' if m else 'false'))
        m = re.search(r'for\s+entry\s+in\s+self\.doc_tokens\.iter\(\)', sn)
        out.append('Definition not_complements_within_doc_tokens : bool := %s.\n' % ('true' if m else 'false'))
    # ---- score_term: postings are filtered through doc_tokens; tokens are accumulated in sorted order
    st = fn_body(src, 'score_term', g)
    if st:
        m = re.search(r'if\s+let\s+Some\(\w+\)\s*=\s*self\.doc_tokens\.get\(doc_id\)\s*\{\s*\w+\.insert', st)
        out.append('Definition term_filters_through_doc_tokens : bool := %s.\n' % ('true' if m else 'false'))
        if not m:
            lost(g, 'score_term.doc_tokens-filter')
        m = re.search(r'query_tokens\.sort_unstable\(\)\s*;\s*for\s+query_token\s+in\s+query_tokens', st)
        out.append('Definition term_accumulates_in_sorted_token_order : bool := %s.\n' % ('true' if m else 'false'))
    # ---- collect_tokens: noise filter
    ct = fn_body(tok, 'collect_tokens', g)
    if ct:
        m = re.search(r'if\s+token\.text\.len\(\)\s*<=\s*(\d+)\s*\{\s*continue', ct)
        if not m:
            lost(g, 'collect_tokens.noise-length')
        else:
            out.append('Definition noise_token_max_len : nat := %s.\n' % m.group(1))
    m = re.search(r'const\s+MAX_NOT_COMPLEMENT_DOCS\s*:\s*usize\s*=\s*([0-9_]+)\s*;', src)
    if not m:
        lost(g, 'MAX_NOT_COMPLEMENT_DOCS')
    else:
        out.append('Definition max_not_complement_docs : Z := %s%%Z.\n' % m.group(1).replace('_', ''))
    # ---- compaction runs under the exclusive side of the gate every mutation takes shared
    gates = {}
    for fn in ('insert', 'remove', 'purge_ids', 'compact_buckets'):
        b = fn_body(src, fn, g)
        m = re.search(r'self\.mutation_gate\.(read|write)\(\)', b or '')
        gates[fn] = m.group(1) if m else 'none'
    out.append('Definition gate_sides : list (string * string) := [%s].\n' % '; '.join(
        '(%s, %s)' % (coq_string(k), coq_string(v)) for k, v in gates.items()))
    return g, ''.join(out)
