#!/usr/bin/env python3
"""Run checks against a seeded change applied to /repo itself, then undo it.

  tools/seedrepo.py <seed-dir> <Cnn> [<Cnn> ...]

Applies <seed-dir>/patch.diff with `git -C /repo apply`, runs `./check Cnn` for each property, restores
/repo (`git checkout -- .`) and the committed evidence files, and records the outcome in
<seed-dir>/check_results.json (+ the replay files).  Nothing else may be using /repo meanwhile.
"""
import json
import os
import shutil
import subprocess
import sys
import time


def sh(cmd, **kw):
    return subprocess.run(cmd, shell=True, stdout=subprocess.PIPE, stderr=subprocess.STDOUT, **kw)


def main():
    seed_dir = os.path.abspath(sys.argv[1])
    props = sys.argv[2:]
    name = os.path.basename(seed_dir.rstrip('/'))
    st = sh('git -C /repo status --short').stdout.decode().strip()
    if st:
        print('REFUSING: /repo is dirty:\n' + st)
        sys.exit(2)
    r = sh('git -C /repo apply %s/patch.diff' % seed_dir)
    if r.returncode:
        print('PATCH DOES NOT APPLY on current HEAD:', r.stdout.decode())
        sys.exit(2)
    results = json.load(open(seed_dir + '/check_results.json')) if os.path.exists(seed_dir + '/check_results.json') else {}
    try:
        for p in props:
            ev = '/verif/evidence/%s.json' % p
            bak = '/verif/.cache/evidence_bak_%s.json' % p
            if os.path.exists(ev):
                shutil.copy(ev, bak)
            t0 = time.time()
            r = subprocess.run(['/verif/check', p, '--tier', 'quick'], stdout=subprocess.PIPE, stderr=subprocess.PIPE, cwd='/verif')
            out = r.stdout.decode()
            lines = [l for l in out.splitlines() if l.startswith('VIOLATION') or l.startswith('KNOWN-FINDING')]
            vio = [l for l in lines if l.startswith('VIOLATION')]
            caught = r.returncode != 0 and bool(vio)
            with_input = any('no-failing-input-found' not in l for l in vio)
            classes = []
            for l in vio:
                path = l.split('replay=')[1].split()[0]
                try:
                    rep = json.load(open(path))
                    classes.append(rep.get('class'))
                    shutil.copy(path, os.path.join(seed_dir, 'replay_' + os.path.basename(path)))
                except Exception:
                    pass
            results[p] = {'exit': r.returncode, 'caught': caught, 'failing_input_found': with_input, 'classes': classes,
                          'violation_lines': vio, 'wall_s': round(time.time() - t0), 'on': 'git -C /repo apply',
                          'stderr_tail': r.stderr.decode().splitlines()[-2:]}
            print('%s %s on %s: exit=%d classes=%s input=%s (%ds)' % ('CAUGHT' if caught else 'MISSED', p, name, r.returncode,
                                                                      classes, with_input, time.time() - t0), flush=True)
            if os.path.exists(bak):
                shutil.copy(bak, ev)
    finally:
        sh('git -C /repo checkout -- .')
        json.dump(results, open(seed_dir + '/check_results.json', 'w'), indent=1)
    st = sh('git -C /repo status --short').stdout.decode().strip()
    if st:
        print('WARNING: /repo not clean after restore:\n' + st)


if __name__ == '__main__':
    main()
