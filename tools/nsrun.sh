#!/bin/bash
# Run a command with a modified copy of the repository mounted at /repo, in a private mount namespace.
#   tools/nsrun.sh <worktree-or-patch.diff> <name> -- <command...>     e.g.  tools/nsrun.sh seeded/C10-a/patch.diff c10a -- ./check C10
# Inside the namespace /repo is the modified tree and /verif/{coq,evidence,replays,.cache} are private
# (the cargo target dir is an overlayfs over /verif/.cache/target: nothing is copied, only the changed crates
# rebuild into a private upper layer). Nothing outside the namespace is touched.
# ALWAYS clean up when the run has been read:  tools/nsrun.sh --clean <name>
if [ "$1" = "--clean" ]; then
  git -C /repo worktree remove --force /tmp/nsrun/$2/wt 2>/dev/null
  rm -rf /tmp/nsrun/$2
  git -C /repo worktree prune
  exit 0
fi
SRC="$1"; NAME="$2"; shift 3
ALT=/tmp/nsrun/$NAME
mkdir -p $ALT
if [ -d "$SRC" ]; then WT="$SRC"; else
  WT=$ALT/wt
  git -C /repo worktree remove --force $WT 2>/dev/null || true
  git -C /repo worktree add -q $WT HEAD || exit 2
  git -C $WT apply "$(realpath $SRC)" || { echo "[nsrun] patch does not apply"; exit 2; }
fi
mkdir -p $ALT/cache/target $ALT/evidence $ALT/replays $ALT/ov_upper $ALT/ov_work
rsync -a --delete /verif/coq/ $ALT/coq/
cp -f /verif/evidence/*.json $ALT/evidence/ 2>/dev/null || true
export NS_WT=$WT NS_ALT=$ALT
unshare -m bash -c '
  if [ ! -e $NS_ALT/cache/target/debug ]; then
    mount -t overlay overlay -o lowerdir=/verif/.cache/target,upperdir=$NS_ALT/ov_upper,workdir=$NS_ALT/ov_work $NS_ALT/cache/target || exit 3
  fi
  mount --bind $NS_WT /repo
  # cargo freshness is mtime-based and workspace crates hash the same in every checkout: make sure nothing built
  # from another tree (e.g. /repo with a patch applied) in the shared lower layer is mistaken for fresh
  find /repo/rs -name '*.rs' -newermt '1970-01-01' -print0 | xargs -0 touch
  mount --bind $NS_ALT/coq /verif/coq
  mount --rbind $NS_ALT/cache /verif/.cache
  mount --bind $NS_ALT/evidence /verif/evidence
  mount --bind $NS_ALT/replays /verif/replays
  cd /verif && "$@"' bash "$@"
rc=$?
echo "[nsrun] exit=$rc; private outputs under $ALT (evidence/, replays/). Clean up NOW if you are done: tools/nsrun.sh --clean $NAME"
exit $rc
