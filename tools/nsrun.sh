#!/bin/bash
# Run a command with a modified copy of the repository mounted at /repo, in a private mount namespace.
#   tools/nsrun.sh <worktree-or-patch.diff> <name> -- <command...>     e.g.  tools/nsrun.sh seeded/C10-a/patch.diff c10a -- ./check C10
# Inside the namespace /repo is the modified tree and /verif/{coq,evidence,replays,.cache} are private copies
# (the cargo target dir is copied from /verif/.cache/target, so only the changed crates rebuild). Nothing
# outside the namespace is touched: /repo, the real evidence files and the shared build caches stay as they are.
set -e
SRC="$1"; NAME="$2"; shift 3
ALT=/tmp/nsrun/$NAME
mkdir -p $ALT
if [ -d "$SRC" ]; then WT="$SRC"; else
  WT=$ALT/wt
  git -C /repo worktree remove --force $WT 2>/dev/null || true
  git -C /repo worktree add -q $WT HEAD
  git -C $WT apply "$(realpath $SRC)"
fi
mkdir -p $ALT/cache $ALT/evidence $ALT/replays
rsync -a --delete /verif/coq/ $ALT/coq/
if [ ! -d $ALT/cache/target ]; then cp -a /verif/.cache/target $ALT/cache/target; fi
cp -f /verif/evidence/*.json $ALT/evidence/ 2>/dev/null || true
export NS_WT=$WT NS_ALT=$ALT
set +e
unshare -m bash -c '
  mount --bind $NS_WT /repo
  mount --bind $NS_ALT/coq /verif/coq
  mount --bind $NS_ALT/cache /verif/.cache
  mount --bind $NS_ALT/evidence /verif/evidence
  mount --bind $NS_ALT/replays /verif/replays
  cd /verif && "$@"' bash "$@"
rc=$?
echo "[nsrun] exit=$rc; private outputs under $ALT (evidence/, replays/). Remove with: git -C /repo worktree remove --force $ALT/wt; rm -rf $ALT"
exit $rc
