"""Gen_Crypto: what EncryptedStore authenticates and what its read paths consult (C09).

Extracted from rs/anda_object_store/src/encryption.rs (+ sidecar.rs):
  * the fields of `struct Metadata` (with their serde names);
  * the statements of `metadata_auth_aad`, in order, as a list of layout items (the Coq encoder is an
    interpreter of that list, so the injectivity theorem is re-checked against the current layout);
  * the fields read by verify_metadata / chunk_aad_version / read_chunk_size / get_opts / get_ranges /
    create_decryption_stream / copy_opts and, through the SidecarMeta accessors, by the listing;
  * CHUNK_AAD_* constants, the chunk AAD domain string and statement order, the nonce-derivation
    parameters (counter byte range, endianness, wrapping add), the stripped-field downgrade rule.
"""
import re
from trlib import *  # noqa: F401,F403

FIELD = {
    'size': 'F_size', 'e_tag': 'F_etag', 'original_tag': 'F_otag', 'original_version': 'F_over',
    'aes_nonce': 'F_nonce', 'aes_tags': 'F_tags', 'chunk_size': 'F_cs', 'chunk_aad_version': 'F_av',
    'auth_nonce': 'F_an', 'auth_tag': 'F_at', 'generation': 'F_gen', 'committed_at_ms': 'F_ms',
}


def struct_fields(src, g):
    m = re.search(r'pub struct Metadata\s*\{(.*?)\n\}', src, re.S)
    if not m:
        lost(g, 'struct Metadata')
        return []
    out = []
    for fm in re.finditer(r'#\[serde\(rename\s*=\s*"(\w+)"[^\]]*\)\]\s*(?:pub(?:\([^)]*\))?\s+)?(\w+)\s*:\s*([^,\n]+),', m.group(1)):
        out.append((fm.group(2), fm.group(1), fm.group(3).strip()))
    if not out:
        lost(g, 'struct Metadata fields')
    return out


def parse_layout(body, g):
    """Statements of metadata_auth_aad -> layout items (Coq text)."""
    items = []
    s = body
    # drop the prologue/epilogue
    s = re.sub(r'^\s*let\s+mut\s+aad\s*(?::\s*Vec<u8>\s*)?=\s*Vec::(?:new\(\)|with_capacity\([^)]*\))\s*;', '', s.strip())
    s = re.sub(r'\baad\s*$', '', s.strip()).strip()
    pos = 0
    pats = [
        (r'aad\.extend_from_slice\(\s*b"([^"]*)"\s*\)\s*;', lambda m: 'ILit %s' % coq_string(m.group(1))),
        (r'push_bytes\(\s*&mut aad\s*,\s*location\.to_string\(\)\.as_bytes\(\)\s*\)\s*;', lambda m: 'IBytes F_loc'),
        (r'push_bytes\(\s*&mut aad\s*,\s*location\.as_ref\(\)\.as_bytes\(\)\s*\)\s*;', lambda m: 'IBytes F_loc'),
        (r'aad\.extend_from_slice\(\s*&\(\s*meta\.(\w+)\.len\(\)\s+as\s+u64\s*\)\.to_le_bytes\(\)\s*\)\s*;\s*'
         r'for\s+(\w+)\s+in\s+&meta\.(\w+)\s*\{\s*push_bytes\(\s*&mut aad\s*,\s*\2\.as_slice\(\)\s*\)\s*;\s*\}',
         lambda m: ('ITags %s' % fld(m.group(1), g)) if m.group(1) == m.group(3) else None),
        (r'aad\.extend_from_slice\(\s*&meta\.(\w+)\.to_le_bytes\(\)\s*\)\s*;', lambda m: 'IU64 %s' % fld(m.group(1), g)),
        (r'push_opt_str\(\s*&mut aad\s*,\s*meta\.(\w+)\.as_deref\(\)\s*\)\s*;', lambda m: 'IOptStr %s' % fld(m.group(1), g)),
        (r'push_opt_u64\(\s*&mut aad\s*,\s*meta\.(\w+)\s*\)\s*;', lambda m: 'IOptU64 %s' % fld(m.group(1), g)),
        (r'push_opt_u8\(\s*&mut aad\s*,\s*meta\.(\w+)\s*\)\s*;', lambda m: 'IOptU8 %s' % fld(m.group(1), g)),
        (r'push_bytes\(\s*&mut aad\s*,\s*meta\.(\w+)\.as_slice\(\)\s*\)\s*;', lambda m: 'IBytes %s' % fld(m.group(1), g)),
        (r'if\s+let\s+Some\((\w+)\)\s*=\s*&meta\.(\w+)\s*\{\s*aad\.extend_from_slice\(\s*b"([^"]*)"\s*\)\s*;\s*'
         r'push_bytes\(\s*&mut aad\s*,\s*\1\.as_bytes\(\)\s*\)\s*;\s*\}',
         lambda m: 'ITailBytes %s %s' % (coq_string(m.group(3)), fld(m.group(2), g))),
        (r'if\s+let\s+Some\((\w+)\)\s*=\s*meta\.(\w+)\s*\{\s*aad\.extend_from_slice\(\s*b"([^"]*)"\s*\)\s*;\s*'
         r'aad\.extend_from_slice\(\s*&\1\.to_le_bytes\(\)\s*\)\s*;\s*\}',
         lambda m: 'ITailU64 %s %s' % (coq_string(m.group(3)), fld(m.group(2), g))),
    ]
    while pos < len(s):
        if s[pos].isspace():
            pos += 1
            continue
        for pat, mk in pats:
            m = re.compile(pat, re.S).match(s, pos)
            if m:
                it = mk(m)
                if it is None:
                    continue
                items.append(it)
                pos = m.end()
                break
        else:
            lost(g, 'metadata_auth_aad statement', repr(s[pos:pos + 80]))
            break
    return items


def fn_bodies(src, name):
    """All bodies of `fn name(...) ... { }` (signature may contain `;` inside array types)."""
    out = []
    for m in re.finditer(r'\bfn\s+%s\s*(?:<[^>]*>)?\s*\(' % re.escape(name), src):
        i, depth = m.end(), 1
        while i < len(src) and depth:
            depth += {'(': 1, ')': -1}.get(src[i], 0)
            i += 1
        j = src.find('{', i)
        semi = src.find(';', i)
        if j < 0 or (0 <= semi < j and '[' not in src[i:semi]):
            continue
        k, depth, instr = j + 1, 1, False
        while k < len(src) and depth:
            c = src[k]
            if instr:
                if c == '\\':
                    k += 1
                elif c == '"':
                    instr = False
            elif c == '"':
                instr = True
            elif c == '{':
                depth += 1
            elif c == '}':
                depth -= 1
            k += 1
        out.append(src[j + 1:k - 1])
    return out


def fn_body(src, name, g):
    """The longest body among the functions of that name (methods that merely forward are shorter)."""
    bs = fn_bodies(src, name)
    if not bs:
        lost(g, 'fn ' + name)
        return ''
    return max(bs, key=len)



ACQ = r'(?:self\s*\.\s*(?:inner\s*\.\s*)?(get_meta|refresh_meta|load_meta))\s*\('
VERIFY = r'(?:verify_metadata|verify|validator)\s*\('


def loop_body_at(body, pos):
    """If `pos` lies inside a `loop { }` of this function body, return (start, end) of the innermost one."""
    best = None
    for m in re.finditer(r"(?:'\w+\s*:\s*)?\bloop\s*\{", body):
        i, depth = m.end(), 1
        while i < len(body) and depth:
            depth += {'{': 1, '}': -1}.get(body[i], 0)
            i += 1
        if m.end() <= pos < i and (best is None or m.end() > best[0]):
            best = (m.end(), i - 1)
    return best


def acquisition_sites(fname, body, g):
    """Every point where the function obtains a metadata document (get_meta / refresh_meta / load_meta, or the
    cache-or-fetch expression of listing_entry), per loop iteration, with: is the result bound, and is the
    first thing done with the bound document a call of the authenticating callback?  A refresh whose result
    is dropped must be followed by `continue` so that the loop head re-acquires (and re-verifies)."""
    out = []
    for m in re.finditer(ACQ, body):
        kind = m.group(1)
        stmt_start = max(body.rfind(';', 0, m.start()), body.rfind('{', 0, m.start()), body.rfind('}', 0, m.start())) + 1
        stmt = body[stmt_start:m.start()]
        bm = re.search(r'(?:let\s+(?:mut\s+)?)?(\w+)\s*(?::[^=]+)?=\s*$', stmt)
        semi = body.find(';', m.end())
        rest = body[semi + 1:]
        lp = loop_body_at(body, m.start())
        if bm is None:
            # result dropped: only the cache is refreshed; control must go back to the loop head
            nxt = re.match(r'\s*continue\b', rest)
            ok = (kind != 'refresh_meta') or (nxt is not None and lp is not None)
            if kind == 'refresh_meta' and ok:
                head = body[lp[0]:lp[1]]
                hm = re.search(ACQ, head)
                ok = hm is not None and hm.group(1) == 'get_meta' and first_use_is_verify(head[hm.end():], bound_name(head, hm))
            out.append((fname, kind, 'dropped', lp is not None, ok))
            continue
        name = bm.group(1)
        # what runs next with this document: the rest of the block; after `continue`, the loop from its head
        flow = rest
        cm = re.match(r'\s*continue\b', rest)
        if cm and lp is not None:
            flow = body[lp[0]:lp[1]]
        out.append((fname, kind, 'bound', lp is not None, first_use_is_verify(flow, name)))
    return out


def bound_name(text, m):
    stmt_start = max(text.rfind(';', 0, m.start()), text.rfind('{', 0, m.start()), text.rfind('}', 0, m.start())) + 1
    bm = re.search(r'(?:let\s+(?:mut\s+)?)?(\w+)\s*(?::[^=]+)?=\s*$', text[stmt_start:m.start()])
    return bm.group(1) if bm else None


def first_use_is_verify(flow, name):
    if name is None:
        return False
    um = re.search(r'\b%s\b' % re.escape(name), flow)
    if not um:
        return True          # never used
    # the first mention must be an argument of the verifying call
    before = flow[:um.start()]
    vm = list(re.finditer(VERIFY, before))
    if not vm:
        return False
    last = vm[-1]
    between = before[last.end():]
    return between.count('(') == between.count(')') and ';' not in between


def fld(name, g):
    if name not in FIELD:
        lost(g, 'unmodelled Metadata field ' + name)
        return 'F_size'
    return FIELD[name]


def generate(repo):
    g = 'Gen_Crypto'
    enc = strip_rust_comments(read(repo, 'rs/anda_object_store/src/encryption.rs'))
    sc = strip_rust_comments(read(repo, 'rs/anda_object_store/src/sidecar.rs'))
    # the test module reuses many names; cut it off
    cut = enc.find('#[cfg(test)]\nmod tests')
    if cut > 0:
        enc = enc[:cut]
    out = [HEADER, 'From Coq Require Import String.\nFrom Coq Require Import List NArith Bool.\n'
                   'From Verif Require Import Crypto.Model.\nImport ListNotations.\nClose Scope string_scope.\n\n']
    fields = struct_fields(enc, g)
    for (name, _, _) in fields:
        if name not in FIELD:
            lost(g, 'unmodelled Metadata field ' + name)
    out.append('(* struct Metadata: (rust name, serde name) *)\n')
    out.append('Definition meta_fields : list (string * string) := [%s].\n' % '; '.join(
        '(%s, %s)' % (coq_string(n), coq_string(r)) for n, r, _ in fields))
    out.append('Definition meta_field_tags : list field := [%s].\n' % '; '.join(FIELD.get(n, 'F_size') for n, _, _ in fields))

    body = fn_body(enc, 'metadata_auth_aad', g)
    items = parse_layout(body, g) if body else []
    out.append('\n(* fn metadata_auth_aad, statement by statement *)\n')
    out.append('Definition aad_layout : list item :=\n  [ %s ].\n' % ';\n    '.join(items))

    # fields consulted on the read side
    used = []
    def scan(text, what):
        for m in re.finditer(r'\b(?:meta|m|src)\.(\w+)\b', text):
            n = m.group(1)
            if n in FIELD and n not in used:
                used.append(n)
    for fn in ('verify_metadata', 'chunk_aad_version', 'chunk_aad_for_meta', 'read_chunk_size', 'get_opts', 'get_ranges',
               'create_decryption_stream', 'copy_opts', 'ensure_chunk_aad_version'):
        b = fn_body(enc, fn, g)
        scan(b, fn)
    # accessors of `impl SidecarMeta for Metadata` used by the generic listing / path resolution
    acc = {}
    m = re.search(r'impl SidecarMeta for Metadata\s*\{(.*?)\n\}', enc, re.S)
    if not m:
        lost(g, 'impl SidecarMeta for Metadata')
    else:
        for am in re.finditer(r'fn\s+(\w+)\(&self\)[^{]*\{\s*self\.(\w+)', m.group(1)):
            acc[am.group(1)] = am.group(2)
    le = fn_body(sc, 'listing_entry', g)
    for am in re.finditer(r'\bmeta\.(\w+)\(\)', le):
        f = acc.get(am.group(1))
        if f is None:
            lost(g, 'listing_entry accessor ' + am.group(1))
        elif f not in used:
            used.append(f)
    out.append('\n(* Metadata fields read by verify/get/get_ranges/stream/copy and by the listing *)\n')
    out.append('Definition read_fields : list field := [%s].\n' % '; '.join(FIELD[n] for n in used))

    # every read/list/copy entry point authenticates the document before using it
    sites = {}
    for fn in ('get_opts', 'get_ranges', 'verified_metadata', 'listing_meta_policy', 'copy_opts'):
        b = fn_body(enc, fn, g)
        sites[fn] = bool(re.search(r'verify_metadata\(', b))
    out.append('\n(* entry point -> does it call verify_metadata *)\n')
    out.append('Definition verify_sites : list (string * bool) := [%s].\n' % '; '.join(
        '(%s, %s)' % (coq_string(k), 'true' if v else 'false') for k, v in sites.items()))
    b = fn_body(enc, 'get_opts', g)
    iv, ip = b.find('verify_metadata('), b.find('payload_path(')
    out.append('Definition get_verifies_before_fetch : bool := %s.\n' % ('true' if 0 <= iv < ip else 'false'))
    b = fn_body(enc, 'get_ranges', g)
    iv, ip = b.find('verify_metadata('), b.find('get_range(')
    out.append('Definition get_ranges_verifies_before_fetch : bool := %s.\n' % ('true' if 0 <= iv < ip else 'false'))
    # the length check of get_ranges
    out.append('Definition get_ranges_checks_span_length : bool := %s.\n' % (
        'true' if re.search(r'data\.len\(\)\s+as\s+u64\s*!=\s*span_end\s*-\s*span_start', b) else 'false'))


    # ---- every acquisition of a metadata document for use is authenticated in the same loop iteration
    sites = []
    for src_text, fns in ((enc, ('get_opts', 'get_ranges', 'verified_metadata')), (sc, ('copy_payload',))):
        for fn in fns:
            b = fn_body(src_text, fn, g)
            found = acquisition_sites(fn, b, g)
            if not found:
                lost(g, 'metadata acquisition in ' + fn)
            sites.extend(found)
    # listing_entry: cache-or-fetch expression bound to `meta`, first use must be the validator
    le = fn_body(sc, 'listing_entry', g)
    lm = re.search(r'let\s+meta\s*:\s*Arc<M>\s*=\s*if\s+let\s+Some\(meta\)\s*=\s*self\.meta_cache\.get\(', le)
    if not lm:
        lost(g, 'listing_entry acquisition')
    else:
        # skip the whole `if let .. else { match .. };` expression
        i = le.find('{', lm.end()); depth = 0; j = i
        blocks = 0
        while j < len(le):
            if le[j] == '{':
                depth += 1
            elif le[j] == '}':
                depth -= 1
                if depth == 0:
                    blocks += 1
                    if blocks == 2:
                        break
            j += 1
        sites.append(('listing_entry', 'cache_or_fetch', 'bound', False, first_use_is_verify(le[j + 1:], 'meta')))
    out.append('\n(* (function, how the document is obtained, bound/dropped, inside a loop, authenticated before first use) *)\n')
    out.append('Definition acquisition_sites : list (string * string * string * bool * bool) := [%s].\n' % '; '.join(
        '(%s, %s, %s, %s, %s)' % (coq_string(a), coq_string(b_), coq_string(c), 'true' if d else 'false', 'true' if e else 'false')
        for a, b_, c, d, e in sites))
    # constants
    for c in ('CHUNK_AAD_LEGACY', 'CHUNK_AAD_BOUND'):
        m = re.search(r'const\s+%s\s*:\s*u8\s*=\s*(\d+)\s*;' % c, enc)
        if not m:
            lost(g, c)
        else:
            out.append('Definition %s : N := %s.\n' % (c, m.group(1)))
    # chunk_aad: domain + statement order
    b = fn_body(enc, 'chunk_aad', g)
    m = re.search(r'extend_from_slice\(\s*b"([^"]*)"\s*\)', b)
    order = re.findall(r'extend_from_slice\(\s*&(\w+)\.to_le_bytes\(\)\s*\)', b)
    if not m or not order:
        lost(g, 'chunk_aad body')
    else:
        out.append('Definition chunk_domain_str : string := %s.\n' % coq_string(m.group(1)))
        out.append('Definition chunk_aad_order : list string := [%s].\n' % '; '.join(coq_string(x) for x in order))
    # derive_gcm_nonce parameters
    b = fn_body(enc, 'derive_gcm_nonce', g)
    m = re.search(r'nonce\[(\d+)\.\.(\d+)\]', b)
    if not m:
        lost(g, 'derive_gcm_nonce counter range')
    else:
        out.append('Definition nonce_ctr_range : N * N := (%s, %s).\n' % (m.group(1), m.group(2)))
    out.append('Definition nonce_ctr_le : bool := %s.\n' % (
        'true' if re.search(r'u64::from_le_bytes', b) and re.search(r'\.to_le_bytes\(\)', b) else 'false'))
    out.append('Definition nonce_ctr_wrapping_add_idx : bool := %s.\n' % ('true' if re.search(r'\.wrapping_add\(\s*idx\s*\)', b) else 'false'))
    # put paths: nonce index = chunk index, fresh random base
    b = fn_body(enc, 'put_opts', g)
    out.append('Definition put_uses_enumerate_index : bool := %s.\n' % (
        'true' if re.search(r'chunks_mut\(chunk_size\)\.enumerate\(\)', b) and re.search(r'derive_gcm_nonce\(&base_nonce,\s*i as u64\)', b) else 'false'))
    out.append('Definition put_base_nonce_random : bool := %s.\n' % ('true' if re.search(r'base_nonce\s*:\s*\[u8;\s*12\]\s*=\s*rand_bytes\(\)', b) else 'false'))
    # the downgrade rule
    b = fn_body(enc, 'verify_metadata', g)
    m = re.search(r'\(None,\s*None\)\s*=>\s*\{\s*if\s+(.*?)\s*\{', b, re.S)
    rule = re.findall(r'meta\.(\w+)\.is_some\(\)', m.group(1)) if m else []
    if not rule:
        lost(g, 'verify_metadata stripped-field rule')
    out.append('Definition stripped_rule_fields : list field := [%s].\n' % '; '.join(FIELD.get(n, 'F_size') for n in rule))
    return g, ''.join(out)
