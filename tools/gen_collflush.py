"""Gen_CollFlush: the ORDER of protocol events in Collection add/update/remove/flush/open/recovery (C01, C02).

For every operation the generator locates a fixed set of anchor expressions inside the function body
(comment-stripped source of rs/anda_db/src/collection.rs and database.rs) and emits the tags sorted by
source position.  The theorems in coq/Coll/Props.v are stated over these lists: a source edit that moves
`record_mutation_intent` after the document write, persists ids before the metadata, registers an index
before its backfill, ... changes the generated list and the pinned theorems no longer check.  An anchor that
is not found is a lost anchor (a broken obligation, not a pass).

Besides the orders: the watermark stride, the bounds of the reopen repair scan, and whether the
unknown-outcome failure branches poison the handle.
"""
import re
from trlib import *  # noqa: F401,F403

G = 'Gen_CollFlush'
COLL = 'rs/anda_db/src/collection.rs'
DB = 'rs/anda_db/src/database.rs'


def order(body, anchors, item):
    """anchors: [(tag, regex)] -> tags sorted by first occurrence; every anchor must be present."""
    found = []
    for tag, rx in anchors:
        m = re.search(rx, body, re.S)
        if not m:
            lost(G, '%s.%s' % (item, tag), rx)
            continue
        found.append((m.start(), tag))
    found.sort()
    return [t for _, t in found]


def coq_list(name, tags, comment=''):
    return 'Definition %s : list tag := [%s].%s\n' % (name, '; '.join(tags), ('  (* %s *)' % comment) if comment else '')


def block_after(body, rx, item):
    """The `{...}` block that follows the first match of rx."""
    m = re.search(rx, body, re.S)
    if not m:
        lost(G, item, rx)
        return ''
    i = body.find('{', m.end())
    if i < 0:
        lost(G, item, 'no block')
        return ''
    depth, j = 0, i
    while j < len(body):
        if body[j] == '{':
            depth += 1
        elif body[j] == '}':
            depth -= 1
            if depth == 0:
                return body[i:j + 1]
        j += 1
    return body[i:]


def rollback_order(fn, name, loops):
    """loops: [(rstep, regex of the `for` head, regex the loop body must contain)] inside `let rollback_indexes = || {..}`."""
    item = '%s_impl.rollback_indexes' % name
    blk = block_after(fn, r'let\s+rollback_indexes\s*=\s*\|\|', item)
    found = []
    for tag, head, must in loops:
        m = re.search(head, blk, re.S)
        if not m:
            lost(G, '%s.%s' % (item, tag), head)
            continue
        body = block_after(blk[m.start():], head, '%s.%s.body' % (item, tag))
        if not re.search(must, body, re.S):
            lost(G, '%s.%s.body' % (item, tag), must)
            continue
        found.append((m.start(), tag))
    found.sort()
    nloops = len(re.findall(r'\bfor\b', blk))
    if nloops != len(loops):
        lost(G, '%s: %d loops, %d known' % (item, nloops, len(loops)))
    return 'Definition %s_rollback_order : list rstep := [%s].  (* Collection::%s_impl, closure rollback_indexes *)\n' % (
        name, '; '.join(t for _, t in found), name)


def generate(repo):
    src = strip_rust_comments(read(repo, COLL))
    dbs = strip_rust_comments(read(repo, DB))
    out = [HEADER, 'From Coq Require Import List Bool Arith.\nFrom Verif Require Import Coll.Tags.\nImport ListNotations.\n\n']

    # ---------------------------------------------------------------- add
    add = fn_body(src, 'add_impl', G)
    out.append(coq_list('add_order', order(add, [
        ('TWatermark', r'self\s*\.\s*ensure_allocation_watermark\s*\(\s*id\s*\)\s*\.\s*await'),
        ('TIndexInsert', r'index\s*\.\s*insert\s*\(\s*id\s*,'),
        ('TDocCreate', r'self\s*\.\s*storage\s*\.\s*create\s*\(\s*&path\s*,\s*&doc\s*\)\s*\.\s*await'),
        ('TBitmapAdd', r'self\s*\.\s*doc_ids\s*\.\s*write\s*\(\s*\)\s*\.\s*add\s*\(\s*id\s*\)'),
    ], 'add_impl'), 'Collection::add_impl'))
    wm = fn_body(src, 'ensure_allocation_watermark', G)
    # the watermark is published in memory only after the PUT returned
    w_order = order(wm, [
        ('TWatermark', r'\.\s*put\s*\(\s*Self::ALLOCATION_WATERMARK_PATH'),
        ('TRegister', r'durable_alloc_watermark\s*\.\s*fetch_max\s*\('),
    ], 'ensure_allocation_watermark')
    out.append('Definition watermark_put_before_publish : bool := %s.\n' % ('true' if w_order == ['TWatermark', 'TRegister'] else 'false'))
    m = re.search(r'const\s+ALLOCATION_WATERMARK_STRIDE\s*:\s*u64\s*=\s*([0-9_]+)\s*;', src)
    if m:
        out.append('Definition watermark_stride : nat := %d.\n' % int(m.group(1).replace('_', '')))
    else:
        lost(G, 'ALLOCATION_WATERMARK_STRIDE')
    m = re.search(r'let\s+target\s*=\s*self\s*\.\s*max_document_id\s*\.\s*load\([^)]*\)\s*\.\s*max\(id\)\s*\.\s*saturating_add\(Self::ALLOCATION_WATERMARK_STRIDE\)', wm, re.S)
    out.append('Definition watermark_target_is_max_plus_stride : bool := %s.\n' % ('true' if m else 'false'))
    # failed create: rollback + compensating delete; poison only if the delete outcome is unknown
    blk = block_after(add, r'if\s+let\s+Err\(err\)\s*=\s*self\s*\.\s*storage\s*\.\s*create\(&path,\s*&doc\)\s*\.\s*await', 'add_impl.create_failure')
    out.append('Definition add_failure_rolls_back_indexes : bool := %s.\n' % ('true' if 'rollback_indexes()' in blk else 'false'))
    out.append('Definition add_failure_compensating_delete : bool := %s.\n' % ('true' if re.search(r'self\.storage\.delete\(&path\)', blk) else 'false'))
    out.append('Definition add_failure_poisons_on_unknown_delete : bool := %s.\n' % ('true' if 'self.poison(' in blk else 'false'))

    # ---------------------------------------------------------------- update
    upd = fn_body(src, 'update_impl', G)
    out.append(coq_list('update_order', order(upd, [
        ('TIntent', r'self\s*\.\s*record_mutation_intent\s*\('),
        ('TIndexUpdate', r'index\s*\.\s*update\s*\(\s*id\s*,'),
        ('TDocPut', r'self\s*\.\s*storage\s*\.\s*put\s*\(\s*&path\s*,\s*&doc\s*,\s*Some\(ver\)\s*\)\s*\.\s*await'),
    ], 'update_impl'), 'Collection::update_impl'))
    blk = block_after(upd, r'if\s+let\s+Err\(err\)\s*=\s*self\s*\.\s*storage\s*\.\s*put\(&path,\s*&doc,\s*Some\(ver\)\)\s*\.\s*await', 'update_impl.put_failure')
    out.append('Definition update_put_failure_poisons : bool := %s.\n' % ('true' if 'self.poison(' in blk else 'false'))
    m = re.search(r'self\s*\.\s*record_mutation_intent\s*\(\s*id\s*,\s*Some\(&old_doc\)\s*,\s*Some\(&doc\)\s*\)', upd)
    out.append('Definition update_intent_has_both_images : bool := %s.\n' % ('true' if m else 'false'))

    # the rollback closure of update_impl: the ORDER of its loops (undo-what-was-inserted must precede
    # restore-what-was-removed for the id-keyed indexes: old and new entry share the document id) and whether
    # `*_inserted` is registered before the fallible insert is attempted
    out.append(rollback_order(upd, 'update', [
        ('RUndoBm25', r'for\s*\(\s*k\s*,\s*v\s*\)\s*in\s+bm25_inserted\b', r'k\s*\.\s*remove\s*\('),
        ('RUndoHnsw', r'for\s*\(\s*k\s*,\s*v\s*\)\s*in\s+hnsw_inserted\b', r'k\s*\.\s*remove\s*\('),
        ('RRevBtree', r'for\s*\(\s*k\s*,\s*v\s*\)\s*in\s+btree_updated\b', r'k\s*\.\s*update\s*\(\s*id\s*,\s*&v\.1\s*,\s*&v\.0'),
        ('RRestoreBm25', r'for\s*\(\s*k\s*,\s*v\s*\)\s*in\s+bm25_removed\b', r'k\s*\.\s*insert\s*\('),
        ('RRestoreHnsw', r'for\s*\(\s*k\s*,\s*v\s*\)\s*in\s+hnsw_removed\b', r'k\s*\.\s*insert\s*\('),
    ]))
    for kind, reg, ins in (('bm25', r'bm25_inserted\s*\.\s*insert\s*\(', r'index\s*\.\s*insert\s*\(\s*id\s*,\s*&text\s*,\s*now_ms\s*\)\s*\?'),
                           ('hnsw', r'hnsw_inserted\s*\.\s*insert\s*\(', r'index\s*\.\s*insert\s*\(\s*id\s*,\s*vector\.into_owned\(\)\s*,\s*now_ms\s*\)\s*\?')):
        o = order(upd, [('RUndoBtree', reg), ('RRevBtree', ins)], 'update_impl.%s_registration' % kind)
        out.append('Definition update_%s_inserted_registered_before_insert : bool := %s.\n' % (kind, 'true' if o == ['RUndoBtree', 'RRevBtree'] else 'false'))
        o = order(add, [('RUndoBtree', reg), ('RRevBtree', ins)], 'add_impl.%s_registration' % kind)
        out.append('Definition add_%s_inserted_registered_before_insert : bool := %s.\n' % (kind, 'true' if o == ['RUndoBtree', 'RRevBtree'] else 'false'))
    out.append(rollback_order(add, 'add', [
        ('RUndoBtree', r'for\s*\(\s*k\s*,\s*v\s*\)\s*in\s+btree_inserted\b', r'k\s*\.\s*remove\s*\('),
        ('RUndoBm25', r'for\s*\(\s*k\s*,\s*v\s*\)\s*in\s+bm25_inserted\b', r'k\s*\.\s*remove\s*\('),
        ('RUndoHnsw', r'for\s*\(\s*k\s*,\s*v\s*\)\s*in\s+hnsw_inserted\b', r'k\s*\.\s*remove\s*\('),
    ]))

    # ---------------------------------------------------------------- remove
    rem = fn_body(src, 'remove_impl', G)
    out.append(rollback_order(rem, 'remove', [
        ('RRestoreBtree', r'for\s*\(\s*index\s*,\s*value\s*\)\s*in\s+btree_removed\b', r'index\s*\.\s*insert\s*\('),
        ('RRestoreBm25', r'for\s*\(\s*index\s*,\s*\(\s*id\s*,\s*text\s*\)\s*\)\s*in\s+bm25_removed\b', r'index\s*\.\s*insert\s*\('),
        ('RRestoreHnsw', r'for\s*\(\s*index\s*,\s*\(\s*id\s*,\s*vector\s*\)\s*\)\s*in\s+hnsw_removed\b', r'index\s*\.\s*insert\s*\('),
    ]))
    out.append(coq_list('remove_order', order(rem, [
        ('TIntent', r'self\s*\.\s*record_mutation_intent\s*\('),
        ('TIndexRemove', r'index\s*\.\s*remove\s*\(\s*id\s*,'),
        ('TDocDelete', r'self\s*\.\s*storage\s*\.\s*delete\s*\(\s*&path\s*\)\s*\.\s*await'),
        ('TBitmapRemove', r'doc_ids_index\s*\.\s*remove\s*\(\s*&id\s*\)'),
    ], 'remove_impl'), 'Collection::remove_impl'))
    blk = block_after(rem, r'let\s+Err\(err\)\s*=\s*self\s*\.\s*storage\s*\.\s*delete\(&path\)\s*\.\s*await', 'remove_impl.delete_failure')
    out.append('Definition remove_delete_failure_poisons : bool := %s.\n' % ('true' if 'self.poison(' in blk else 'false'))

    # record_mutation_intent: the intent is durable (create) before it is tracked in memory
    rec = fn_body(src, 'record_mutation_intent', G)
    r_order = order(rec, [
        ('TIntent', r'self\s*\.\s*storage\s*\.\s*create\s*\(\s*&path\s*,\s*&intent\s*\)\s*\.\s*await'),
        ('TRegister', r'self\s*\.\s*pending_mutations\s*\.\s*lock\(\)\s*\.\s*insert\('),
    ], 'record_mutation_intent')
    out.append('Definition intent_put_before_track : bool := %s.\n' % ('true' if r_order == ['TIntent', 'TRegister'] else 'false'))

    # ---------------------------------------------------------------- flush
    fl = fn_body(src, 'flush_inner', G)
    out.append(coq_list('flush_order', order(fl, [
        ('TIndexes', r'self\s*\.\s*store_indexes\s*\(\s*now_ms\s*\)\s*\.\s*await'),
        ('TMeta', r'self\s*\.\s*store_metadata\s*\(\s*now_ms\s*\)\s*\.\s*await'),
        ('TIds', r'self\s*\.\s*store_ids\s*\(\s*\)\s*\.\s*await'),
        ('TCheckpoint', r'self\s*\.\s*storage\s*\.\s*store_metadata\s*\(\s*check_point\s*,\s*now_ms\s*\)\s*\.\s*await'),
        ('TRetire', r'self\s*\.\s*clear_mutation_intents\s*\(\s*\)\s*\.\s*await'),
    ], 'flush_inner'), 'Collection::flush_inner'))
    # the checkpoint value is the max_document_id of the metadata snapshot that was written
    sm = fn_body(src, 'store_metadata', G)
    out.append('Definition checkpoint_is_snapshot_max_id : bool := %s.\n' % (
        'true' if re.search(r'Ok\(\s*Some\(\s*metadata\s*\.\s*stats\s*\.\s*max_document_id\s*\)\s*\)', sm) else 'false'))
    out.append('Definition metadata_put_is_cas : bool := %s.\n' % (
        'true' if re.search(r'PutMode::Update\(\s*expected_version', sm) else 'false'))
    fpub = fn_body(src, 'flush', G, kind=r'pub\s+async\s+fn')
    out.append('Definition flush_failure_poisons : bool := %s.\n' % (
        'true' if re.search(r'if\s+rt\.is_err\(\)\s*\{[^}]*self\.poison\(', fpub, re.S) else 'false'))
    cl = fn_body(src, 'close', G, kind=r'pub\s+async\s+fn')
    out.append('Definition close_failure_poisons : bool := %s.\n' % (
        'true' if re.search(r'Err\(err\)\s*=>\s*\{[^}]*self\.poison\(', cl, re.S) else 'false'))

    # ---------------------------------------------------------------- open + recovery
    op = fn_body(src, 'open', G, kind=r'pub\(crate\)\s+async\s+fn')
    out.append(coq_list('open_order', order(op, [
        ('TLoadMeta', r'fetch::<CollectionMetadata>\s*\(\s*Self::METADATA_PATH\s*\)'),
        ('TLoadIds', r'fetch::<Vec<u8>>\s*\(\s*Self::IDS_PATH\s*\)'),
        ('TLoadWatermark', r'fetch::<u64>\s*\(\s*Self::ALLOCATION_WATERMARK_PATH\s*\)'),
        ('TLoadIndexes', r'collection\s*\.\s*load_indexes\s*\(\s*\)\s*\.\s*await'),
        ('TCallback', r'\bf\s*\(\s*&mut\s+collection\s*\)\s*\.\s*await'),
        ('TReplay', r'collection\s*\.\s*replay_mutation_intents\s*\(\s*\)\s*\.\s*await'),
        ('TRepair', r'collection\s*\.\s*auto_repair_indexes\s*\(\s*\)\s*\.\s*await'),
    ], 'open'), 'Collection::open'))
    out.append('Definition open_missing_watermark_is_zero : bool := %s.\n' % (
        'true' if re.search(r'Err\(DBError::NotFound\s*\{\s*\.\.\s*\}\)\s*=>\s*0', op) else 'false'))
    out.append('Definition open_watermark_max_with_meta : bool := %s.\n' % (
        'true' if re.search(r'durable_alloc_watermark\s*:\s*AtomicU64::new\(\s*alloc_watermark\s*\.\s*max\(\s*metadata_max_document_id\s*\)\s*\)', op) else 'false'))
    ow = fn_body(dbs, 'open_collection_with_schema', G)
    out.append(coq_list('db_open_order', order(ow, [
        ('TOpen', r'Collection::open\s*\('),
        ('TRegisterHandle', r'collections\s*\.\s*insert\s*\(\s*collection\s*\.\s*name\(\)'),
        ('TOpenFlush', r'collection\s*\.\s*flush\s*\(\s*now\s*\)\s*\.\s*await'),
    ], 'open_collection_with_schema'), 'AndaDB::open_collection_with_schema'))
    out.append('Definition db_open_discards_poisoned_handle : bool := %s.\n' % (
        'true' if re.search(r'if\s+collection\.is_poisoned\(\)\s*\{[^}]*drain_operations\(\)', ow, re.S) else 'false'))

    rc = fn_body(src, 'reconcile_mutation_intents', G)
    out.append(coq_list('replay_order', order(rc, [
        ('TRemoveImages', r'self\s*\.\s*remove_document_from_indexes\s*\(\s*intent\s*\.\s*document_id\s*,'),
        ('TFetchCurrent', r'\.\s*fetch::<DocumentOwned>\s*\(\s*&Self::doc_path\(id\)\s*\)'),
        ('TRemoveCurrent', r'self\s*\.\s*remove_document_from_indexes\s*\(\s*id\s*,\s*&current'),
        ('TInsertCurrent', r'self\s*\.\s*insert_document_into_indexes\s*\(\s*id\s*,\s*&current'),
        ('TBitmapAdd', r'self\s*\.\s*doc_ids\s*\.\s*write\(\)\s*\.\s*add\(id\)'),
        ('TBitmapDrop', r'self\s*\.\s*doc_ids\s*\.\s*write\(\)\s*\.\s*remove\(id\)'),
    ], 'reconcile_mutation_intents'), 'Collection::reconcile_mutation_intents'))
    out.append('Definition replay_removes_both_images : bool := %s.\n' % (
        'true' if re.search(r'for\s+candidate\s+in\s+\[\s*&intent\.previous\s*,\s*&intent\.proposed\s*\]', rc) else 'false'))
    rp = fn_body(src, 'replay_mutation_intents', G)
    out.append('Definition replay_lists_intent_prefix : bool := %s.\n' % (
        'true' if re.search(r'list_meta\(\s*Some\(Self::MUTATION_INTENT_PREFIX\)', rp) else 'false'))

    ar = fn_body(src, 'auto_repair_indexes', G)
    out.append('Definition repair_from_checkpoint_plus_one : bool := %s.\n' % (
        'true' if re.search(r'for\s+id\s+in\s+\(\s*check_point\s*\+\s*1\s*\)\s*\.\.=\s*scan_max', ar)
        and re.search(r'let\s+check_point\s*=\s*self\.storage\.stats\(\)\.check_point', ar) else 'false'))
    out.append('Definition repair_upto_max_of_maxid_and_watermark : bool := %s.\n' % (
        'true' if re.search(r'let\s+scan_max\s*=\s*self\s*\.\s*max_document_id\s*\.\s*load\([^)]*\)\s*\.\s*max\(\s*self\.durable_alloc_watermark\.load\([^)]*\)\s*\)', ar, re.S) else 'false'))
    # the scan probes EVERY id of the window: the loop body has no early exit (break / return / labelled jump) and
    # no state that can skip the fetch; the only way out is the upper bound of the range
    mfor = re.search(r'for\s+id\s+in\s+\(\s*check_point\s*\+\s*1\s*\)\s*\.\.=\s*scan_max\s*', ar)
    loop = block_after(ar, r'for\s+id\s+in\s+\(\s*check_point\s*\+\s*1\s*\)\s*\.\.=\s*scan_max', 'auto_repair_indexes.loop') if mfor else ''
    if not mfor:
        lost(G, 'auto_repair_indexes.loop')
    exits = re.findall(r'\bbreak\b|\breturn\b|\bcontinue\b', loop)
    first_stmt = re.match(r'\{\s*match\s+self\s*\.\s*storage\s*\.\s*fetch::<DocumentOwned>\s*\(\s*&Self::doc_path\(id\)\s*\)\s*\.\s*await', loop)
    loops_in_fn = len(re.findall(r'\bfor\b|\bwhile\b|\bloop\b', ar))
    out.append('Definition repair_scan_no_early_exit : bool := %s.  (* exits in the loop body: %s *)\n' % (
        'true' if loop and not exits and first_stmt and loops_in_fn == 1 else 'false', ', '.join(exits) or 'none'))
    out.append('Definition repair_scan_found_doc_is_repaired : bool := %s.\n' % (
        'true' if re.search(r'Ok\(\(doc,\s*_\)\)\s*=>\s*\{[^}]*self\.repair_document\(id,\s*doc,\s*now_ms\)', loop) else 'false'))
    rd = fn_body(src, 'repair_document', G)
    out.append('Definition repair_bumps_max_id : bool := %s.\n' % (
        'true' if re.search(r'self\.max_document_id\.fetch_max\(id', rd) else 'false'))

    # ---------------------------------------------------------------- index creation / removal
    for kind, fn, ctor, reg in (
            ('btree', 'create_btree_index', r'BTree::new\s*\(', r'meta\s*\.\s*btree_indexes\s*\.\s*insert\s*\('),
            ('bm25', 'create_bm25_index', r'BM25::new\s*\(', r'meta\s*\.\s*bm25_indexes\s*\.\s*insert\s*\('),
            ('hnsw', 'create_hnsw_index', r'Hnsw::new\s*\(', r'meta\s*\.\s*hnsw_indexes\s*\.\s*insert\s*\(')):
        body = fn_body(src, fn, G, kind=r'pub\s+async\s+fn')
        out.append(coq_list('create_%s_order' % kind, order(body, [
            ('TIdxNew', ctor),
            ('TBackfill', r'self\s*\.\s*backfill_%s_index\s*\(' % kind),
            ('TIdxFlush', r'index\s*\.\s*flush\s*\(\s*now_ms\s*\)\s*\.\s*await'),
            ('TRegister', reg),
        ], fn), 'Collection::' + fn))
    cu = fn_body(src, 'cleanup_removed_index', G)
    for kind, fn, unreg in (
            ('btree', 'remove_btree_index', r'meta\s*\.\s*btree_indexes\s*\.\s*remove\s*\('),
            ('bm25', 'remove_bm25_index', r'meta\s*\.\s*bm25_indexes\s*\.\s*remove\s*\('),
            ('hnsw', 'remove_hnsw_index', r'meta\s*\.\s*hnsw_indexes\s*\.\s*remove\s*\(')):
        body = fn_body(src, fn, G, kind=r'pub\s+async\s+fn')
        head = order(body, [
            ('TUnregister', unreg),
            ('TMetaNow', r'self\s*\.\s*cleanup_removed_index\s*\('),
        ], fn)
        tail = order(cu, [
            ('TMetaNow', r'self\s*\.\s*store_metadata_unclaimed\s*\(\s*\)\s*\.\s*await'),
            ('TIdxDrop', r'self\s*\.\s*storage\s*\.\s*drop_prefix\s*\(\s*dir_path\s*\)\s*\.\s*await'),
        ], 'cleanup_removed_index')
        tags = head[:-1] + tail if head and head[-1] == 'TMetaNow' else head + tail
        out.append(coq_list('remove_%s_order' % kind, tags, 'Collection::%s + cleanup_removed_index' % fn))

    # save_extension: in-memory set, then the unclaimed metadata PUT; last_saved_version untouched
    se = fn_body(src, 'save_extension', G, kind=r'pub\s+async\s+fn')
    out.append(coq_list('save_extension_order', order(se, [
        ('TExtSet', r'meta\s*\.\s*extensions\s*\.\s*insert\s*\('),
        ('TMetaNow', r'self\s*\.\s*store_metadata_unclaimed\s*\(\s*\)\s*\.\s*await'),
    ], 'save_extension'), 'Collection::save_extension'))
    su = fn_body(src, 'store_metadata_unclaimed', G)
    out.append('Definition unclaimed_write_keeps_last_saved_version : bool := %s.\n' % (
        'false' if 'last_saved_version' in su else 'true'))
    return G, ''.join(out)


if __name__ == '__main__':
    import sys
    print(generate(sys.argv[1] if len(sys.argv) > 1 else '/repo')[1])
