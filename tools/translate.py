#!/usr/bin/env python3
"""Translator: regenerates /verif/coq/gen/Gen_*.v from the repository's current source.

Not a Rust-to-Gallina compiler: it extracts exactly the constants, tables and
orderings the theorems are stated over.  Every item has an anchor; an anchor
that is not found prints `LOST-ANCHOR <gen> <item>` and the exit status is 1.
Generators live in tools/gen_*.py, each exposing generate(repo) -> (name, text)
or a list of such pairs.
"""
import argparse
import glob
import importlib
import os
import sys

HERE = os.path.dirname(os.path.abspath(__file__))
sys.path.insert(0, HERE)
import trlib  # noqa: E402


def main():
    ap = argparse.ArgumentParser()
    ap.add_argument('--repo', default='/repo')
    ap.add_argument('--out', default='/verif/coq/gen')
    ap.add_argument('--only', default=None)
    a = ap.parse_args()
    os.makedirs(a.out, exist_ok=True)
    for path in sorted(glob.glob(HERE + '/gen_*.py')):
        modname = os.path.basename(path)[:-3]
        if a.only and a.only != modname:
            continue
        try:
            mod = importlib.import_module(modname)
            res = mod.generate(a.repo)
        except Exception as ex:  # a refactor that breaks the extractor is a lost anchor, not a pass
            trlib.lost(modname, 'exception', repr(ex))
            continue
        if isinstance(res, tuple):
            res = [res]
        for name, text in res:
            p = os.path.join(a.out, name + '.v')
            old = open(p).read() if os.path.exists(p) else None
            if old != text:          # keep mtime stable when nothing changed (make cache)
                open(p, 'w').write(text)
            print('generated %s (%d bytes)' % (p, len(text)))
    sys.exit(1 if trlib.LOST else 0)


if __name__ == '__main__':
    main()
