"""Gen_Kip: the constant tables and dispatch facts of anda_kip's mutation guards (C16).

Extracted from the working tree on every run:
  parser/common.rs  PROTECTED_FIELDS, the body of is_protected_field
  parser/kml.rs     ASSERTION_/EVIDENCE_/PROPOSITION_IMMUTABLE, ASSERT_MEMBERS,
                    CONCEPT_CREATE_/CONCEPT_UPSERT_/RECORD_CREATE_CLAUSES,
                    the kinds guard_immutable_field / guard_structural_mutation refuse,
                    upsert_has_stable_identity_selector's fields and value forms,
                    the PURGE literal, clause_where's variants, the fields of each
                    MutationClause variant that validate_clause / collect_clause_handles read
  parser.rs         MAX_KIP_INPUT_LEN, MAX_KIP_NESTING_DEPTH, validate_command's arms
  ast.rs            UpdateFunction::arity, MutationClause::handle's variants
"""
import re
from trlib import *  # noqa: F401,F403

G = 'Gen_Kip'


def str_list(src, name):
    m = re.search(r'\bconst\s+%s\s*:\s*&\[&str\]\s*=\s*&\[(.*?)\];' % name, src, re.S)
    if not m:
        lost(G, name)
        return None
    return re.findall(r'"((?:[^"\\]|\\.)*)"', m.group(1))


def coq_list(xs):
    return '[' + '; '.join(coq_string(x) for x in xs) + ']'


def usize_const(src, name):
    m = re.search(r'\bconst\s+%s\s*:\s*usize\s*=\s*([^;]+);' % name, src)
    if not m:
        lost(G, name)
        return None
    expr = m.group(1).strip()
    if not re.fullmatch(r'[0-9_*+\s()]+', expr):
        lost(G, name, 'unexpected expression ' + expr)
        return None
    return int(eval(expr.replace('_', '')))


def match_arms(body):
    """Split the first `match x { ... }` of body into (pattern, arm_text) by depth-aware scan."""
    m = re.search(r'\bmatch\s+[\w&.]+\s*\{', body)
    if not m:
        return []
    i = m.end()
    depth = 1
    start = i
    arms = []
    pat = None
    n = len(body)
    in_str = False
    while i < n and depth:
        c = body[i]
        if in_str:
            if c == '\\':
                i += 1
            elif c == '"':
                in_str = False
        elif c == '"':
            in_str = True
        elif c in '{([':
            depth += 1
        elif c in '})]':
            depth -= 1
            if depth == 1 and c == '}' and pat is not None:
                # end of a block arm
                arms.append((pat, body[start:i + 1]))
                pat = None
                start = i + 1
        elif depth == 1 and body.startswith('=>', i) and pat is None:
            pat = body[start:i].strip().lstrip(',').strip()
            start = i + 2
            i += 1
        elif depth == 1 and c == ',' and pat is not None:
            arms.append((pat, body[start:i]))
            pat = None
            start = i + 1
        i += 1
    if pat is not None:
        arms.append((pat, body[start:i - 1]))
    return arms


def variants(pat):
    return re.findall(r'MutationClause::(\w+)', pat)


def generate(repo):
    common = strip_rust_comments(read(repo, 'rs/anda_kip/src/parser/common.rs'))
    kml = strip_rust_comments(read(repo, 'rs/anda_kip/src/parser/kml.rs'))
    kml = kml.split('#[cfg(test)]')[0]
    parser = strip_rust_comments(read(repo, 'rs/anda_kip/src/parser.rs')).split('#[cfg(test)]')[0]
    ast = strip_rust_comments(read(repo, 'rs/anda_kip/src/ast.rs')).split('#[cfg(test)]')[0]
    out = [HEADER, 'From Coq Require Import List String NArith.\nImport ListNotations.\nOpen Scope string_scope.\n\n']

    # ---- constant tables
    m = re.search(r'\bpub\s+const\s+PROTECTED_FIELDS\s*:\s*&\[&str\]\s*=\s*&\[(.*?)\];', common, re.S)
    if m:
        out.append('Definition PROTECTED_FIELDS : list string := %s.\n' % coq_list(re.findall(r'"((?:[^"\\]|\\.)*)"', m.group(1))))
    else:
        lost(G, 'PROTECTED_FIELDS')
    body = fn_body(common, 'is_protected_field', G)
    exact = bool(re.fullmatch(r'\s*PROTECTED_FIELDS\s*\.\s*contains\s*\(\s*&\s*name\s*\)\s*', body))
    out.append('(* is_protected_field is `PROTECTED_FIELDS.contains(&name)` (exact, case-sensitive) *)\n')
    out.append('Definition is_protected_exact : bool := %s.\n' % ('true' if exact else 'false'))
    if not exact:
        lost(G, 'is_protected_field body', 'not the exact membership test the model transcribes: ' + ' '.join(body.split())[:120])
    for name in ('ASSERTION_IMMUTABLE', 'EVIDENCE_IMMUTABLE', 'PROPOSITION_IMMUTABLE', 'ASSERT_MEMBERS',
                 'CONCEPT_CREATE_CLAUSES', 'CONCEPT_UPSERT_CLAUSES', 'RECORD_CREATE_CLAUSES'):
        xs = str_list(kml, name)
        if xs is not None:
            out.append('Definition %s : list string := %s.\n' % (name, coq_list(xs)))
    for name in ('MAX_KIP_INPUT_LEN', 'MAX_KIP_NESTING_DEPTH'):
        v = usize_const(parser, name)
        if v is not None:
            out.append('Definition %s : N := %d%%N.\n' % (name, v))

    # ---- UpdateFunction::arity
    ar = fn_body(ast, 'arity', G)
    table = []
    for pat, val in re.findall(r'((?:UpdateFunction::\w+\s*\|?\s*)+)=>\s*(\d+)', ar):
        for f in re.findall(r'UpdateFunction::(\w+)', pat):
            table.append((f, int(val)))
    if not table:
        lost(G, 'UpdateFunction::arity')
    out.append('Definition update_arity : list (string * nat) := [%s].\n' % '; '.join('(%s, %d)' % (coq_string(f), n) for f, n in sorted(table)))

    # ---- guard_immutable_field: kind -> constant table
    gi = fn_body(kml, 'guard_immutable_field', G)
    imm = re.findall(r'Some\(BoundKind::(\w+)\)\s*if\s*(\w+)\.contains\(&field\)\s*=>\s*Err', gi)
    if not imm:
        lost(G, 'guard_immutable_field arms')
    out.append('Definition immutable_guard : list (string * string) := [%s].\n' % '; '.join('(%s, %s)' % (coq_string(k), coq_string(t)) for k, t in imm))
    # ---- guard_structural_mutation: refused kinds
    gs = fn_body(kml, 'guard_structural_mutation', G)
    rej = []
    for pat, arm in match_arms(gs):
        if re.match(r'\s*\{?\s*Err\b', arm.strip()) or arm.strip().startswith('Err'):
            rej += re.findall(r'BoundKind::(\w+)', pat)
    if not rej:
        lost(G, 'guard_structural_mutation arms')
    out.append('Definition structural_rejects : list string := %s.\n' % coq_list(rej))
    # ---- guard_update: the payload / structural guards are applied inside a walk over EVERY action
    gu = fn_body(kml, 'guard_update', G)
    per_action = False
    for m in re.finditer(r'for\s+\w+\s+in\s+&?\s*statement\s*\.\s*actions(?:\s*\.\s*iter\(\))?\s*\{|statement\s*\.\s*actions\s*\.\s*iter\(\)\s*\.\s*(?:try_for_each|for_each|all)\s*\(', gu):
        # brace/paren-match the loop body
        i = m.end()
        open_c = gu[i - 1]
        close_c = '}' if open_c == '{' else ')'
        depth = 1
        while i < len(gu) and depth:
            if gu[i] == open_c:
                depth += 1
            elif gu[i] == close_c:
                depth -= 1
            i += 1
        body = gu[m.end():i]
        if 'guard_immutable_field' in body and 'guard_structural_mutation' in body:
            per_action = True
    # anything that picks one action (or a prefix) out of the list instead of walking it
    picks = sorted(set(re.findall(r'\.\s*(find_map|find|first|last|next|nth|take|skip|position|get)\s*\(', gu)))
    indexed = ['actions[..]'] if re.search(r'actions\s*\[', gu) else []
    out.append('(* guard_update walks every UPDATE action with both guards inside the walk; nothing selects a single action *)\n')
    out.append('Definition guard_update_per_action : bool := %s.\n' % ('true' if per_action else 'false'))
    out.append('Definition guard_update_action_selectors : list string := %s.\n' % coq_list(picks + indexed))

    # ---- upsert identity selector
    up = fn_body(kml, 'upsert_has_stable_identity_selector', G)
    m = re.search(r'\[((?:\s*"[^"]*"\s*,?)+)\]\s*\.iter\(\)\s*\.any', up)
    idf = re.findall(r'"([^"]*)"', m.group(1)) if m else None
    if idf is None:
        lost(G, 'upsert identity fields')
        idf = []
    forms = re.findall(r'MatchValue::(\w+)\(_\)', up)
    out.append('Definition upsert_identity_fields : list string := %s.\n' % coq_list(idf))
    out.append('Definition upsert_identity_forms : list string := %s.\n' % coq_list(forms))

    # ---- validate_clause: which fields of which variant are read; PURGE literal
    vc = fn_body(kml, 'validate_clause', G)
    # the big match is the one on `clause` after the closures
    idx = vc.rfind('match clause {')
    arms = match_arms(vc[idx:]) if idx >= 0 else []
    if not arms:
        lost(G, 'validate_clause arms')
    rows = []
    purge = None
    for pat, arm in arms:
        vs = variants(pat)
        if not vs:
            continue
        fields = []
        for f in re.findall(r'\bc\.(?:r#)?(\w+)', pat + ' ' + arm):
            if f not in fields:
                fields.append(f)
        for v in vs:
            rows.append((v, fields))
        if 'Purge' in vs:
            m = re.search(r'c\.confirm\s*!=\s*"([^"]*)"', pat + arm)
            purge = m.group(1) if m else None
    out.append('Definition validate_clause_reads : list (string * list string) := [\n  %s].\n' % ';\n  '.join(
        '(%s, %s)' % (coq_string(v), coq_list(fs)) for v, fs in rows))
    if purge is None:
        lost(G, 'PURGE literal')
        purge = ''
    out.append('Definition purge_literal : string := %s.\n' % coq_string(purge))

    # ---- clause_where / MutationClause::handle / collect_clause_handles
    cw = fn_body(kml, 'clause_where', G)
    wv = []
    for pat, arm in match_arms(cw):
        if 'where_clauses' in arm:
            wv += variants(pat)
    out.append('Definition clause_where_variants : list string := %s.\n' % coq_list(wv))
    hb = fn_body(ast, 'handle', G)
    hv = []
    for pat, arm in match_arms(hb):
        if 'handle' in arm:
            hv += variants(pat)
    out.append('Definition handle_variants : list string := %s.\n' % coq_list(hv))
    ch = fn_body(kml, 'collect_clause_handles', G)
    idx = ch.rfind('match clause {')
    rows = []
    for pat, arm in (match_arms(ch[idx:]) if idx >= 0 else []):
        vs = variants(pat)
        fields = []
        for f in re.findall(r'\bc\.(?:r#)?(\w+)', arm):
            if f not in fields:
                fields.append(f)
        for v in vs:
            rows.append((v, fields))
    if not rows:
        lost(G, 'collect_clause_handles arms')
    out.append('Definition collect_handles_reads : list (string * list string) := [\n  %s].\n' % ';\n  '.join(
        '(%s, %s)' % (coq_string(v), coq_list(fs)) for v, fs in rows))

    # ---- payloads the Coq AST keeps opaque: the validator must not look inside them
    cwv = fn_body(common, 'collect_where_variables', G)
    filter_skipped = bool(re.search(r'WhereClause::Filter\s*\{\s*\.\.\s*\}\s*=>\s*\{\s*\}', cwv))
    # every function of kml.rs from the guards down (everything after `fn update_action`), i.e. the tree validator
    vstart = kml.find('fn bound_kind')
    validator_src = kml[vstart:] if vstart >= 0 else ''
    if not validator_src:
        lost(G, 'validator region of kml.rs')
    inspected = sorted(set(re.findall(r'\b(FilterExpression|FilterOperand|FilterFunction|AsOf|HopRange|KipValue::Object|KipValue::Number|Number::)\b', validator_src)))
    # WhereClause::Filter may be named only in arms that ignore its payload
    filter_arms = re.findall(r'WhereClause::Filter\s*\{([^}]*)\}', validator_src)
    filter_payload_read = [a.strip() for a in filter_arms if a.strip() not in ('..', '')]
    out.append('(* opaque payloads (FILTER expressions, AsOf, hop ranges, numbers, KipValue objects): what the tree validator names of them *)\n')
    out.append('Definition opaque_payloads_inspected : list string := %s.\n' % coq_list(inspected + filter_payload_read))
    out.append('Definition filter_binds_nothing : bool := %s.\n' % ('true' if filter_skipped else 'false'))

    # ---- validate_command arms
    vcmd = fn_body(parser, 'validate_command', G)
    arms = [(' '.join(p.split()), a) for p, a in match_arms(vcmd)]
    kml_arm = any('Command::Kml' in p and 'validate_plan' in a for p, a in arms)
    exp_arm = any('ExportCapsule' in p and 'validate_exact_patterns' in a for p, a in arms)
    out.append('Definition validate_command_kml_runs_validate_plan : bool := %s.\n' % ('true' if kml_arm else 'false'))
    out.append('Definition validate_command_export_runs_exact_patterns : bool := %s.\n' % ('true' if exp_arm else 'false'))
    pk = fn_body(parser, 'parse_kip', G)
    out.append('Definition parse_kip_runs_validate_command : bool := %s.\n' % ('true' if re.search(r'validate_command\(&command\)\?', pk) else 'false'))
    return G, ''.join(out)
