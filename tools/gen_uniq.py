"""Gen_Uniq: the step orders and rollback shapes of add/update/remove and of the B-tree update paths (C04).

Every item is a syntactic fact about the current source that the C04 model is written against:
the model takes `btree_update_insert_first` as a parameter, the others are pinned by C04_gen_* theorems.
"""
import re
from trlib import *  # noqa: F401,F403

G = 'Gen_Uniq'


def _pos(body, pat, item, last=False):
    ms = list(re.finditer(pat, body, re.S))
    if not ms:
        lost(G, item)
        return -1
    return (ms[-1] if last else ms[0]).start()


def _b(x):
    return 'true' if x else 'false'


def _steps(body, table, item):
    """order of the first occurrence of each tagged pattern; a missing pattern is a lost anchor"""
    found = []
    for tag, pat in table:
        m = re.search(pat, body, re.S)
        if not m:
            lost(G, '%s.%s' % (item, tag))
            continue
        found.append((m.start(), tag))
    return [t for _, t in sorted(found)]


def generate(repo):
    coll = strip_rust_comments(read(repo, 'rs/anda_db/src/collection.rs'))
    ixb = strip_rust_comments(read(repo, 'rs/anda_db/src/index/btree.rs'))
    bt = strip_rust_comments(read(repo, 'rs/anda_db_btree/src/btree.rs'))
    out = [HEADER, 'From Coq Require Import List String.\nImport ListNotations.\nOpen Scope string_scope.\n']

    # --- index/btree.rs BTree::update: insert(new)? then remove(old) on the scalar path
    upd = fn_body(ixb, 'update', G, kind=r'pub\s+fn')
    pi = _pos(upd, r'self\s*\.\s*insert\(\s*doc_id,\s*new_value,\s*now_ms\s*\)\s*\?', 'BTree::update.insert(new)?', last=True)
    pr = _pos(upd, r'self\s*\.\s*remove\(\s*doc_id,\s*old_value,\s*now_ms\s*\)', 'BTree::update.remove(old)', last=True)
    out.append('Definition btree_update_insert_first : bool := %s.\n' % _b(0 <= pi < pr))
    pb = _pos(upd, r'\.batch_update\(', 'BTree::update.batch_update')
    out.append('Definition btree_update_arrays_use_batch : bool := %s.\n' % _b(0 <= pb < pi))

    # --- anda_db_btree batch_update: insert_array(new - old)? then remove_array(old - new)
    bu = fn_body(bt, 'batch_update', G, kind=r'pub\s+fn')
    bi = _pos(bu, r'self\s*\.\s*insert_array\([^;]*?\)\s*\?', 'batch_update.insert_array?')
    br = _pos(bu, r'self\s*\.\s*remove_array\(', 'batch_update.remove_array')
    diff_ok = re.search(r'to_insert[^;]*new_set\s*\.\s*difference\(\s*&old_set\s*\)', bu) and \
        re.search(r'to_remove[^;]*old_set\s*\.\s*difference\(\s*&new_set\s*\)', bu)
    out.append('Definition batch_update_insert_first : bool := %s.\n' % _b(0 <= bi < br and diff_ok))

    # --- the uniqueness test is made on the occupied posting entry (under its lock), in insert and insert_array
    def under_entry(fn, item):
        body = fn_body(bt, fn, G, kind=r'pub\s+fn')
        e = _pos(body, r'match\s+self\s*\.\s*postings\s*\.\s*entry\(', item + '.entry')
        o = body.find('dashmap::Entry::Occupied', e if e >= 0 else 0)
        v = body.find('dashmap::Entry::Vacant', e if e >= 0 else 0)
        c = _pos(body[o:v] if 0 <= o < v else '',
                 r'if\s+!\s*self\s*\.\s*config\s*\.\s*allow_duplicates(?:\s*&&\s*![^&{]+?)*?\s*&&\s*!\s*posting\s*\.\s*2\s*\.\s*contains\(\s*&doc_id\s*\)',
                 item + '.check')
        err = 'AlreadyExists' in (body[o:v] if 0 <= o < v else '')
        return e >= 0 and 0 <= o < v and c >= 0 and err
    out.append('Definition insert_unique_check_under_entry_lock : bool := %s.\n' % _b(under_entry('insert', 'BTreeIndex::insert')))
    out.append('Definition insert_array_recheck_under_entry_lock : bool := %s.\n' % _b(under_entry('insert_array', 'BTreeIndex::insert_array')))

    # --- unique / multi-field indexes are placed at position 0
    cbi = fn_body(coll, 'create_btree_index', G, kind=r'pub\s+async\s+fn')
    li = fn_body(coll, 'load_indexes', G, kind=r'async\s+fn')
    front_create = re.search(r'if\s+field\s*\.\s*unique\(\)\s*\{\s*self\s*\.\s*btree_indexes\s*\.\s*insert\(\s*0\s*,\s*index\s*\)\s*;\s*\}\s*else\s*\{\s*self\s*\.\s*btree_indexes\s*\.\s*push\(\s*index\s*\)', cbi)
    front_load = re.search(r'if\s+field\s*\.\s*unique\(\)\s*\{\s*btree_indexes\s*\.\s*insert\(\s*0\s*,\s*index\s*\)\s*;\s*\}\s*else\s*\{\s*btree_indexes\s*\.\s*push\(\s*index\s*\)', li)
    virt = cbi[cbi.find('with_virtual_field'):] if 'with_virtual_field' in cbi else ''
    front_virtual = re.search(r'self\s*\.\s*btree_indexes\s*\.\s*insert\(\s*0\s*,\s*index\s*\)', virt)
    if not (front_create and front_load and front_virtual):
        lost(G, 'unique index position 0')
    out.append('Definition unique_index_front : bool := %s.\n' % _b(front_create and front_load and front_virtual))
    wvf = fn_body(ixb, 'with_virtual_field', G, kind=r'pub\s+async\s+fn')
    out.append('Definition virtual_index_unique : bool := %s.\n' % _b(re.search(r'allow_duplicates\s*:\s*false', wvf)))
    nw = fn_body(ixb, 'new', G, kind=r'pub\s+async\s+fn')
    out.append('Definition field_index_unique_iff_field_unique : bool := %s.\n' % _b(re.search(r'allow_duplicates\s*:\s*!\s*field\s*\.\s*unique\(\)', nw)))

    # --- add_impl
    add = fn_body(coll, 'add_impl', G, kind=r'async\s+fn')
    rec = _pos(add, r'btree_inserted\s*\.\s*insert\(\s*index\s*,', 'add_impl.record')
    ins = _pos(add, r'index\s*\.\s*insert\(\s*id\s*,\s*&fv\s*,\s*now_ms\s*\)\s*\?', 'add_impl.index.insert?')
    out.append('Definition add_records_before_insert : bool := %s.\n' % _b(0 <= rec < ins))
    rb = re.search(r'let\s+rollback_indexes\s*=\s*\|\|\s*\{(.*?)\n        \};', add, re.S)
    rb_ok = bool(rb and re.search(r'for\s*\(\s*k\s*,\s*v\s*\)\s*in\s+btree_inserted\s*\{\s*k\s*\.\s*remove\(\s*id\s*,\s*&v\s*,', rb.group(1)))
    calls = len(re.findall(r'rollback_indexes\(\)', add))
    out.append('Definition add_rollback_removes_recorded : bool := %s.\n' % _b(rb_ok and calls >= 2))
    out.append('Definition add_steps : list string := [%s].\n' % '; '.join(coq_string(t) for t in _steps(add, [
        ('validate', r'self\s*\.\s*schema\s*\.\s*validate\('),
        ('allocate_id', r'max_document_id\s*\.\s*fetch_add\('),
        ('watermark', r'ensure_allocation_watermark\('),
        ('index_loop', r'for\s+index\s+in\s+&self\s*\.\s*btree_indexes'),
        ('rollback_on_index_error', r'if\s+let\s+Err\(err\)\s*=\s*rt\s*\{\s*rollback_indexes\(\)'),
        ('storage_create', r'self\s*\.\s*storage\s*\.\s*create\('),
        ('register_id', r'self\s*\.\s*doc_ids\s*\.\s*write\(\)\s*\.\s*add\(\s*id\s*\)'),
    ], 'add_impl')))
    null_skip = re.search(r'if\s+fv\s*\.\s*as_ref\(\)\s*==\s*&FieldValue::Null\s*\{\s*continue;', add)
    out.append('Definition add_skips_null : bool := %s.\n' % _b(null_skip))

    # --- update_impl
    up = fn_body(coll, 'update_impl', G, kind=r'async\s+fn')
    FWD = r'index\s*\.\s*update\(\s*id\s*,\s*&old_value\s*,\s*&new_value\s*,\s*now_ms\s*\)'
    REV = r'index\s*\.\s*update\(\s*id\s*,\s*&new_value\s*,\s*&old_value\s*,\s*now_ms\s*\)'
    u1 = _pos(up, FWD, 'update_impl.index.update')
    u2 = _pos(up, r'btree_updated\s*\.\s*insert\(\s*index\s*,', 'update_impl.record')
    out.append('Definition update_records_after_update : bool := %s.\n' % _b(0 <= u1 < u2))
    # the failing index is restored in place: if let Err(err) = index.update(old,new) { let _ = index.update(new,old); return Err(err) }
    comp = re.search(r'if\s+let\s+Err\(err\)\s*=\s*' + FWD + r'\s*\{\s*let\s+_\s*=\s*' + REV + r'\s*;\s*return\s+Err\(err\)\s*;\s*\}', up)
    prop = re.search(FWD + r'\s*\?\s*;', up)
    if not comp and not prop:
        lost(G, 'update_impl.index.update error path')
    out.append('Definition update_compensates_failed_index : bool := %s.\n' % _b(comp and 0 <= u1 < u2))
    rbu = re.search(r'let\s+rollback_indexes\s*=\s*\|\|\s*\{(.*?)\n        \};', up, re.S)
    rbu_ok = bool(rbu and re.search(r'for\s*\(\s*k\s*,\s*v\s*\)\s*in\s+btree_updated\s*\{\s*if\s+let\s+Err\(err\)\s*=\s*k\s*\.\s*update\(\s*id\s*,\s*&v\s*\.\s*1\s*,\s*&v\s*\.\s*0\s*,', rbu.group(1))
                  and re.search(r'restored\s*=\s*false', rbu.group(1)))
    poison = re.search(r'if\s+let\s+Err\(err\)\s*=\s*rt\s*\{\s*if\s*!\s*rollback_indexes\(\)\s*\{\s*self\s*\.\s*poison\(', up)
    out.append('Definition update_rollback_restores_or_poisons : bool := %s.\n' % _b(rbu_ok and poison))
    out.append('Definition update_steps : list string := [%s].\n' % '; '.join(coq_string(t) for t in _steps(up, [
        ('missing_doc', r'if\s*!\s*self\s*\.\s*doc_ids\s*\.\s*read\(\)\s*\.\s*contains\(\s*id\s*\)'),
        ('empty_fields', r'if\s+fields\s*\.\s*is_empty\(\)'),
        ('doc_lock', r'self\s*\.\s*doc_lock\(\s*id\s*\)\s*\.\s*lock\(\)'),
        ('load', r'\.\s*get::<DocumentOwned>\('),
        ('set_fields', r'doc\s*\.\s*set_field\(\s*&field_name\s*,\s*fv\s*\)\s*\?'),
        ('validate', r'self\s*\.\s*schema\s*\.\s*validate\('),
        ('intent', r'self\s*\.\s*record_mutation_intent\('),
        ('index_loop', r'for\s+index\s+in\s+&self\s*\.\s*btree_indexes'),
        ('rollback_on_index_error', r'if\s+let\s+Err\(err\)\s*=\s*rt\s*\{'),
        ('storage_put', r'self\s*\.\s*storage\s*\.\s*put\(\s*&path\s*,\s*&doc\s*,\s*Some\(ver\)\s*\)'),
    ], 'update_impl')))
    touched = re.search(r'if\s+fields_keys\s*\.\s*iter\(\)\s*\.\s*any\(\s*\|v\|\s*fields\s*\.\s*contains\(\s*v\s*\)\s*\)', up)
    out.append('Definition update_only_touched_indexes : bool := %s.\n' % _b(touched))

    # --- remove_impl
    rm = fn_body(coll, 'remove_impl', G, kind=r'async\s+fn')
    out.append('Definition remove_steps : list string := [%s].\n' % '; '.join(coq_string(t) for t in _steps(rm, [
        ('missing_doc', r'if\s*!\s*self\s*\.\s*doc_ids\s*\.\s*read\(\)\s*\.\s*contains\(\s*id\s*\)'),
        ('doc_lock', r'self\s*\.\s*doc_lock\(\s*id\s*\)\s*\.\s*lock\(\)'),
        ('load', r'\.\s*get::<DocumentOwned>\('),
        ('intent', r'self\s*\.\s*record_mutation_intent\('),
        ('index_loop', r'for\s+index\s+in\s+&self\s*\.\s*btree_indexes'),
        ('storage_delete', r'self\s*\.\s*storage\s*\.\s*delete\(\s*&path\s*\)'),
        ('unregister_id', r'doc_ids_index\s*\.\s*remove\(\s*&id\s*\)'),
    ], 'remove_impl')))
    return G, ''.join(out)
