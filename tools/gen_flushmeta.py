"""Gen_FlushMeta: the collection-metadata step of a flush (Collection::store_metadata, collection.rs) — C05.

Order of: snapshot of the metadata (`self.metadata()`), the PUT of that snapshot, and the advance of the flush
watermark `last_saved_version` — and WHICH version the watermark is advanced to: the snapshot's
(`<snapshot binding>.stats.version`) or anything else (a live read), plus the presence of the no-op fast path.
"""
import re
from trlib import *  # noqa: F401,F403

G = 'Gen_FlushMeta'
SRC = 'rs/anda_db/src/collection.rs'


def generate(repo):
    full = strip_rust_comments(read(repo, SRC))
    cut = full.find('#[cfg(test)]\nmod tests')
    src = full if cut < 0 else full[:cut]
    body = fn_body(src, 'store_metadata', G)
    ev = []
    snap_var = None
    m = re.search(r'let\s+(?:mut\s+)?(\w+)\s*=\s*self\s*\.\s*metadata\s*\(\s*\)\s*;', body)
    if m:
        snap_var = m.group(1)
        ev.append((m.start(), 'FSnap'))
    else:
        lost(G, 'store_metadata: metadata snapshot')
    m = re.search(r'\.\s*put_bytes\s*\(', body)
    if m:
        ev.append((m.start(), 'FPut'))
    else:
        lost(G, 'store_metadata: put_bytes')
    recs = list(re.finditer(r'last_saved_version\s*\.\s*(?:fetch_max|store)\s*\(\s*([^,]+?)\s*,', body))
    if len(recs) != 1:
        lost(G, 'store_metadata: exactly one advance of last_saved_version (found %d)' % len(recs))
    for r in recs:
        arg = ' '.join(r.group(1).split())
        if snap_var and re.fullmatch(r'%s\s*\.\s*stats\s*\.\s*version' % re.escape(snap_var), arg):
            # the snapshot binding must not have been re-assigned from live state before
            reassigned = re.search(r'\b%s\s*(?:\.\s*stats\s*\.\s*version)?\s*=[^=]' % re.escape(snap_var), body[:r.start()].split('self.metadata()', 1)[-1])
            ev.append((r.start(), 'FRecordLive' if reassigned else 'FRecordSnap'))
        else:
            ev.append((r.start(), 'FRecordLive'))
    ev.sort()
    fast = re.search(r'last_saved_version\s*\.\s*load\s*\([^)]*\)\s*>=', body) is not None
    out = [HEADER, '(* source: %s (store_metadata) *)\n' % SRC,
           'From Coq Require Import List.\nFrom Verif Require Import Conc.FlushMeta.\nImport ListNotations.\n\n',
           'Definition store_metadata_program : list fop := [%s].\n' % '; '.join(n for _, n in ev),
           'Definition store_metadata_has_fast_path : bool := %s.\n' % ('true' if fast else 'false')]
    return G, ''.join(out)
