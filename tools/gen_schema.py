"""Gen_Schema: budget constants, match-arm tables and step orders of anda_db_schema (C13)."""
import re
from trlib import *  # noqa: F401,F403

G = 'Gen_Schema'


def _norm(s):
    return ' '.join(s.split())


def _strlist(xs):
    return '[%s]' % '; '.join(coq_string(x) for x in xs)


def _arms_pair(body):
    """arms of `match (self, value)`: (type ctor, value pattern head, guard)"""
    out = []
    for m in re.finditer(r'\(FieldType::(\w+)(?:\([^)]*\))?,\s*(FieldValue::(\w+)(?:\([^)]*\))?|_|\w+)\s*\)\s*(?:if\s+(.+?))?\s*=>', body, re.S):
        vpat = m.group(3) or m.group(2)
        out.append('%s/%s/%s' % (m.group(1), vpat, 'guarded' if m.group(4) else ''))
    return out


def _arms_single(body):
    """arms of `match self { FieldType::X(..) [if g] => ...` at the top level of a fn body"""
    out = []
    for m in re.finditer(r'\n {12}FieldType::(\w+)(?:\([^)]*\))?\s*(?:if\s+(.+?))?\s*=>', body, re.S):
        out.append('%s/%s' % (m.group(1), 'guarded' if m.group(2) else ''))
    return out


def _order(body, names):
    """the given call names in order of first appearance"""
    pos = []
    for n in names:
        i = body.find(n)
        if i < 0:
            lost(G, 'call ' + n)
            continue
        pos.append((i, n))
    return [n for _, n in sorted(pos)]


def generate(repo):
    field = strip_rust_comments(read(repo, 'rs/anda_db_schema/src/field.rs'))
    docrs = strip_rust_comments(read(repo, 'rs/anda_db_schema/src/document.rs'))
    schrs = strip_rust_comments(read(repo, 'rs/anda_db_schema/src/schema.rs'))
    out = [HEADER, 'From Coq Require Import List String ZArith.\nFrom Verif Require Import Schema.Model.\nImport ListNotations.\n']

    # --- budget
    m = re.search(r'impl\s+Default\s+for\s+FieldValueBudget\s*\{(.*?)\n\}', field, re.S)
    vals = {}
    if not m:
        lost(G, 'impl Default for FieldValueBudget')
    else:
        for f in ('max_depth', 'max_nodes', 'max_array_len', 'max_map_entries'):
            mm = re.search(r'\b%s\s*:\s*([0-9_]+)' % f, m.group(1))
            if not mm:
                lost(G, 'budget.' + f)
            else:
                vals[f] = int(mm.group(1).replace('_', ''))
    mm = re.search(r'pub\s+const\s+MAX_CONVERSION_DEPTH\s*:\s*usize\s*=\s*([0-9_]+)\s*;', field)
    if not mm:
        lost(G, 'MAX_CONVERSION_DEPTH')
    else:
        vals['max_conv'] = int(mm.group(1).replace('_', ''))
    if len(vals) == 5:
        out.append('Definition gen_limits : limits :=\n  {| max_depth := Z.to_nat %d; max_nodes := Z.to_nat %d; max_array_len := Z.to_nat %d; '
                   'max_map_entries := Z.to_nat %d; max_conv := Z.to_nat %d |}.\n'
                   % (vals['max_depth'], vals['max_nodes'], vals['max_array_len'], vals['max_map_entries'], vals['max_conv']))
    # validate() runs the default budget, conversion depth test is `depth > MAX`
    body = fn_body(field, 'check_conversion_depth', G)
    out.append('Definition conv_depth_test : string := %s.\n' % coq_string(_norm(re.search(r'if\s+(.*?)\s*\{', body, re.S).group(1)) if body and re.search(r'if\s+(.*?)\s*\{', body, re.S) else ''))

    # --- wildcard sentinels
    wild = []
    for name, pat in (('TEXT_WILDCARD_KEY', r'"\*"\.into\(\)'), ('BYTES_WILDCARD_KEY', r'b"\*"\.into\(\)'), ('I64_WILDCARD_KEY', r'FieldKey::I64\(i64::MIN\)')):
        mm = re.search(r'pub\s+static\s+%s\s*:[^=]*=\s*std::sync::LazyLock::new\(\|\|\s*(.*?)\);' % name, field, re.S)
        if not mm:
            lost(G, name)
            continue
        wild.append('%s=%s' % (name, _norm(mm.group(1))))
    out.append('Definition wildcard_sentinels : list string := %s.\n' % _strlist(wild))

    # --- match arms
    for fn, extractor, cname in (('validate_inner', _arms_pair, 'validate_arms'), ('normalize_at', _arms_single, 'normalize_arms'),
                                 ('prune_undeclared_at', _arms_single, 'prune_arms')):
        body = fn_body(field, fn, G)
        arms = extractor(body) if body else []
        if not arms:
            lost(G, fn + ' arms')
        out.append('Definition %s : list string := %s.\n' % (cname, _strlist(arms)))
    # --- inner structure of the composite arms: element-type dispatch of arrays, key dispatch of maps
    def _arm_region(body, ctor):
        m = re.search(r'\n {12}FieldType::%s(?:\([^)]*\))?[^\n]*=>' % ctor, body)
        if not m:
            return ''
        n = re.search(r'\n {12}(?:FieldType::\w+|_)\b[^\n]*=>', body[m.end():])
        return body[m.end():m.end() + n.start()] if n else body[m.end():]

    for fn, cname in (('prune_undeclared_at', 'prune'), ('normalize_at', 'normalize')):
        body = fn_body(field, fn, G)
        arr = _arm_region(body, 'Array')
        mp = _arm_region(body, 'Map')
        if not arr or not mp:
            lost(G, fn + ' Array/Map arm')
        shape = []
        if re.search(r'match\s+types\.len\(\)', arr):
            shape.append('match types.len()')
        shape += ['arm ' + a for a in re.findall(r'\n\s+(0|1|_)\s*=>', arr)]
        if re.search(r'for\s+\w+\s+in\s+values\.iter_mut\(\)\s*\{\s*types\[0\]\.%s\(' % fn, arr):
            shape.append('every element with types[0]')
        if re.search(r'types\.iter\(\)\.zip\(values\.iter_mut\(\)\)', arr):
            shape.append('zip types values')
        shape.append('recursive calls %d' % len(re.findall(r'\.%s\(' % fn, arr)))
        out.append('Definition %s_array_shape : list string := %s.\n' % (cname, _strlist(shape)))
        mshape = []
        if 'as_wildcard_map(types)' in mp:
            mshape.append('as_wildcard_map')
        if re.search(r'values\.values_mut\(\)', mp):
            mshape.append('wildcard: every value')
        if re.search(r'values\.retain\(\|k,\s*_\|\s*types\.contains_key\(k\)\)', mp):
            mshape.append('retain declared keys')
        if re.search(r'types\.get\(k\)', mp):
            mshape.append('keyed: types.get(k)')
        mshape.append('recursive calls %d' % len(re.findall(r'\.%s\(' % fn, mp)))
        out.append('Definition %s_map_shape : list string := %s.\n' % (cname, _strlist(mshape)))
    nb = fn_body(field, 'normalize_at', G)
    guards = [g for g in ('<= i64::MAX', 'is_f32_read_back(', '<= u16::MAX') if g in _norm(nb)]
    out.append('Definition normalize_guards : list string := %s.\n' % _strlist(guards))
    vb = fn_body(field, 'validate', G)
    out.append('Definition validate_steps : list string := %s.\n' % _strlist(_order(vb, ['validate_complexity', 'validate_inner'])))
    cb = fn_body(field, 'validate_complexity_with', G)
    out.append('Definition complexity_depth_steps : nat := %d.\n' % len(re.findall(r'depth \+ 1', cb)))
    out.append('Definition complexity_checks : list string := %s.\n' % _strlist(
        [c for c in ('nodes > budget.max_nodes', 'depth > budget.max_depth', 'values.len() > budget.max_array_len', 'values.len() > budget.max_map_entries')
         if c in _norm(cb)]))

    # --- step orders in document.rs
    b = fn_body(docrs, 'try_from_doc', G)
    out.append('Definition try_from_doc_steps : list string := %s.\n' % _strlist(_order(b, ['drop_retired_fields', 'normalize_fields', 'schema.validate'])))
    b = fn_body(docrs, 'normalize_fields', G)
    out.append('Definition normalize_fields_steps : list string := %s.\n' % _strlist(_order(b, ['prune_undeclared', '.normalize('])))
    b = fn_body(docrs, 'set_field', G)
    out.append('Definition set_field_steps : list string := %s.\n' % _strlist(_order(b, ['.normalize(', 'field.validate(', 'self.fields.insert('])))
    b = fn_body(docrs, 'set_doc', G)
    out.append('Definition set_doc_steps : list string := %s.\n' % _strlist(_order(b, ['drop_retired_fields', 'normalize_fields', 'schema.validate'])))
    b = fn_body(docrs, 'drop_retired_fields', G)
    out.append('Definition drop_retired_test : string := %s.\n' % coq_string('>= allocated_end' if re.search(r'>=\s*allocated_end', b) else ''))

    # --- upgrade_with: index allocation starts at the watermark, new fields must be optional
    ub = fn_body(schrs, 'upgrade_with', G)
    facts = []
    for tag, pat in (('alloc_from_watermark', r'let\s+mut\s+next_idx\s*=\s*old\.allocated_idx_end\(\)'),
                     ('new_must_be_optional', r'if\s+field\.required\(\)\s*\{\s*return\s+Err'),
                     ('inherit_idx', r'field\.set_idx\(old_field\.idx\(\)\)'),
                     ('assign_next', r'field\.set_idx\(next_idx\);\s*next_idx\s*\+=\s*1'),
                     ('carry_watermark', r'self\.next_idx\s*=\s*next_idx'),
                     ('version_must_grow', r'if\s+!self\.needs_upgrade\(old\)\s*\{\s*return\s+Err'),
                     ('compat_checked', r'if\s+!field\.r#type\(\)\.is_compatible_upgrade_of\(old_field\.r#type\(\)\)\s*\{\s*return\s+Err')):
        facts.append('%s=%s' % (tag, 'yes' if re.search(pat, ub, re.S) else 'no'))
    ab = fn_body(schrs, 'allocated_idx_end', G)
    facts.append('watermark_is_max_of_next_idx_and_last=%s' % ('yes' if re.search(r'self\.next_idx\s*\.max\(\s*self\.idx\.last\(\)', ab) else 'no'))
    out.append('Definition upgrade_facts : list string := %s.\n' % _strlist(facts))
    return G, ''.join(out)
