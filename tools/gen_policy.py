"""Gen_Policy: projection policy constants and stage orders (C20)."""
import re
from trlib import *  # noqa: F401,F403


# ---------------------------------------------------------------------------------- Gen_Policy
def generate(repo):
    g = 'Gen_Policy'
    pol = strip_rust_comments(read(repo, 'rs/anda_cognitive_nexus/src/projection/policy.rs'))
    prj = strip_rust_comments(read(repo, 'rs/anda_cognitive_nexus/src/projection/mod.rs'))
    base = fn_body(pol, 'baseline', g)
    out = [HEADER, 'From Coq Require Import List String Floats.\nFrom Verif Require Import Belief.Model.\nImport ListNotations.\n']
    for field in ('accept', 'material', 'unstated_confidence'):
        m = re.search(r'\b%s\s*:\s*([0-9.]+)\s*,' % field, base)
        if not m:
            lost(g, 'baseline.' + field)
            continue
        out.append('Definition baseline_%s : float := %s.  (* %s *)\n' % (field, f64_lit(m.group(1)), m.group(1)))
    m = re.search(r'modes\s*:\s*vec!\[(.*?)\]', base, re.S)
    if m:
        modes = re.findall(r'AssertionMode::(\w+)', m.group(1))
        out.append('Definition baseline_modes : list mode := [%s].\n' % '; '.join(modes))
    else:
        lost(g, 'baseline.modes')
    m = re.search(r'expand_conflicts\s*:\s*(true|false)', base)
    if m:
        out.append('Definition baseline_expand : bool := %s.\n' % m.group(1))
    else:
        lost(g, 'baseline.expand_conflicts')
    # aggregate: is the fold over sorted confidences?
    agg = fn_body(prj, 'aggregate', g)
    if agg:
        fold = agg.find('.fold(')
        if fold < 0:
            lost(g, 'aggregate.fold')
        srt = re.search(r'\.sort_by\(\s*f64::total_cmp\s*\)|sort_by\(\|a,\s*b\|\s*a\.total_cmp\(b\)\)', agg[:fold if fold > 0 else 0])
        out.append('Definition score_fold_sorted : bool := %s.\n' % ('true' if srt else 'false'))
        out.append('Definition group_conf_uses_max : bool := %s.\n' % ('true' if re.search(r'\.1\s*=\s*groups\[\w+\]\.1\.max\(', agg) else 'false'))
    # classify: order of the returned statuses
    cls = fn_body(prj, 'classify', g)
    if cls:
        order = re.findall(r'BeliefStatus::(\w+)', cls)
        out.append('Definition classify_order : list status := [%s].\n' % '; '.join(order))
        conds = re.findall(r'if\s+(.*?)\s*\{', cls, re.S)
        conds = [' '.join(c.split()) for c in conds]
        out.append('Definition classify_conditions : list string := [%s].\n' % '; '.join(coq_string(c) for c in conds))
    # eligible: order of the exclusion reasons
    elig = fn_body(prj, 'eligible', g)
    if elig:
        # an absent asserted_by (stored as JSON null) has no recorded actor: it is its own group
        out.append('Definition unattributed_is_anonymous : bool := %s.\n' % (
            'true' if re.search(r'asserted_by_key\s*\.\s*is_empty\(\)\s*\|\|\s*row\s*\.\s*asserted_by\s*\.\s*is_null\(\)', elig) else 'false'))
        reasons = re.findall(r'reject\("(\w+)"\)', elig)
        out.append('Definition eligible_reasons : list string := [%s].\n' % '; '.join(coq_string(r) for r in reasons))
    # the instant handed to the projection: eligible() compares `at` with the stored valid_from/valid_until
    # as text, which is the chronological order only if `at` is in the stored (normalised) form
    kq = strip_rust_comments(read(repo, 'rs/anda_cognitive_nexus/src/kql/mod.rs'))
    runb = fn_body(kq, 'run', g)
    if runb:
        assigns = re.findall(r'\bcx\s*\.\s*at\s*=\s*([^;]+);', runb)
        if not assigns:
            lost(g, 'run: cx.at = ... (FOR TIME)')
        ok = bool(assigns) and all(re.match(r'crate\s*::\s*time\s*::\s*normalize\s*\(', a.strip()) for a in assigns)
        out.append('Definition for_time_at_normalized : bool := %s.\n' % ('true' if ok else 'false'))
    other = [m for m in re.finditer(r'\.\s*at\s*=[^=]', kq)]
    out.append('Definition context_at_assignments : nat := %d.\n' % len(other))
    out.append('Definition default_at_is_now : bool := %s.\n' % (
        'true' if re.search(r'\bat\s*:\s*crate\s*::\s*time\s*::\s*now\s*\(\s*\)', kq) else 'false'))
    tm = strip_rust_comments(read(repo, 'rs/anda_cognitive_nexus/src/time.rs'))
    fmt = fn_body(tm, 'format', g)
    nrm = fn_body(tm, 'normalize', g)
    now = fn_body(tm, 'now', g)
    out.append('Definition stored_time_is_millis_utc : bool := %s.\n' % ('true' if (
        re.search(r'to_rfc3339_opts\(\s*SecondsFormat::Millis\s*,\s*true\s*\)', fmt)
        and re.search(r'format\(\s*parsed\s*\.\s*with_timezone\(\s*&Utc\s*\)\s*\)', nrm)
        and re.search(r'format\(\s*Utc::now\(\)\s*\)', now)) else 'false'))
    mt = strip_rust_comments(read(repo, 'rs/anda_cognitive_nexus/src/kql/matching.rs'))
    mb = fn_body(mt, 'match_belief', g)
    out.append('Definition belief_evaluated_at_context_time : bool := %s.\n' % ('true' if (
        re.search(r'let\s+at\s*=\s*self\s*\.\s*at\s*\.\s*clone\(\)', mb)
        and re.search(r'project_belief\(\s*id\s*,\s*&policy\s*,\s*&at\s*\)', mb)) else 'false'))
    return g, ''.join(out)


