"""Gen_Gov: governance facts re-extracted from the source on every run (C19).

 * the four rank ladders (classification, authority, auth_strength, purpose_assurance),
   MAX_DELEGATION_DEPTH, the permission registry and the always-audited set;
 * the order of the stages of EffectiveAuthority::authorize;
 * the command gate: clause / META / DESCRIBE / KQL -> required permissions;
 * the control-plane collections vs the cognitive ones, where the gov_* names are
   referenced, every call of a GovernanceStore method outside governance/store.rs with its
   file and enclosing fn, and which of those methods write;
 * the read choke point: every call of store.get_element/element_at/elements_at under
   kql/, meta/, projection/ with its enclosing fn; the shape of Context::load/candidates/admit;
 * Session::execute resolves authority per request (no cached EffectiveAuthority).
"""
import glob
import os
import re
from trlib import *  # noqa: F401,F403

SRC = 'rs/anda_cognitive_nexus/src/'
G = 'Gen_Gov'


def cs(s):
    return coq_string(s)


def clist(items):
    return '[' + '; '.join(items) + ']'


def mod_body(src, name):
    m = re.search(r'\bpub mod %s\s*\{' % re.escape(name), src)
    if not m:
        lost(G, 'mod ' + name)
        return ''
    i, depth = m.end(), 1
    while i < len(src) and depth:
        if src[i] == '{':
            depth += 1
        elif src[i] == '}':
            depth -= 1
        i += 1
    return src[m.end():i - 1]


def ladder(src, modname, coqname):
    body = mod_body(src, modname)
    consts = dict(re.findall(r'pub const (\w+): &str = "([^"]*)";', body))
    for k, v in re.findall(r'pub const (\w+): &str = (\w+);', body):
        if v in consts:
            consts[k] = consts[v]
    rk = fn_body(body, 'rank', G)
    m = re.search(r'match \w+ \{(.*)\}', rk, re.S)
    if not m:
        lost(G, modname + '.rank.match')
        return ''
    table, other = [], None
    for pats, val in re.findall(r'([^=,{}]+?)=>\s*([\w:]+)\s*,', m.group(1)):
        val = val.strip()
        n = 255 if val == 'u8::MAX' else int(val)
        for p in pats.split('|'):
            p = p.strip()
            if p == '_':
                other = n
            elif p.startswith('"'):
                table.append((p.strip('"'), n))
            elif p in consts:
                table.append((consts[p], n))
            else:
                lost(G, '%s.rank pattern %s' % (modname, p))
    if other is None:
        lost(G, modname + '.rank default arm')
        other = 0
    out = 'Definition %s : ladder := {| ld_table := %s; ld_other := %d%%N |}.\n' % (
        coqname, clist('(%s, %d%%N)' % (cs(k), v) for k, v in table), other)
    if 'DEFAULT' in consts:
        out += 'Definition %s_default : string := %s.\n' % (coqname, cs(consts['DEFAULT']))
    return out


def fn_body2(src, name):
    """like trlib.fn_body but tolerant of `;` inside the signature (array types)"""
    m = re.search(r'\bfn\s+%s\b' % re.escape(name), src)
    if not m:
        lost(G, 'fn ' + name)
        return ''
    i, depth = m.end(), 0
    while i < len(src):
        c = src[i]
        if c in '([<':
            depth += 1
        elif c in ')]>' and not (c == '>' and src[i - 1] == '-'):
            depth -= 1
        elif c == '{' and depth <= 0:
            break
        elif c == ';' and depth <= 0:
            return ''
        i += 1
    j, d = i + 1, 1
    while j < len(src) and d:
        if src[j] == '{':
            d += 1
        elif src[j] == '}':
            d -= 1
        j += 1
    return src[i + 1:j - 1]


def enclosing_fn(src, pos):
    best = None
    for m in re.finditer(r'\bfn\s+(\w+)', src[:pos]):
        best = m.group(1)
    return best or '?'


def arms(body):
    """match arms `Pat | Pat => expr,` of a fn body -> [(patterns, expr)]"""
    out = []
    for m in re.finditer(r'((?:[A-Z]\w*::\w+(?:\s*\([^)]*\)|\s*\{[^}]*\})?\s*\|?\s*)+|_\s*)=>\s*(vec!\[[^\]]*\]|Vec::new\(\)|\{[^}]*\}|\w+\([^)]*\))', body):
        pats = [re.sub(r'\s+', ' ', p.strip()) for p in m.group(1).split('|') if p.strip()]
        out.append((pats, m.group(2).strip()))
    return out


def perms_of(expr, names):
    return [names[v] for v in re.findall(r'Permission::(\w+)', expr) if v in names]


def generate(repo):
    rd = lambda rel: strip_rust_comments(read(repo, SRC + rel))  # noqa: E731
    gmod = rd('governance/mod.rs')
    rows = rd('governance/rows.rs')
    dec = rd('governance/decision.rs')
    perm = rd('governance/permission.rs')
    gate = rd('governance/gate.rs')
    gstore = rd('governance/store.rs')
    kqlmod = rd('kql/mod.rs')
    nexus = rd('nexus.rs')
    redact = rd('governance/redact.rs')
    kipcommon = strip_rust_comments(read(repo, 'rs/anda_kip/src/parser/common.rs'))
    out = [HEADER, 'From Coq Require Import List String NArith.\nFrom Verif Require Import Gov.Model.\nImport ListNotations.\nOpen Scope string_scope.\n\n']

    # ---- ladders
    out.append(ladder(gmod, 'classification', 'ladder_class'))
    out.append(ladder(gmod, 'authority', 'ladder_authority'))
    out.append(ladder(rows, 'auth_strength', 'ladder_strength'))
    out.append(ladder(rows, 'purpose_assurance', 'ladder_passur'))
    out.append('Definition gen_ladders : ladders := {| L_class := ladder_class; L_authority := ladder_authority; '
               'L_strength := ladder_strength; L_passur := ladder_passur |}.\n')
    st = mod_body(rows, 'status')
    m = re.search(r'pub const ACTIVE: &str = "([^"]*)"', st)
    out.append('Definition status_active : string := %s.\n' % cs(m.group(1)) if m else '')
    if not m:
        lost(G, 'status::ACTIVE')

    m = re.search(r'const MAX_DELEGATION_DEPTH: usize = (\d+);', dec)
    if m:
        out.append('Definition max_delegation_depth : nat := %s.\n' % m.group(1))
    else:
        lost(G, 'MAX_DELEGATION_DEPTH')

    # ---- permission registry
    m = re.search(r'permissions!\s*\{(.*?)\n\}', perm, re.S)
    entries = re.findall(r'(\w+)\s*=>\s*"(\w+)"\s*,\s*(\w+)\s*,', m.group(1)) if m else []
    if not entries:
        lost(G, 'permissions! registry')
    names = {v: n for v, n, _ in entries}
    out.append('Definition permission_names : list string := %s.\n' % clist(cs(n) for _, n, _ in entries))
    aud = fn_body(perm, 'is_always_audited', G)
    fams = set()
    extra = set()
    mm = re.findall(r'matches!\(\s*self\.family\(\)\s*,(.*?)\)', aud, re.S)
    for blk in mm:
        fams.update(re.findall(r'Family::(\w+)', blk))
    mm = re.findall(r'matches!\(\s*self\s*,(.*?)\)', aud, re.S)
    for blk in mm:
        extra.update(re.findall(r'Self::(\w+)', blk))
    if not fams and not extra:
        lost(G, 'is_always_audited')
    out.append('Definition always_audited : list string := %s.\n' % clist(
        cs(n) for v, n, f in entries if f in fams or v in extra))

    # ---- authorize: order of the stages
    az = fn_body(dec, 'authorize', G)
    markers = [
        ('inactive', r'self\.principal\.status\s*!=\s*status::ACTIVE'),
        ('suspended', r'self\.space\.status\s*==\s*"suspended"'),
        ('explicit_deny', r'statement\.effect\s*==\s*"deny"'),
        ('owner', r'if\s+self\.is_owner'),
        ('candidates', r'for\s+candidate\s+in\s+&self\.candidates'),
        ('allow_statements', r'statement\.effect\s*!=\s*"allow"'),
        ('least_restrictive', r'\.min_by_key\(\s*\|candidate\|\s*candidate\.restrictiveness\(\)\s*\)'),
        ('approvals', r'obligations\.approvals_required\s*>\s*0'),
    ]
    pos = []
    for name, rx in markers:
        mm = re.search(rx, az)
        if not mm:
            lost(G, 'authorize.' + name)
        else:
            pos.append((mm.start(), name))
    out.append('Definition authorize_stage_order : list string := %s.\n' % clist(cs(n) for _, n in sorted(pos)))
    denies = len(re.findall(r'return\s+deny\(', az))
    out.append('Definition authorize_deny_returns : nat := %d.\n' % denies)
    mr = fn_body(dec, 'may_read', G)
    out.append('Definition may_read_asks_read : bool := %s.\n' % (
        'true' if re.search(r'authorize\(\s*Permission::Read\s*,', mr) and re.search(r'is_permitted\(\)\s*\.then_some\(', mr) else 'false'))

    # ---- the gate
    cp = fn_body(gate, 'clause_permissions', G)
    tab = []
    for pats, expr in arms(cp):
        for p in pats:
            mm = re.match(r'MutationClause::(\w+)', p)
            if mm:
                tab.append((mm.group(1), perms_of(expr, names)))
    if not tab:
        lost(G, 'clause_permissions arms')
    out.append('Definition gate_clause_permissions : list (string * list string) := %s.\n' % clist(
        '(%s, %s)' % (cs(k), clist(cs(x) for x in v)) for k, v in tab))
    # every variant of MutationClause is in the table (the match is exhaustive without a wildcard)
    out.append('Definition gate_clause_wildcard : bool := %s.\n' % ('true' if re.search(r'\n\s*_\s*=>', cp) else 'false'))
    mp = fn_body(gate, 'meta_permissions', G)
    tab = []
    for pats, expr in arms(mp):
        for p in pats:
            mm = re.match(r'MetaCommand::(\w+)', p)
            if mm:
                tab.append((mm.group(1), ['<describe>'] if 'describe_permissions' in expr else perms_of(expr, names)))
    if not tab:
        lost(G, 'meta_permissions arms')
    out.append('Definition gate_meta_permissions : list (string * list string) := %s.\n' % clist(
        '(%s, %s)' % (cs(k), clist(cs(x) for x in v)) for k, v in tab))
    dp = fn_body(gate, 'describe_permissions', G)
    tab = []
    for pats, expr in arms(dp):
        for p in pats:
            mm = re.match(r'DescribeTarget::(\w+)(.*)', p)
            if mm:
                tab.append((mm.group(1) + (' as_of' if 'as_of: Some' in mm.group(2) else ''), perms_of(expr, names)))
            elif p.strip() == '_':
                tab.append(('_', perms_of(expr, names)))
    if not tab:
        lost(G, 'describe_permissions arms')
    out.append('Definition gate_describe_permissions : list (string * list string) := %s.\n' % clist(
        '(%s, %s)' % (cs(k), clist(cs(x) for x in v)) for k, v in tab))
    kp = fn_body(gate, 'kql_permissions', G)
    base = re.search(r'let mut needed = vec!\[(.*?)\]', kp)
    out.append('Definition gate_kql_base : list string := %s.\n' % clist(cs(x) for x in perms_of(base.group(1) if base else '', names)))
    if not base:
        lost(G, 'kql_permissions base')

    # ---- collections
    smod = rd('store/mod.rs')
    cog = re.findall(r'pub const [A-Z_]+: &str = "(\w+)";', smod)
    gov = [(k, v) for k, v in re.findall(r'pub const ([A-Z_]+): &str = "(\w+)";', gstore) if v.startswith('gov_')]
    if not cog or not gov:
        lost(G, 'collection names')
    out.append('Definition cognitive_collections : list string := %s.\n' % clist(cs(x) for x in cog))
    out.append('Definition gov_collections : list string := %s.\n' % clist(cs(v) for _, v in gov))
    # where the control-plane collection names (constant or literal) are mentioned outside governance/store.rs
    outside = []
    files = sorted(glob.glob(os.path.join(repo, SRC, '**', '*.rs'), recursive=True))
    for p in files:
        rel = os.path.relpath(p, os.path.join(repo, SRC))
        if rel == 'governance/store.rs':
            continue
        s = strip_rust_comments(open(p, encoding='utf-8').read())
        s = re.sub(r'#\[cfg\(test\)\]\s*mod tests\s*\{.*', '', s, flags=re.S)
        for k, v in gov:
            if re.search(r'"%s"' % v, s) or re.search(r'governance::store::(?:\{[^}]*\b%s\b[^}]*\}|%s\b)' % (k, k), s) \
                    or re.search(r'\bstore::%s\b' % k, s):
                outside.append(rel + ':' + v)
    out.append('Definition gov_names_referenced_outside_store : list string := %s.\n' % clist(cs(x) for x in outside))
    # GovernanceStore: no public field
    m = re.search(r'pub struct GovernanceStore\s*\{(.*?)\}', gstore, re.S)
    if not m:
        lost(G, 'struct GovernanceStore')
    out.append('Definition gov_store_public_fields : list string := %s.\n' % clist(
        cs(x) for x in re.findall(r'pub(?:\([^)]*\))?\s+(\w+)\s*:', m.group(1) if m else '')))

    # methods of GovernanceStore and which of them write
    impl = gstore[gstore.find('impl GovernanceStore'):]
    methods = {}
    for mm in re.finditer(r'\n    (pub(?:\([^)]*\))?\s+)?(?:async\s+)?fn\s+(\w+)', impl):
        name = mm.group(2)
        methods[name] = fn_body2(impl[mm.start():], name)
    writes = {n for n, b in methods.items() if re.search(r'\.add_from\(|\.update\(|\.remove\(|\.delete\(|\.set\(', b)}
    changed = True
    while changed:
        changed = False
        for n, b in methods.items():
            if n not in writes and any(re.search(r'self\s*\.\s*%s\s*\(' % w, b) for w in writes):
                writes.add(n)
                changed = True
    writes -= {'reopen', 'open', 'reload'}     # handle management, no row is written
    if 'create_grant' not in writes or 'revoke_grant' not in writes:
        lost(G, 'GovernanceStore mutators')
    out.append('Definition gov_store_mutators : list string := %s.\n' % clist(cs(x) for x in sorted(writes)))
    calls = []
    for p in files:
        rel = os.path.relpath(p, os.path.join(repo, SRC))
        if rel == 'governance/store.rs':
            continue
        s = strip_rust_comments(open(p, encoding='utf-8').read())
        s = re.sub(r'#\[cfg\(test\)\]\s*mod tests\s*\{.*', '', s, flags=re.S)
        for mm in re.finditer(r'\bgovernance\s*(?:\(\))?\s*\.\s*(\w+)\s*\(', s):
            if mm.group(1) in methods:
                calls.append((rel, enclosing_fn(s, mm.start()), mm.group(1)))
    if not any(c[2] == 'grants_for' for c in calls):
        lost(G, 'GovernanceStore call sites')
    out.append('Definition gov_store_calls : list (string * string * string) := %s.\n' % clist(
        '(%s, %s, %s)' % (cs(a), cs(b), cs(c)) for a, b, c in sorted(set(calls))))

    # ---- KIP parser: the governance block is a protected field
    m = re.search(r'pub const PROTECTED_FIELDS: &\[&str\] = &\[(.*?)\];', kipcommon, re.S)
    if not m:
        lost(G, 'PROTECTED_FIELDS')
    out.append('Definition protected_fields : list string := %s.\n' % clist(cs(x) for x in re.findall(r'"(\w+)"', m.group(1) if m else '')))

    # ---- read choke point
    reads = []
    for sub in ('kql', 'meta', 'projection'):
        for p in sorted(glob.glob(os.path.join(repo, SRC, sub, '**', '*.rs'), recursive=True)):
            rel = os.path.relpath(p, os.path.join(repo, SRC))
            s = strip_rust_comments(open(p, encoding='utf-8').read())
            s = re.sub(r'#\[cfg\(test\)\]\s*mod tests\s*\{.*', '', s, flags=re.S)
            for mm in re.finditer(r'\.\s*(get_element|element_at|elements_at|find_concept|find_proposition|find_concept_by_key|referrers)\s*\(', s):
                reads.append((rel, enclosing_fn(s, mm.start()), mm.group(1)))
            # raw row reads off an element collection
            for mm in re.finditer(r'\.\s*(concepts|propositions|assertions|evidence|activities|elements)\s*\([^)]*\)\s*\.\s*(get_as|get)\s*\(', s):
                reads.append((rel, enclosing_fn(s, mm.start()), mm.group(1) + '.' + mm.group(2)))
    if not reads:
        lost(G, 'element reads')
    out.append('Definition element_reads : list (string * string * string) := %s.\n' % clist(
        '(%s, %s, %s)' % (cs(a), cs(b), cs(c)) for a, b, c in sorted(set(reads))))
    ld = fn_body(kqlmod, 'load', G)
    cd = fn_body(kqlmod, 'candidates', G)
    ad = fn_body(kqlmod, 'admit', G)
    out.append('Definition load_goes_through_admit : bool := %s.\n' % (
        'true' if re.search(r'let element = self\.admit\(element\);\s*self\.loaded\.insert\(id, element\.clone\(\)\);\s*Ok\(element\)', ld) else 'false'))
    out.append('Definition candidates_goes_through_admit : bool := %s.\n' % (
        'true' if re.search(r'let admitted = self\.admit\((?:Some\(element\)|present\.then_some\(element\))\);', cd) and
        re.search(r'if admitted\.is_some\(\)\s*\{\s*ids\.push\(id\);', cd) else 'false'))
    # a read bound to a past coordinate also judges the element's present row; that read returns a bool only
    rn = fn_body2(kqlmod, 'readable_now') if re.search(r'\bfn\s+readable_now\b', kqlmod) else None
    out.append('Definition readable_now_only_judges : bool := %s.\n' % (
        'true' if rn is None or re.fullmatch(
            r'\s*match self\.store\.get_element\(id\)\.await \{\s*Ok\(current\) => self\.authority\.may_read\(&current, self\.auth\)\.is_some\(\),\s*Err\(_\) => true,\s*\}\s*', rn)
        else 'false'))
    # both acquisition paths of a read bound to a past coordinate judge the present row, each on its own:
    # load (by id, followed references, warm, export closure) and candidates (type scans)
    load_judges = rn is not None and bool(re.search(
        r'Some\(seq\) => match self\.store\.element_at\(&self\.space, id, seq\)\.await\? \{\s*Some\(past\) if self\.readable_now\(id\)\.await => Some\(past\),\s*_ => None,\s*\}', ld))
    cand_judges = rn is not None and bool(re.search(
        r'let present = self\.readable_now\(id\)\.await;\s*let admitted = self\.admit\(present\.then_some\(element\)\);', cd))
    out.append('Definition load_judges_present_row : bool := %s.\n' % ('true' if load_judges else 'false'))
    out.append('Definition candidates_judges_present_row : bool := %s.\n' % ('true' if cand_judges else 'false'))
    # every historical row fetched in kql/mod.rs is fetched inside load or candidates (no third path)
    hist = [(enclosing_fn(kqlmod, m.start()), m.group(1)) for m in re.finditer(r'\.\s*(element_at|elements_at)\s*\(', kqlmod)]
    out.append('Definition historical_fetch_sites : list (string * string) := %s.\n' % clist('(%s, %s)' % (cs(a), cs(b)) for a, b in hist))
    i1 = ad.find('self.authority.may_read(&element, self.auth)?')
    i2 = ad.find('redact::apply(&mut view, &constraints, self.read_origin)')
    i3 = ad.find('self.views.insert(')
    out.append('Definition admit_checks_then_redacts_then_caches : bool := %s.\n' % (
        'true' if 0 <= i1 < i2 < i3 and len(re.findall(r'self\.views\.insert\(', kqlmod)) == 1 else 'false'))
    m = re.search(r'const ALWAYS_VISIBLE: &\[&str\] = &\[(.*?)\];', redact)
    if not m:
        lost(G, 'ALWAYS_VISIBLE')
    out.append('Definition always_visible : list string := %s.\n' % clist(cs(x) for x in re.findall(r'"(\w+)"', m.group(1) if m else '')))

    # ---- authority is resolved per request
    ex = nexus[nexus.find('impl Executor for Session'):]
    exb = fn_body(ex, 'execute', G)
    out.append('Definition execute_arms_resolving_authority : nat := %d.\n' % len(re.findall(r'self\.authority\(&space, &auth\)\.await', exb)))
    out.append('Definition execute_command_arms : nat := %d.\n' % len(re.findall(r'Command::\w+\(\w+\)\s*=>', exb)))
    au = fn_body(nexus[nexus.find('impl Session {', nexus.find('fn base_authorizations')):], 'authority', G)
    out.append('Definition session_authority_resolves_fresh : bool := %s.\n' % (
        'true' if re.search(r'^\s*EffectiveAuthority::resolve\(&self\.nexus\.store, space, auth\)\.await\s*$', au) else 'false'))
    flds = []
    for sname in ('Session', 'CognitiveNexus'):
        m = re.search(r'pub struct %s\s*\{(.*?)\n\}' % sname, nexus, re.S)
        if not m:
            lost(G, 'struct ' + sname)
            continue
        flds += ['%s.%s: %s' % (sname, a, ' '.join(b.split())) for a, b in re.findall(r'(\w+)\s*:\s*([^,\n]+),', m.group(1))]
    out.append('Definition session_state_fields : list string := %s.\n' % clist(cs(x) for x in flds))
    return G, ''.join(out)
