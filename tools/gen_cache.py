"""Gen_Cache: the ORDER of the read-cache protocol steps of rs/anda_db/src/storage.rs (C05.5).

reader  Storage::inner_get        : lookup / load generation / fetch / re-check generation / insert, in source order,
                                    plus which binding tags the inserted entry
writers InnerStorage::put         : backend put, then published_write (bump, evict)
        Storage::delete           : backend delete, bump, evict
        Storage::inner_drop_prefix: backend delete, bump, evict
        StreamWriter::poll_shutdown: inner shutdown (publish), then published_write
Every write path of the file must be one of these (any other `object_store.put/delete` call site is a lost anchor).
"""
import re
from trlib import *  # noqa: F401,F403

G = 'Gen_Cache'
SRC = 'rs/anda_db/src/storage.rs'


def order(body, pats):
    """[(pos, name)] for every match of the named patterns, sorted by position"""
    out = []
    for name, pat in pats:
        for m in re.finditer(pat, body):
            out.append((m.start(), name))
    return [n for _, n in sorted(out)]


def generate(repo):
    full = strip_rust_comments(read(repo, SRC))
    cut = full.find('#[cfg(test)]\nmod tests')
    src = full if cut < 0 else full[:cut]
    out = [HEADER, '(* source: %s *)\n' % SRC,
           'From Coq Require Import List String.\nFrom Verif Require Import Conc.Cache.\nImport ListNotations.\nOpen Scope string_scope.\n\n']
    # ---- reader
    ig = fn_body(src, 'inner_get', G)
    toks = []
    if ig:
        ev = []
        for m in re.finditer(r'cache\s*\.\s*get\s*\(\s*path\s*\)', ig):
            ev.append((m.start(), 'RLookup'))
        # generation reads: the one compared with the entry's tag belongs to the lookup; `let x = ...cache_write_seq(path)`
        # is the load; `cache_write_seq(path) == x` (x a local) is the re-check
        for m in re.finditer(r'let\s+(\w+)\s*=\s*self\s*\.\s*inner\s*\.\s*cache_write_seq\s*\(\s*path\s*\)', ig):
            ev.append((m.start(), 'RLoadSeq:' + m.group(1)))
        for m in re.finditer(r'self\s*\.\s*inner\s*\.\s*cache_write_seq\s*\(\s*path\s*\)\s*==\s*(\w+)', ig):
            ev.append((m.start(), 'RRecheck:' + m.group(1)))
        for m in re.finditer(r'(\w+)\s*==\s*self\s*\.\s*inner\s*\.\s*cache_write_seq\s*\(\s*path\s*\)', ig):
            if not ig[:m.start()].rstrip().endswith('.'):      # `arc.write_seq == ...` is the lookup's own test
                ev.append((m.start(), 'RRecheck:' + m.group(1)))
        for m in re.finditer(r'self\s*\.\s*inner_fetch\s*\(\s*path\s*\)\s*\.\s*await', ig):
            ev.append((m.start(), 'RFetch'))
        for m in re.finditer(r'\.\s*insert\s*\(', ig):
            ev.append((m.start(), 'RInsert'))
        ev.sort()
        names = [n for _, n in ev]
        load_vars = [n.split(':')[1] for n in names if n.startswith('RLoadSeq:')]
        tag = re.search(r'write_seq\s*(?::\s*(\w+))?\s*,', ig[ig.find('CachedObject'):] if 'CachedObject' in ig else '')
        tag_var = (tag.group(1) or 'write_seq') if tag else None
        if not load_vars:
            lost(G, 'inner_get: load of the write generation')
        if tag_var is None or tag_var not in load_vars:
            lost(G, 'inner_get: the inserted entry is not tagged with a loaded generation (%s)' % tag_var)
        for n in names:
            if n.startswith('RRecheck:') and n.split(':')[1] not in load_vars:
                lost(G, 'inner_get: re-check against an unknown binding ' + n)
        toks = [n.split(':')[0] for n in names]
        for need in ('RLookup', 'RFetch', 'RInsert'):
            if need not in toks:
                lost(G, 'inner_get: ' + need)
        lk = re.search(r'arc\s*\.\s*write_seq\s*==\s*self\s*\.\s*inner\s*\.\s*cache_write_seq\s*\(\s*path\s*\)', ig)
        out.append('Definition lookup_checks_generation : bool := %s.\n' % ('true' if lk else 'false'))
    out.append('Definition inner_get_order : list rop := [%s].\n' % '; '.join(toks))
    # ---- writers
    pw = fn_body(src, 'published_write', G)
    pw_order = order(pw, [('WBump', r'bump_cache_write_seq\s*\('), ('WEvict', r'cache\s*\.\s*remove\s*\(')]) if pw else []
    writers = []

    def expand(seq):
        res = []
        for x in seq:
            res += pw_order if x == 'PUBLISHED' else [x]
        return res
    m = re.search(r'impl InnerStorage \{', src)
    inner_impl = src[m.end():] if m else ''
    if not m:
        lost(G, 'impl InnerStorage')
    put = fn_body(inner_impl, 'put', G)
    writers.append(('InnerStorage::put', expand(order(put, [('WPut', r'\.\s*put_opts\s*\('), ('PUBLISHED', r'published_write\s*\(')]))))
    dl = fn_body(src, 'delete', G)
    writers.append(('Storage::delete', order(dl, [('WPut', r'\.\s*delete\s*\(\s*&path\s*\)'), ('WBump', r'bump_cache_write_seq\s*\('), ('WEvict', r'cache\s*\.\s*remove\s*\(')])))
    dp = fn_body(src, 'inner_drop_prefix', G)
    writers.append(('Storage::inner_drop_prefix', order(dp, [('WPut', r'object_store\s*\.\s*delete\s*\('), ('WBump', r'bump_cache_write_seq\s*\('), ('WEvict', r'cache\s*\.\s*remove\s*\(')])))
    sw = re.search(r'impl tokio::io::AsyncWrite for StreamWriter \{', src)
    if sw:
        body = src[sw.end():]
        ps = fn_body(body, 'poll_shutdown', G)
        writers.append(('StreamWriter::poll_shutdown', expand(order(ps, [('WPut', r'\.\s*poll_shutdown\s*\(\s*cx\s*\)'), ('PUBLISHED', r'published_write\s*\(')]))))
    else:
        lost(G, 'impl AsyncWrite for StreamWriter')
    for n, w in writers:
        if not w:
            lost(G, 'write path ' + n)
    out.append('Definition write_orders : list (string * list wop) :=\n  [%s].\n' % ';\n   '.join('("%s", [%s])' % (n, '; '.join(w)) for n, w in writers))
    # every backend mutation call site of the file is inside one of the recognised write paths
    sites = len(re.findall(r'\.\s*put_opts\s*\(', src)) + len(re.findall(r'object_store\s*\.\s*delete\s*\(|\.\s*object_store\s*\n?\s*\.\s*delete\s*\(', src))
    out.append('Definition backend_mutation_sites : nat := %d.\n' % sites)
    return G, ''.join(out)
