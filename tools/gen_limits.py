"""Gen_Limits: query limits and the shape facts of the filter evaluator (C03).

Extracted from rs/anda_db/src/{collection.rs,query.rs} and rs/anda_db_btree/src/btree.rs:
  * MAX_SEARCH_LIMIT, the search_ids default limit / candidate factor / candidate cap,
    MAX_FILTER_{DEPTH,NODES,BRANCHES}, MAX_RANGE_INCLUDE_KEYS, RangeQuery::MAX_DEPTH;
  * whether the Filter::Field B-tree branch of filter_by_field_with stops its (key-ordered) scan at the
    caller's `limit` (leaf_bounded), the limit argument of every recursive operand evaluation,
    whether filter_by_field sorts the candidate-free result, which ScanOrder each entry point passes,
    and that query_all_ids evaluates with limit 0.
"""
import re
from trlib import *  # noqa: F401,F403


def _const(src, name, g, ty='usize'):
    m = re.search(r'\bconst\s+%s\s*:\s*%s\s*=\s*([0-9_]+)\s*;' % (re.escape(name), ty), src)
    if not m:
        lost(g, 'const ' + name)
        return None
    return int(m.group(1).replace('_', ''))


def _split_args(s):
    """Split a call's argument text at top-level commas."""
    out, depth, cur = [], 0, ''
    for ch in s:
        if ch in '([{':
            depth += 1
        elif ch in ')]}':
            depth -= 1
        if ch == ',' and depth == 0:
            out.append(cur.strip())
            cur = ''
        else:
            cur += ch
    if cur.strip():
        out.append(cur.strip())
    return out


def _calls(body, callee):
    """Argument lists of every `callee(...)` in body."""
    res = []
    for m in re.finditer(re.escape(callee) + r'\s*\(', body):
        i = m.end()
        depth = 1
        while i < len(body) and depth:
            if body[i] in '([{':
                depth += 1
            elif body[i] in ')]}':
                depth -= 1
            i += 1
        res.append(_split_args(body[m.end():i - 1]))
    return res


def generate(repo):
    g = 'Gen_Limits'
    col = strip_rust_comments(read(repo, 'rs/anda_db/src/collection.rs'))
    qry = strip_rust_comments(read(repo, 'rs/anda_db/src/query.rs'))
    bt = strip_rust_comments(read(repo, 'rs/anda_db_btree/src/btree.rs'))
    out = [HEADER, 'From Coq Require Import List Arith.\nImport ListNotations.\n']

    def nat(name, v):
        if v is not None:
            out.append('Definition %s : nat := %d.\n' % (name, v))

    nat('max_search_limit', _const(col, 'MAX_SEARCH_LIMIT', g))
    nat('max_filter_depth', _const(qry, 'MAX_FILTER_DEPTH', g))
    nat('max_filter_nodes', _const(qry, 'MAX_FILTER_NODES', g))
    nat('max_filter_branches', _const(qry, 'MAX_FILTER_BRANCHES', g))
    nat('max_range_include_keys', _const(qry, 'MAX_RANGE_INCLUDE_KEYS', g))
    nat('range_query_max_depth', _const(bt, 'MAX_DEPTH', g))

    # search_ids: default limit, candidate factor and cap
    sid = fn_body(col, 'search_ids', g)
    m = re.search(r'query\s*\.\s*limit\s*\.\s*unwrap_or\(\s*(\d+)\s*\)\s*\.\s*min\(\s*Self::MAX_SEARCH_LIMIT\s*\)', sid)
    if m:
        nat('search_default_limit', int(m.group(1)))
    else:
        lost(g, 'search_ids.default_limit')
    m = re.search(r'let\s+top_k\s*=\s*\(\s*limit\s*\*\s*(\d+)\s*\)\s*\.\s*min\(\s*([0-9_]+)\s*\)', sid)
    if m:
        nat('search_topk_factor', int(m.group(1)))
        nat('search_topk_cap', int(m.group(2).replace('_', '')))
    else:
        lost(g, 'search_ids.top_k')
    calls = _calls(sid, 'self.filter_by_field')
    ok = len(calls) == 1 and len(calls[0]) == 4 and calls[0][2] == 'top_k' and calls[0][3] == 'order' \
        and re.search(r'let\s+order\s*=\s*ScanOrder::Ascending\s*;', sid) \
        and re.search(r'order\s*\.\s*truncate\(\s*&mut\s+result\s*,\s*limit\s*\)', sid)
    if not calls:
        lost(g, 'search_ids.filter_by_field')
    out.append('Definition search_filters_ascending_then_truncates : bool := %s.\n' % ('true' if ok else 'false'))

    # query_ids / query_last_ids / query_all_ids / query_ids_from
    def order_of(fn):
        b = fn_body(col, fn, g)
        m = re.search(r'self\s*\.\s*query_ids_from\(\s*filter\s*,\s*limit\s*,\s*ScanOrder::(\w+)\s*\)', b)
        if not m:
            lost(g, fn + '.order')
            return '?'
        return m.group(1)
    out.append('Definition query_ids_descending : bool := %s.\n' % ('true' if order_of('query_ids') == 'Descending' else 'false'))
    out.append('Definition query_last_ids_descending : bool := %s.\n' % ('true' if order_of('query_last_ids') == 'Descending' else 'false'))
    qf = fn_body(col, 'query_ids_from', g)
    ok = re.search(r'if\s+limit\s*==\s*Some\(0\)\s*\{\s*return\s+Ok\(Vec::new\(\)\)\s*;\s*\}', qf) \
        and re.search(r'limit\s*\.\s*unwrap_or\(\s*Self::MAX_SEARCH_LIMIT\s*\)\s*\.\s*min\(\s*Self::MAX_SEARCH_LIMIT\s*\)', qf) \
        and re.search(r'self\s*\.\s*filter_by_field\(\s*filter\s*,\s*&\[\]\s*,\s*limit\s*,\s*order\s*\)', qf) \
        and re.search(r'order\s*\.\s*truncate\(\s*&mut\s+rt\s*,\s*limit\s*\)', qf)
    out.append('Definition query_ids_from_clamps_evaluates_truncates : bool := %s.\n' % ('true' if ok else 'false'))
    qa = fn_body(col, 'query_all_ids', g)
    ok = re.search(r'self\s*\.\s*filter_by_field\(\s*filter\s*,\s*&\[\]\s*,\s*0\s*,\s*ScanOrder::Ascending\s*\)', qa)
    out.append('Definition query_all_ids_unbounded : bool := %s.\n' % ('true' if ok else 'false'))

    # filter_by_field: the candidate-free result is sorted; the candidate path evaluates unbounded
    fbf = fn_body(col, 'filter_by_field', g)
    if fbf:
        calls = _calls(fbf, 'self.filter_by_field_with') + _calls(fbf, '.filter_by_field_with')
        # de-duplicate (the second pattern also matches the first form)
        seen, uniq = set(), []
        for c in calls:
            if tuple(c) not in seen:
                seen.add(tuple(c))
                uniq.append(c)
        free = [c for c in uniq if len(c) == 4 and c[1] == 'None']
        cand = [c for c in uniq if len(c) == 4 and c[1].startswith('Some(')]
        sorts = bool(re.search(r'self\s*\.\s*filter_by_field_with\(\s*filter\s*,\s*None\s*,\s*limit\s*,\s*order\s*\)\?\s*;\s*result\s*\.\s*sort_unstable\(\)\s*;', fbf))
        out.append('Definition top_level_result_sorted : bool := %s.\n' % ('true' if sorts and len(free) == 1 else 'false'))
        out.append('Definition candidate_path_unbounded : bool := %s.\n' % ('true' if len(cand) == 1 and cand[0][2] == '0' else 'false'))

    # filter_by_field_with: limits handed to operands; the B-tree leaf
    fw = fn_body(col, 'filter_by_field_with', g)
    if fw:
        rec = _calls(fw, 'self.filter_by_field_with') + [c for c in _calls(fw, '.filter_by_field_with')]
        seen, lims = set(), []
        for m in re.finditer(r'\.filter_by_field_with\s*\(', fw):
            i = m.end()
            depth = 1
            while i < len(fw) and depth:
                if fw[i] in '([{':
                    depth += 1
                elif fw[i] in ')]}':
                    depth -= 1
                i += 1
            args = _split_args(fw[m.end():i - 1])
            lims.append(args[2] if len(args) == 4 else '?')
        if not lims:
            lost(g, 'filter_by_field_with.recursive_calls')
        out.append('Definition operand_limit_arguments : list nat := [%s].\n' % '; '.join(
            (a if a.isdigit() else '1') for a in lims))      # any non-literal limit is recorded as 1 (bounded)
        out.append('Definition operand_evaluations : nat := %d.\n' % len(lims))
        # the B-tree leaf: text of the closure handed to try_range_query_ids
        m = re.search(r'index\s*\.\s*try_range_query_ids\s*\(', fw)
        if not m:
            lost(g, 'filter_by_field_with.try_range_query_ids')
        else:
            i = m.end()
            depth = 1
            while i < len(fw) and depth:
                if fw[i] in '([{':
                    depth += 1
                elif fw[i] in ')]}':
                    depth -= 1
                i += 1
            call = fw[m.end():i - 1]
            bounded = bool(re.search(r'return\s+false', call)) or bool(re.search(r'\blimit\b', call))
            out.append('Definition leaf_bounded : bool := %s.\n' % ('true' if bounded else 'false'))
            out.append('Definition leaf_scan_follows_order : bool := %s.\n' % (
                'true' if re.search(r'order\s*\.\s*is_descending\(\)', call) else 'false'))
            uv = re.findall(r'let\s+mut\s+(\w+)\s*:\s*UniqueVec<DocumentId>', fw[:m.start()][-1500:])
            out.append('Definition leaf_dedups : bool := %s.\n' % (
                'true' if uv and re.search(r'\b%s\s*\.\s*push\(' % re.escape(uv[-1]), call) else 'false'))
        # _id is dispatched before the B-tree registry
        idm = re.search(r'if\s+index_name\s*==\s*Schema::ID_KEY', fw)
        out.append('Definition id_key_dispatched_first : bool := %s.\n' % ('true' if idm and (not m or idm.start() < m.start()) else 'false'))
    return g, ''.join(out)
