"""Gen_Server: method tables, dispatch arms, authorize rule order and routing shape of anda_db_server (C14).

Everything the C14 theorems are stated over is re-extracted from the source on every run:

  root_variants / db_variants     the variants of `enum RootMethod` / `enum DbMethod`
  root_table / db_table           `parse`: method name -> variant -> Read | Mutating
  root_dispatch / db_dispatch     the arms of `dispatch_root` / `dispatch_db`: variant -> handler path, and which
                                  of `state`, `db`, `db_name`, `principal` the arm mentions
  authorize_rules                 the (guard, outcome) pairs of `auth::authorize` in source order
  execute_order, require_auth_order, routes, layers, handler_bindings, ...   shape facts pinned by equalities

`tables(repo)` returns the same data as a dict (the harness reads it as JSON: `python3 gen_server.py --json`).
"""
import json
import re
import sys
from trlib import *  # noqa: F401,F403

G = 'Gen_Server'
SRC = 'rs/anda_db_server/src/'


def _block_after(src, start_re, gen, item):
    """Text of the `{...}` block that starts at the first `{` at/after the match of start_re."""
    m = re.search(start_re, src)
    if not m:
        lost(gen, item)
        return ''
    i = src.find('{', m.end() - 1)
    if i < 0:
        lost(gen, item)
        return ''
    return _braces(src, i)


def _braces(src, i):
    assert src[i] == '{'
    depth, j, in_str = 0, i, False
    while j < len(src):
        c = src[j]
        if in_str:
            if c == '\\':
                j += 1
            elif c == '"':
                in_str = False
        elif c == '"':
            in_str = True
        elif c == '{':
            depth += 1
        elif c == '}':
            depth -= 1
            if depth == 0:
                return src[i + 1:j]
        j += 1
    return src[i + 1:]


def _enum_variants(src, name):
    body = _block_after(src, r'\benum\s+%s\s*\{' % name, G, 'enum ' + name)
    vs = [v for v in re.findall(r'\b([A-Z]\w*)\b\s*(?:,|$)', body)]
    if not vs:
        lost(G, 'enum %s variants' % name)
    return vs


def _parse_table(src, name):
    impl = _block_after(src, r'\bimpl\s+%s\s*\{' % name, G, 'impl ' + name)
    fn = fn_body(impl, 'parse', G)
    mt = _block_after(fn, r'\bmatch\s+method\s*\{', G, name + '::parse match')
    rows = []
    arm_re = re.compile(r'((?:"[^"]*"\s*\|\s*)*"[^"]*")\s*=>\s*\(\s*Self::(\w+)\s*,\s*(?:MethodEffect::)?(Read|Mutating)\s*\)\s*,')
    for m in arm_re.finditer(mt):
        for nm in re.findall(r'"([^"]*)"', m.group(1)):
            rows.append((nm, m.group(2), m.group(3)))
    n_arms = len(re.findall(r'=>', mt))
    n_rec = len(arm_re.findall(mt))
    if not re.search(r'_\s*=>\s*return\s+None\s*,', mt):
        lost(G, name + '::parse default arm `_ => return None`')
    elif n_arms != n_rec + 1:
        lost(G, '%s::parse has %d arms, %d recognised' % (name, n_arms, n_rec + 1))
    if not re.search(r'\bSome\s*\(\s*match\s+method', fn):
        lost(G, name + '::parse shape Some(match method {..})')
    return rows


def _dispatch(src, fname, enum):
    fn = fn_body(src, fname, G)
    mt = _block_after(fn, r'\bmatch\s+method\s*\{', G, fname + ' match')
    heads = list(re.finditer(r'\b%s::(\w+)\s*=>' % enum, mt))
    arms = []
    for k, h in enumerate(heads):
        end = heads[k + 1].start() if k + 1 < len(heads) else len(mt)
        text = ' '.join(mt[h.end():end].split()).rstrip(',').strip()
        hm = re.search(r'enc\s*\.\s*reply\s*\(\s*&\s*([A-Za-z_][\w:.()]*?)\s*\(', text)
        handler = hm.group(1) if hm else ''
        if not hm:
            hm2 = re.search(r'enc\s*\.\s*reply\s*\(\s*&\s*([\w.()]+)\s*\)', text)   # e.g. &db.metadata().collections
            handler = hm2.group(1) if hm2 else ''
        if not handler:
            lost(G, '%s arm %s handler' % (fname, h.group(1)))
        arms.append({'variant': h.group(1), 'handler': handler,
                     'state': bool(re.search(r'\bstate\b', text)), 'db': bool(re.search(r'\bdb\b(?!::)', text)),
                     'db_name': bool(re.search(r'\bdb_name\b', text)), 'principal': bool(re.search(r'\bprincipal\b', text)),
                     'text': text})
    if len(re.findall(r'=>', mt)) != len(heads):
        lost(G, '%s has %d arms, %d recognised (wildcard or guarded arm?)' % (fname, len(re.findall(r'=>', mt)), len(heads)))
    pre = fn[:fn.find('match method')] if 'match method' in fn else ''
    return arms, ' '.join(pre.split())


OUT_RE = r'(Ok\s*\(\s*Principal::\w+\s*\)|Err\s*\(\s*ApiError::\w+\s*\([^()]*\)\s*\))'


def _outcome(txt):
    m = re.match(r'Ok\s*\(\s*Principal::(\w+)', txt)
    if m:
        return {'Admin': 'OkAdmin', 'Database': 'OkDatabase'}.get(m.group(1), 'ErrOther "principal:%s"' % m.group(1))
    m = re.match(r'Err\s*\(\s*ApiError::(\w+)', txt)
    if m.group(1) == 'unauthorized':
        return 'ErrUnauthorized'
    return 'ErrOther "%s"' % m.group(1)


def _authorize_rules(auth):
    fn = fn_body(auth, 'authorize', G)
    found = []   # (position, guard, outcome)

    def rule(guard, pattern, scope_text=None, base=0):
        text = fn if scope_text is None else scope_text
        m = re.search(pattern, text, re.S)
        if not m:
            lost(G, 'authorize rule ' + guard)
            return None
        found.append((base + m.start(), guard, _outcome(m.group(1))))
        return m

    rule('GNoAdminKey', r'let\s+Some\s*\(\s*admin\s*\)\s*=\s*admin\s+else\s*\{\s*return\s+' + OUT_RE + r'\s*;\s*\}')
    rule('GAdminVerifies', r'if\s+let\s+Some\s*\(\s*presented\s*\)\s*=\s*presented\s*&&\s*admin\s*\.\s*verify\s*\(\s*presented\s*\)\s*\{\s*return\s+'
         + OUT_RE + r'\s*;\s*\}')
    ms = re.search(r'\bmatch\s+scope\s*\{', fn)
    if not ms:
        lost(G, 'authorize `match scope`')
        return []
    sb = _braces(fn, ms.end() - 1)
    sbase = ms.end()
    rule('GScopeRoot', r'Scope::Root\s*=>\s*' + OUT_RE + r'\s*,', sb, sbase)
    md = re.search(r'Scope::Database\s*\(\s*_\s*\)\s*=>\s*match\s*\(\s*bound\s*,\s*presented\s*\)\s*\{', sb)
    if not md:
        lost(G, 'authorize `Scope::Database(_) => match (bound, presented)`')
        return []
    ib = _braces(sb, md.end() - 1)
    ibase = sbase + md.end()
    rule('GDbBoundVerifies', r'\(\s*Some\s*\(\s*bound\s*\)\s*,\s*Some\s*\(\s*presented\s*\)\s*\)\s*if\s+bound\s*\.\s*verify\s*\(\s*presented\s*\)\s*=>\s*'
         + OUT_RE + r'\s*,', ib, ibase)
    mw = re.search(r'(?<![\w)])_\s*=>\s*\{', ib)
    if not mw:
        lost(G, 'authorize rule GDbOtherwise')
    else:
        wb = _braces(ib, mw.end() - 1)
        mo = re.search(OUT_RE + r'\s*$', wb.strip(), re.S)
        if not mo:
            lost(G, 'authorize rule GDbOtherwise outcome')
        else:
            found.append((ibase + mw.start(), 'GDbOtherwise', _outcome(mo.group(1))))
    # every outcome expression of the function must belong to a recognised rule
    n_out = len(re.findall(OUT_RE, fn)) + len(re.findall(r'\breturn\b(?!\s+(?:Ok|Err)\s*\()', fn))
    if n_out != len(found):
        lost(G, 'authorize has %d outcome expressions, %d recognised rules' % (n_out, len(found)))
    # arms of `match scope` / inner match: exactly the recognised ones
    if len(re.findall(r'=>', sb)) != 4:
        lost(G, 'authorize: unexpected number of match arms (%d)' % len(re.findall(r'=>', sb)))
    found.sort()
    return [(g, o) for _, g, o in found]


def _order(body, items, what):
    """items: list of (tag, regex). Returns the tags ordered by first position; lost anchor when one is missing."""
    pos = []
    for tag, rx in items:
        m = re.search(rx, body, re.S)
        if not m:
            lost(G, '%s: %s' % (what, tag))
            continue
        pos.append((m.start(), tag))
    return [t for _, t in sorted(pos)]


def tables(repo):
    api = strip_rust_comments(read(repo, SRC + 'api/mod.rs'))
    auth = strip_rust_comments(read(repo, SRC + 'auth.rs'))
    state = strip_rust_comments(read(repo, SRC + 'state.rs'))
    lib = strip_rust_comments(read(repo, SRC + 'lib.rs'))
    err = strip_rust_comments(read(repo, SRC + 'error.rs'))
    api_nt = api.split('#[cfg(test)]')[0]
    t = {}
    t['root_variants'] = _enum_variants(api_nt, 'RootMethod')
    t['db_variants'] = _enum_variants(api_nt, 'DbMethod')
    t['root_table'] = _parse_table(api_nt, 'RootMethod')
    t['db_table'] = _parse_table(api_nt, 'DbMethod')
    t['root_dispatch'], t['root_dispatch_pre'] = _dispatch(api_nt, 'dispatch_root', 'RootMethod')
    t['db_dispatch'], t['db_dispatch_pre'] = _dispatch(api_nt, 'dispatch_db', 'DbMethod')
    t['authorize_rules'] = _authorize_rules(auth.split('#[cfg(test)]')[0])

    # AppState::authorize: which hash is `bound`
    sa = fn_body(state, 'authorize', G)
    t['bound_lookup'] = _order(sa, [
        ('root_none', r'Scope::Root\s*=>\s*None\s*,'),
        ('database_lookup', r'Scope::Database\s*\(\s*name\s*\)\s*=>\s*self\s*\.\s*db_api_key\s*\(\s*name\s*\)\s*,'),
        ('delegates', r'crate::auth::authorize\s*\(\s*self\s*\.\s*inner\s*\.\s*admin_key\s*\.\s*as_ref\s*\(\s*\)\s*,\s*bound\s*\.\s*as_ref\s*\(\s*\)\s*,\s*scope\s*,\s*presented\s*,?\s*\)'),
    ], 'AppState::authorize')
    if len(re.findall(r'=>', sa)) != 2:
        lost(G, 'AppState::authorize: unexpected match arms')
    dk = fn_body(state, 'db_api_key', G)
    if not re.search(r'\.api_keys\s*\.\s*read\s*\(\s*\)[^;]*\.get\s*\(\s*name\s*\)\s*\.\s*cloned\s*\(\s*\)', dk, re.S):
        lost(G, 'db_api_key = api_keys.get(name)')

    # execute_rpc: order of the steps
    ex = fn_body(api_nt, 'execute_rpc', G)
    t['execute_order'] = _order(ex, [
        ('authorize', r'let\s+principal\s*=\s*state\s*\.\s*authorize\s*\(\s*scope\s*,\s*bearer_token\s*\(\s*headers\s*\)\s*\)\s*\?\s*;'),
        ('parse_body', r'RpcRequest::parse\s*\(\s*headers\s*,\s*body\s*\)\s*\?'),
        ('parse_method', r'parse_method\s*\(\s*&method\s*\)\s*\.\s*ok_or_else\s*\(\s*\|\|\s*ApiError::method_not_found'),
        ('branch_on_effect', r'if\s+effect\s*==\s*MethodEffect::Mutating\s*\{'),
        ('dispatch', r'\bdispatch\s*\(\s*state\s*\.\s*clone\s*\(\s*\)\s*,\s*enc\s*,\s*method\s*,\s*params\s*,\s*principal\s*\)'),
    ], 'execute_rpc')
    mb = re.search(r'if\s+effect\s*==\s*MethodEffect::Mutating\s*\{', ex)
    t['cancellable_effect'] = ''
    if mb:
        mut_branch = _braces(ex, mb.end() - 1)
        rest = ex[mb.end() + len(mut_branch):]
        if 'spawn_mutation' in mut_branch and 'admit_read' in rest and 'spawn_mutation' not in rest and 'tokio::select!' in rest:
            t['cancellable_effect'] = 'Read'
        else:
            lost(G, 'execute_rpc: Mutating -> spawn_mutation, otherwise admit_read + select!')
    # require_auth
    ra = fn_body(api_nt, 'require_auth', G)
    t['require_auth_order'] = _order(ra, [
        ('non_post_passes', r'if\s+req\s*\.\s*method\s*\(\s*\)\s*!=\s*Method::POST\s*\{\s*return\s+next\s*\.\s*run\s*\(\s*req\s*\)\s*\.\s*await\s*;\s*\}'),
        ('bad_path_passes', r'let\s+Ok\s*\(\s*params\s*\)\s*=\s*params\s+else\s*\{\s*return\s+next\s*\.\s*run\s*\(\s*req\s*\)\s*\.\s*await\s*;\s*\}'),
        ('authorize_or_reject', r'if\s+let\s+Err\s*\(\s*err\s*\)\s*=\s*state\s*\.\s*authorize\s*\(\s*scope_from_params\s*\(\s*&params\s*\)\s*,\s*bearer_token\s*\(\s*req\s*\.\s*headers\s*\(\s*\)\s*\)\s*\)\s*\{\s*return\s+err\s*\.\s*respond'),
        ('next', r'\}\s*next\s*\.\s*run\s*\(\s*req\s*\)\s*\.\s*await\s*$'),
    ], 'require_auth')
    sp = fn_body(api_nt, 'scope_from_params', G)
    if not re.search(r'\*name\s*==\s*"db_name"\s*\)\s*\.\s*map\s*\(\s*\|\s*\(\s*_\s*,\s*value\s*\)\s*\|\s*Scope::Database\s*\(\s*value\s*\)\s*\)\s*\.\s*unwrap_or\s*\(\s*Scope::Root\s*\)', sp):
        lost(G, 'scope_from_params: db_name capture -> Scope::Database, else Scope::Root')
    bt = fn_body(api_nt, 'bearer_token', G)
    m = re.search(r'\.get\s*\(\s*header::AUTHORIZATION\s*\)\s*\.\s*and_then\s*\(\s*\|v\|\s*v\s*\.\s*to_str\s*\(\s*\)\s*\.\s*ok\s*\(\s*\)\s*\)\s*\.\s*and_then\s*\(\s*\|v\|\s*v\s*\.\s*strip_prefix\s*\(\s*"([^"]*)"\s*\)\s*\)', bt)
    t['bearer_prefix'] = m.group(1) if m else ''
    if not m:
        lost(G, 'bearer_token: strip_prefix')

    # handlers: scope, parse table, dispatcher and the database name they pass on
    hb = []
    rr = fn_body(api_nt, 'rpc_root', G)
    m = re.search(r'execute_rpc\s*\(\s*&state\s*,\s*(Scope::\w+)\s*,\s*enc\s*,\s*&headers\s*,\s*&body\s*,\s*(\w+)::parse\s*,', rr)
    d = re.search(r'\|\s*state\s*,\s*enc\s*,\s*method\s*,\s*params\s*,\s*_principal\s*\|\s*async\s+move\s*\{\s*(\w+)\s*\(\s*&state\s*,\s*enc\s*,\s*method\s*,\s*params\s*\)\s*\.\s*await\s*\}', rr)
    if m and d:
        hb.append(('rpc_root', m.group(1), m.group(2), d.group(1), ''))
    else:
        lost(G, 'rpc_root binding')
    rd = fn_body(api_nt, 'rpc_db', G)
    m = re.search(r'execute_rpc\s*\(\s*&state\s*,\s*Scope::Database\s*\(\s*&(\w+)\s*\)\s*,\s*enc\s*,\s*&headers\s*,\s*&body\s*,\s*(\w+)::parse\s*,', rd)
    d = re.search(r'\|\s*state\s*,\s*enc\s*,\s*method\s*,\s*params\s*,\s*principal\s*\|\s*async\s+move\s*\{\s*(\w+)\s*\(\s*&state\s*,\s*&(\w+)\s*,\s*principal\s*,\s*enc\s*,\s*method\s*,\s*params\s*\)\s*\.\s*await\s*\}', rd)
    cap = re.search(r'Path\s*\(\s*(\w+)\s*\)\s*:\s*Path\s*<\s*String\s*>', api_nt[api_nt.find('fn rpc_db'):api_nt.find('fn rpc_db') + 400])
    if m and d and cap:
        alias = re.search(r'let\s+%s\s*=\s*(\w+)\s*\.\s*clone\s*\(\s*\)\s*;' % re.escape(m.group(1)), rd)
        same = cap.group(1) == d.group(2) and ((alias and alias.group(1) == cap.group(1)) or m.group(1) == cap.group(1))
        hb.append(('rpc_db', 'Scope::Database(path)' if same else 'Scope::Database(?)', m.group(2), d.group(1), 'path' if same else '?'))
    else:
        lost(G, 'rpc_db binding')
    t['handler_bindings'] = hb

    # router
    br = fn_body(lib, 'build_router', G)
    routes = []
    for m in re.finditer(r'\.route\s*\(\s*"([^"]*)"\s*,\s*(.*?)\)\s*(?=\.\s*(?:route|route_layer|layer|with_state|fallback|nest|merge)\b)', br, re.S):
        for mm in re.finditer(r'\b(get|post|put|delete|patch|head|options|any)\s*\(\s*api::(\w+)\s*\)', m.group(2)):
            routes.append((m.group(1), mm.group(1), mm.group(2)))
    t['routes'] = routes
    if len(re.findall(r'\.route\s*\(', br)) != len({r[0] for r in routes}):
        lost(G, 'build_router: unrecognised route')
    t['router_calls'] = re.findall(r'\.\s*(route_layer|layer|with_state|fallback|fallback_service|nest|nest_service|merge|route_service|route)\s*\(', br)
    t['layers'] = re.findall(r'\.\s*(?:route_layer|layer)\s*\(\s*(?:middleware::from_fn(?:_with_state)?\s*\(\s*(?:state\s*\.\s*clone\s*\(\s*\)\s*,\s*)?api::(\w+)|(\w+)::)', br)
    t['layers'] = [a or b for a, b in t['layers']]

    # dispatch_db resolves the database from the path name before any arm runs
    if not re.search(r'let\s+db\s*=\s*state\s*\.\s*get_db\s*\(\s*db_name\s*\)\s*\.\s*await\s*\?\s*;', t['db_dispatch_pre']):
        lost(G, 'dispatch_db: let db = state.get_db(db_name).await?')
    gd = fn_body(state, 'get_db', G)
    if not re.search(r'\.databases\s*\.\s*read\s*\(\s*\)\s*\.\s*await\s*\.\s*get\s*\(\s*name\s*\)', gd) or 'ApiError::not_found' not in gd:
        lost(G, 'get_db: databases.get(name) or not_found')
    # scoped_info: the only database-scope handler that reads server-level state, gated on the principal
    si = fn_body(state, 'scoped_info', G)
    t['scoped_info_gated'] = bool(re.search(r'^\s*if\s+principal\s*\.\s*is_admin\s*\(\s*\)\s*\{\s*return\s+self\s*\.\s*info\s*\(\s*\)\s*\.\s*await\s*;\s*\}', si)) \
        and bool(re.search(r'primary_db\s*:\s*None\s*,\s*databases\s*:\s*vec!\s*\[\s*db_name\s*\.\s*to_string\s*\(\s*\)\s*\]', si)) \
        and len(re.findall(r'self\s*\.\s*(?!inner\s*\.\s*options\s*\.\s*(?:name|version)\b)', si)) == 1
    ia = re.search(r'fn\s+is_admin\s*\(\s*&self\s*\)\s*->\s*bool\s*\{\s*matches!\s*\(\s*self\s*,\s*Principal::Admin\s*\)\s*\}', auth)
    if not ia:
        lost(G, 'Principal::is_admin = matches!(self, Principal::Admin)')
    # the rejection is a constant
    m = re.search(r'pub\s+fn\s+unauthorized\s*\(\s*\)\s*->\s*Self\s*\{\s*Self::new\s*\(\s*StatusCode::(\w+)\s*,\s*"([^"]*)"\s*,\s*"([^"]*)"\s*,?\s*\)\s*\}', err)
    if m:
        t['unauthorized'] = [m.group(1), m.group(2), m.group(3)]
    else:
        lost(G, 'ApiError::unauthorized() constant')
        t['unauthorized'] = ['', '', '']
    # key provisioning guards (check_api_key_binding) in source order
    cb = fn_body(state, 'check_api_key_binding', G)
    t['binding_checks'] = _order(cb, [
        ('blank_key', r'if\s+key\s*\.\s*trim\s*\(\s*\)\s*\.\s*is_empty\s*\(\s*\)\s*\{\s*return\s+Err'),
        ('no_admin_key', r'if\s+self\s*\.\s*inner\s*\.\s*admin_key\s*\.\s*is_none\s*\(\s*\)\s*\{\s*return\s+Err'),
        ('primary_db', r'if\s+name\s*==\s*self\s*\.\s*inner\s*\.\s*options\s*\.\s*primary_db\s*\{\s*return\s+Err'),
    ], 'check_api_key_binding')
    # every writer of the key map goes through store_api_key, and its callers check the binding first
    t['api_keys_writers'] = sorted(set(re.findall(r'fn\s+(\w+)', '\n'.join(
        seg for seg in re.split(r'(?=\n    (?:pub(?:\(crate\))?\s+)?(?:async\s+)?fn\s)', state)
        if re.search(r'\.api_keys\s*\.\s*write\s*\(', seg)))[:50]))
    callers = {}
    for seg in re.split(r'(?=\n    (?:pub(?:\(crate\))?\s+)?(?:async\s+)?fn\s)', state):
        nm = re.search(r'fn\s+(\w+)', seg)
        if nm and re.search(r'\.\s*store_api_key\s*\(', seg) and nm.group(1) != 'store_api_key':
            hashes = re.findall(r'store_api_key\s*\(\s*name\s*,\s*(None|Some)', seg)
            chk = seg.find('check_api_key_binding')
            first_some = seg.find('store_api_key(name, Some')
            if first_some < 0:
                first_some = re.search(r'store_api_key\s*\(\s*name\s*,\s*Some', seg)
                first_some = first_some.start() if first_some else -1
            callers[nm.group(1)] = {'binds': 'Some' in hashes, 'checked_before_bind': ('Some' not in hashes) or (0 <= chk < first_some)}
    t['store_api_key_callers'] = callers
    # persistence of the key map and of the registry: every step, and any `return` ahead of the write
    for fn, const, var, key in (('persist_api_keys', 'DB_API_KEYS_KEY', 'keys', 'persist_keys_steps'),
                                ('persist_registry', 'DB_REGISTRY_KEY', 'names', 'persist_registry_steps')):
        pb = fn_body(state, fn, G)
        steps = []
        items = [
            ('snapshot', r'let\s+%s\s*:\s*BTree(?:Map|Set)\s*<[^;]*?\.clone\s*\(\s*\)\s*\}?\s*;' % var),
            ('primary_lookup', r'dbs\s*\.\s*get\s*\(\s*&self\s*\.\s*inner\s*\.\s*options\s*\.\s*primary_db\s*\)'),
            ('save_extension', r'\.\s*save_extension_from\s*\(\s*%s\s*\.\s*to_string\s*\(\s*\)\s*,\s*&%s\s*\)\s*\.\s*await' % (const, var)),
            ('propagate_error', r'return\s+Err\s*\(\s*err\s*\.\s*into\s*\(\s*\)\s*\)\s*;'),
            ('ok', r'Ok\s*\(\s*\(\s*\)\s*\)\s*$'),
        ]
        pos = []
        for tag, rx in items:
            m = re.search(rx, pb.strip() if tag == 'ok' else pb, re.S)
            if not m:
                lost(G, '%s: %s' % (fn, tag))
                continue
            pos.append((m.start() if tag != 'ok' else len(pb), tag))
        save = next((p_ for p_, tg in pos if tg == 'save_extension'), len(pb))
        for m in re.finditer(r'\breturn\b|\?\s*;', pb):
            if m.start() < save:
                pos.append((m.start(), 'early_exit'))
        t[key] = [tg for _, tg in sorted(pos)]
    sk = fn_body(state, 'store_api_key', G)
    t['store_api_key_steps'] = _order(sk, [
        ('update_map', r'Some\s*\(\s*hash\s*\)\s*=>\s*keys\s*\.\s*insert\s*\(\s*name\s*\.\s*to_string\s*\(\s*\)\s*,\s*hash\s*\)\s*,\s*None\s*=>\s*keys\s*\.\s*remove\s*\(\s*name\s*\)'),
        ('persist', r'if\s+let\s+Err\s*\(\s*err\s*\)\s*=\s*self\s*\.\s*persist_api_keys\s*\(\s*\)\s*\.\s*await\s*\{'),
        ('rollback_and_fail', r'return\s+Err\s*\(\s*err\s*\)\s*;'),
    ], 'store_api_key')
    cn = fn_body(state, 'connect', G)
    t['connect_loads'] = _order(cn, [
        ('registry_from_extension', r'primary\s*\.\s*get_extension\s*\(\s*DB_REGISTRY_KEY\s*\)'),
        ('keys_from_extension', r'let\s+api_keys\s*:\s*BTreeMap\s*<\s*String\s*,\s*ApiKeyHash\s*>\s*=\s*match\s+primary\s*\.\s*get_extension\s*\(\s*DB_API_KEYS_KEY\s*\)\s*\{\s*Some\s*\(\s*value\s*\)\s*=>\s*value\s*\.\s*deserialized\s*\(\s*\)'),
        ('keys_without_admin_refused', r'if\s+!\s*api_keys\s*\.\s*is_empty\s*\(\s*\)\s*&&\s*options\s*\.\s*api_key\s*\.\s*is_none\s*\(\s*\)\s*\{\s*return\s+Err'),
        ('keys_into_state', r'api_keys\s*:\s*StdRwLock::new\s*\(\s*api_keys\s*\)'),
        ('reopen_registered', r'for\s+name\s+in\s+registered\s*\{'),
    ], 'AppState::connect')
    return t


def _s(x):
    return coq_string(x)


def _lst(xs):
    return '[' + '; '.join(xs) + ']'


def generate(repo):
    t = tables(repo)
    o = [HEADER, 'From Coq Require Import List String.\nFrom Verif Require Import Server.Model.\nImport ListNotations.\nOpen Scope string_scope.\n\n']
    o.append('Definition root_variants : list string := %s.\n' % _lst(_s(v) for v in t['root_variants']))
    o.append('Definition db_variants : list string := %s.\n' % _lst(_s(v) for v in t['db_variants']))
    for nm in ('root_table', 'db_table'):
        o.append('Definition %s : list mrow :=\n  %s.\n' % (nm, _lst('(%s, %s, %s)' % (_s(a), _s(b), c) for a, b, c in t[nm])))
    for nm in ('root_dispatch', 'db_dispatch'):
        o.append('Definition %s : list arm :=\n  %s.\n' % (nm, _lst(
            'mk_arm %s %s %s %s %s %s' % (_s(a['variant']), _s(a['handler']), str(a['state']).lower(), str(a['db']).lower(),
                                          str(a['db_name']).lower(), str(a['principal']).lower()) for a in t[nm])))
    o.append('Definition authorize_rules : list rule := %s.\n' % _lst('(%s, %s)' % (g, oc) for g, oc in t['authorize_rules']))
    o.append('Definition bound_lookup : list string := %s.\n' % _lst(_s(x) for x in t['bound_lookup']))
    o.append('Definition execute_order : list string := %s.\n' % _lst(_s(x) for x in t['execute_order']))
    o.append('Definition cancellable_effect : list effect := %s.\n' % _lst([t['cancellable_effect']] if t['cancellable_effect'] else []))
    o.append('Definition require_auth_order : list string := %s.\n' % _lst(_s(x) for x in t['require_auth_order']))
    o.append('Definition bearer_prefix : string := %s.\n' % _s(t['bearer_prefix']))
    o.append('Definition handler_bindings : list (string * string * string * string * string) := %s.\n' % _lst(
        '(%s)' % ', '.join(_s(x) for x in hb) for hb in t['handler_bindings']))
    o.append('Definition routes : list (string * string * string) := %s.\n' % _lst('(%s, %s, %s)' % tuple(_s(x) for x in r) for r in t['routes']))
    o.append('Definition router_calls : list string := %s.\n' % _lst(_s(x) for x in t['router_calls']))
    o.append('Definition layers : list string := %s.\n' % _lst(_s(x) for x in t['layers']))
    o.append('Definition scoped_info_gated : bool := %s.\n' % str(t['scoped_info_gated']).lower())
    o.append('Definition unauthorized_wire : string * string * string := (%s, %s, %s).\n' % tuple(_s(x) for x in t['unauthorized']))
    o.append('Definition binding_checks : list string := %s.\n' % _lst(_s(x) for x in t['binding_checks']))
    o.append('Definition api_keys_writers : list string := %s.\n' % _lst(_s(x) for x in t['api_keys_writers']))
    for nm in ('persist_keys_steps', 'persist_registry_steps', 'store_api_key_steps', 'connect_loads'):
        o.append('Definition %s : list string := %s.\n' % (nm, _lst(_s(x) for x in t[nm])))
    o.append('Definition store_api_key_callers : list (string * bool * bool) := %s.\n' % _lst(
        '(%s, %s, %s)' % (_s(k), str(v['binds']).lower(), str(v['checked_before_bind']).lower())
        for k, v in sorted(t['store_api_key_callers'].items())))
    return G, ''.join(o)


if __name__ == '__main__':
    repo = '/repo'
    if '--repo' in sys.argv:
        repo = sys.argv[sys.argv.index('--repo') + 1]
    if '--json' in sys.argv:
        print(json.dumps(tables(repo), indent=1))
    else:
        print(generate(repo)[1])
    if LOST:  # noqa: F405
        sys.exit(1)
