#!/usr/bin/env python3
"""Writes /verif/MANIFEST.json from the table below (kept next to the code so it stays current)."""
import json

import glob
import importlib
import os
import sys

sys.path.insert(0, '/verif/lib')
sys.path.insert(0, '/verif/props')
CHECKS = {}
for _p in sorted(glob.glob('/verif/props/C*.py')):
    _m = importlib.import_module(os.path.basename(_p)[:-3])
    if getattr(_m, 'META', None):
        CHECKS[os.path.basename(_p)[:-3]] = _m.META

NOT_YET = {}
for _p in sorted(glob.glob('/verif/props/C*.py')):
    _m = importlib.import_module(os.path.basename(_p)[:-3])
    if getattr(_m, 'NOT_APPLICABLE', None):
        NOT_YET[os.path.basename(_p)[:-3]] = _m.NOT_APPLICABLE

import subprocess
HOOK_COMMITS = subprocess.run("git -C /repo log --format=%h --grep='^verif hook'", shell=True, stdout=subprocess.PIPE).stdout.decode().split()
ALL = ['C%02d' % i for i in range(1, 21)]


def main():
    checks = []
    for pid in ALL:
        if pid not in CHECKS:
            continue
        c = CHECKS[pid]
        checks.append({
            'property_id': pid,
            'quick_cmd': './check %s --tier quick' % pid,
            'thorough_cmd': './check %s --tier thorough' % pid,
            'evidence_file': '/verif/evidence/%s.json' % pid,
            'replay_cmd_template': './check %s --replay {path}' % pid,
            'engine': 'coq-model-correspondence',
            'level_claimed': {'category': c['category'], 'text': c['text'], 'design_ref': c['design_ref']},
            'level_note': c['note'],
            'technique': c['technique'],
        })
    na = [{'property_id': pid, 'reason': NOT_YET.get(pid, 'check not built yet in this round (planned in DESIGN.md section 4); not claimed until it runs')}
          for pid in ALL if pid not in CHECKS]
    m = {
        'version': 1,
        'setup_cmd': './setup.sh',
        'hooks': {
            'guard': 'cfg(anda_verif)',
            'enable': 'RUSTFLAGS="--cfg anda_verif" (set by lib/vlib.py when building /verif/harness against /repo path dependencies)',
            'baseline_off_cmd': 'cd /repo && cargo test --workspace --no-fail-fast --offline',
            'source_commits': HOOK_COMMITS,
            'add_only': True,
        },
        'engines': [{
            'name': 'coq-model-correspondence', 'path': '/verif/check',
            'serves_properties': [c['property_id'] for c in checks],
            'kind_free_text': 'Coq 8.16.1 development (/verif/coq) + translator (/verif/tools/translate.py) + Rust harness (/verif/harness) + driver (/verif/check, /verif/lib/vlib.py)',
        }],
        'checks': checks,
        'not_applicable': na,
        'notes': 'See DESIGN.md. Every check regenerates gen/*.v from /repo, rebuilds the Coq targets and the harness against the working tree, and applies the violation protocol of DESIGN.md section 2.',
    }
    json.dump(m, open('/verif/MANIFEST.json', 'w'), indent=1)
    print('MANIFEST.json: %d checks, %d not claimed' % (len(checks), len(na)))


if __name__ == '__main__':
    main()
