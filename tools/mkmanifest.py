#!/usr/bin/env python3
"""Writes /verif/MANIFEST.json from the table below (kept next to the code so it stays current)."""
import json

CHECKS = {
    'C20': {
        'category': 'proof',
        'text': ('Coq theorems over an executable model of eligible/aggregate/classify (grouping = at most one new group per '
                 'candidate and none when it shares an actor or evidence id; insufficient iff nobody engaged; rejected needs '
                 'decisive opposition; score in [0,1], monotone, symmetric over exact rationals; the binary64 score is a '
                 'function of the multiset because the fold runs over the sorted maxima), generated facts re-extracted from '
                 'the source on every run, and a bit-exact correspondence run of model vs implementation.'),
        'design_ref': 'DESIGN.md section 4 / C20',
        'note': ('Trusted: Coq kernel + vm_compute on primitive floats; translator; harness + hook '
                 'projection::verif; IEEE facts about f64::total_cmp (premises). Rows are supplied decoded; the KQL glue '
                 'around project_belief is exercised by the end-to-end part only.'),
        'technique': 'Coq proof (induction over group lists, canonical sorted form) + translator-generated facts + differential model/impl run',
    },
}

NOT_YET = {
}

ALL = ['C%02d' % i for i in range(1, 21)]


def main():
    checks = []
    for pid in ALL:
        if pid not in CHECKS:
            continue
        c = CHECKS[pid]
        checks.append({
            'property_id': pid,
            'quick_cmd': './check %s --tier quick' % pid,
            'thorough_cmd': './check %s --tier thorough' % pid,
            'evidence_file': '/verif/evidence/%s.json' % pid,
            'replay_cmd_template': './check %s --replay {path}' % pid,
            'engine': 'coq-model-correspondence',
            'level_claimed': {'category': c['category'], 'text': c['text'], 'design_ref': c['design_ref']},
            'level_note': c['note'],
            'technique': c['technique'],
        })
    na = [{'property_id': pid, 'reason': NOT_YET.get(pid, 'check not built yet in this round (planned in DESIGN.md section 4); not claimed until it runs')}
          for pid in ALL if pid not in CHECKS]
    m = {
        'version': 1,
        'setup_cmd': './setup.sh',
        'hooks': {
            'guard': 'cfg(anda_verif)',
            'enable': 'RUSTFLAGS="--cfg anda_verif" (set by lib/vlib.py when building /verif/harness against /repo path dependencies)',
            'baseline_off_cmd': 'cd /repo && cargo test --workspace --no-fail-fast --offline',
            'source_commits': json.load(open('/verif/hooks.json'))['commits'],
            'add_only': True,
        },
        'engines': [{
            'name': 'coq-model-correspondence', 'path': '/verif/check',
            'serves_properties': [c['property_id'] for c in checks],
            'kind_free_text': 'Coq 8.16.1 development (/verif/coq) + translator (/verif/tools/translate.py) + Rust harness (/verif/harness) + driver (/verif/check, /verif/lib/vlib.py)',
        }],
        'checks': checks,
        'not_applicable': na,
        'notes': 'See DESIGN.md. Every check regenerates gen/*.v from /repo, rebuilds the Coq targets and the harness against the working tree, and applies the violation protocol of DESIGN.md section 2.',
    }
    json.dump(m, open('/verif/MANIFEST.json', 'w'), indent=1)
    print('MANIFEST.json: %d checks, %d not claimed' % (len(checks), len(na)))


if __name__ == '__main__':
    main()
