#!/bin/bash
# Run a command (typically `cargo test -p <crate> --offline`) in a scratch worktree of /repo HEAD with a patch
# applied, mounted AT /repo in a private mount namespace, with an overlayfs over /repo/target so that only the
# changed crates rebuild.   tools/nstest.sh <patch.diff> <name> -- <command...>     (cwd of the command: /repo)
SRC="$1"; NAME="$2"; shift 3
ALT=/tmp/nstest/$NAME
mkdir -p $ALT/up $ALT/work
WT=$ALT/wt
git -C /repo worktree remove --force $WT 2>/dev/null
git -C /repo worktree add -q $WT HEAD || exit 2
git -C $WT apply "$(realpath $SRC)" || { echo "[nstest] patch does not apply"; exit 2; }
mkdir -p $WT/target
export NS_WT=$WT NS_ALT=$ALT
unshare -m bash -c '
  mount -t overlay overlay -o lowerdir=/repo/target,upperdir=$NS_ALT/up,workdir=$NS_ALT/work $NS_WT/target || exit 3
  mount --rbind $NS_WT /repo
  cd /repo && CARGO_NET_OFFLINE=true "$@"' bash "$@"
rc=$?
echo "[nstest] exit=$rc (clean: git -C /repo worktree remove --force $WT; rm -rf $ALT)"
exit $rc
