#!/usr/bin/env python3
"""Confirm a seeded change independently: in a scratch worktree of /repo's HEAD
  (1) the demonstration passes WITHOUT the change,
  (2) the demonstration fails WITH the change,
  (3) the existing tests of the touched crates still pass WITH the change (demo removed).
Writes <seed-dir>/confirmed.json.   usage: tools/seedconfirm.py <seed-dir> [target-dir]
"""
import json
import os
import re
import subprocess
import sys
import time


def sh(cmd, cwd=None, timeout=5400, env=None):
    e = dict(os.environ, CARGO_NET_OFFLINE='true')
    if env:
        e.update(env)
    try:
        p = subprocess.run(cmd, shell=True, cwd=cwd, env=e, stdout=subprocess.PIPE, stderr=subprocess.STDOUT, timeout=timeout)
        return p.returncode, p.stdout.decode('utf-8', 'replace')
    except subprocess.TimeoutExpired as ex:
        return 124, (ex.stdout or b'').decode('utf-8', 'replace') + '\n[timeout]'


def summarize(out):
    passed = sum(int(m) for m in re.findall(r'test result: \w+\. (\d+) passed', out))
    failed = sum(int(m) for m in re.findall(r'test result: \w+\. \d+ passed; (\d+) failed', out))
    return passed, failed


def main():
    seed = os.path.abspath(sys.argv[1])
    name = os.path.basename(seed.rstrip('/'))
    target = sys.argv[2] if len(sys.argv) > 2 else '/tmp/seedconfirm_target'
    wt = '/tmp/seedconfirm/' + name
    os.makedirs('/tmp/seedconfirm', exist_ok=True)
    sh('git -C /repo worktree remove --force %s' % wt)
    rc, out = sh('git -C /repo worktree add -q %s HEAD' % wt)
    if rc:
        print(out)
        sys.exit(2)
    meta = json.load(open(seed + '/meta.json'))
    env = {'CARGO_TARGET_DIR': target}
    res = {'seed': name, 'head': subprocess.check_output('git -C /repo rev-parse --short HEAD', shell=True).decode().strip()}
    try:
        rc, out = sh('git apply %s/demo.diff' % seed, cwd=wt)
        res['demo_applies'] = rc == 0
        demo_cmd = meta.get('demo_cmd', '')
        demo_cmd = re.sub(r'CARGO_TARGET_DIR=\S+\s*', '', demo_cmd)
        demo_cmd = re.sub(r'CARGO_NET_OFFLINE=\S+\s*', '', demo_cmd)
        res['demo_cmd'] = demo_cmd
        t0 = time.time()
        sh("git diff --name-only | xargs -r touch; git ls-files -o --exclude-standard | xargs -r touch", cwd=wt)
        rc, out = sh(demo_cmd, cwd=wt, env=env)
        res['demo_without_change'] = {'exit': rc, 'passed_failed': summarize(out), 'ok': rc == 0}
        rc, o2 = sh('git apply %s/patch.diff' % seed, cwd=wt)
        res['patch_applies'] = rc == 0
        sh("git diff --name-only | xargs -r touch", cwd=wt)
        rc, out = sh(demo_cmd, cwd=wt, env=env)
        res['demo_with_change'] = {'exit': rc, 'passed_failed': summarize(out), 'ok': rc != 0 and summarize(out)[1] > 0,
                                   'tail': out.splitlines()[-12:]}
        # existing tests with the change, demonstration removed
        sh('git apply -R %s/demo.diff' % seed, cwd=wt)
        sh("git diff --name-only | xargs -r touch", cwd=wt)
        crates = sorted({f.split('/')[1] for f in meta.get('files_changed', []) if f.startswith('rs/')})
        if not crates:
            crates = sorted({l.split('/')[2] for l in open(seed + '/patch.diff') if l.startswith('+++ b/rs/')})
        res['crates'] = crates
        ex = {}
        for c in crates:
            rc, out = sh('cargo test -p %s --offline --no-fail-fast' % c, cwd=wt, env=env)
            ex[c] = {'exit': rc, 'passed_failed': summarize(out)}
        res['existing_tests_with_change'] = ex
        res['existing_ok'] = all(v['exit'] == 0 for v in ex.values())
        res['confirmed'] = bool(res['demo_without_change']['ok'] and res['demo_with_change']['ok'] and res['existing_ok'])
        res['wall_s'] = round(time.time() - t0)
    finally:
        sh('git -C /repo worktree remove --force %s' % wt)
        json.dump(res, open(seed + '/confirmed.json', 'w'), indent=1)
    print(name, 'CONFIRMED' if res.get('confirmed') else 'NOT CONFIRMED', json.dumps({k: res.get(k) for k in ('demo_without_change', 'existing_tests_with_change')})[:400])


if __name__ == '__main__':
    main()
