"""JSON -> Coq term printer used for cases.v files.

Encoding (produced by harness/h_common):
  int            -> (n)%Z
  bool           -> true/false
  str            -> "..."%string   (bytes; '"' doubled)
  list           -> [a; b; c]
  {"t":[..]}     -> (a, b, c)
  {"c":N,"a":[]} -> (N a b)
  None           -> None
  {"some":x}     -> (Some x)
  {"fbits":u64}  -> binary64 literal (hex float)
  {"nat":n}      -> n%nat
  {"N":n}        -> n%N
  {"raw":"..."}  -> verbatim
"""
import struct


def fbits_to_coq(bits):
    x = struct.unpack('<d', struct.pack('<Q', bits))[0]
    if x != x:
        return 'PrimFloat.nan'
    if x == float('inf'):
        return 'PrimFloat.infinity'
    if x == float('-inf'):
        return 'PrimFloat.neg_infinity'
    if x == 0.0:
        return '(-0)%float' if bits >> 63 else '0%float'
    h = x.hex()  # e.g. 0x1.8000000000000p-1 or -0x1.0p+0
    neg = h.startswith('-')
    if neg:
        h = h[1:]
    lit = h + '%float'
    return '(-' + lit + ')' if neg else '(' + lit + ')'


def coq_string(s):
    out = []
    for ch in s:
        if ch == '"':
            out.append('""')
        else:
            out.append(ch)
    return '"' + ''.join(out) + '"%string'


def to_coq(v):
    if v is None:
        return 'None'
    if isinstance(v, bool):
        return 'true' if v else 'false'
    if isinstance(v, int):
        return '(%d)%%Z' % v
    if isinstance(v, str):
        return coq_string(v)
    if isinstance(v, list):
        return '[' + '; '.join(to_coq(x) for x in v) + ']'
    if isinstance(v, dict):
        if 't' in v:
            return '(' + ', '.join(to_coq(x) for x in v['t']) + ')'
        if 'c' in v:
            args = v.get('a', [])
            if not args:
                return v['c']
            return '(' + v['c'] + ' ' + ' '.join(to_coq(x) for x in args) + ')'
        if 'some' in v:
            return '(Some ' + to_coq(v['some']) + ')'
        if 'fbits' in v:
            return fbits_to_coq(v['fbits'])
        if 'nat' in v:
            return '%d%%nat' % v['nat']
        if 'N' in v:
            return '%d%%N' % v['N']
        if 'raw' in v:
            return v['raw']
    raise ValueError('cannot print as Coq term: %r' % (v,))
