"""Shared driver machinery for /verif/check (see DESIGN.md sections 1.3 and 2)."""
import fcntl
import glob
import hashlib
import json
import os
import re
import subprocess
import sys
import time
from concurrent.futures import ThreadPoolExecutor

sys.path.insert(0, os.path.dirname(__file__))
from coqterm import to_coq  # noqa: E402

ROOT = '/verif'
REPO = os.environ.get('VERIF_REPO', '/repo').rstrip('/') or '/repo'
CACHE = ROOT + '/.cache'
GUARD_FLAGS = '--cfg anda_verif'
if REPO == '/repo':
    OUT = ROOT                      # evidence/, replays/ live in /verif
    COQ = ROOT + '/coq'
    HARNESS = ROOT + '/harness'
    TARGET = CACHE + '/target'
else:
    # Alternate source tree (used to try the checks on a modified copy of the repository without
    # touching /repo): private copies of the Coq tree, the harness (paths rewritten) and the target dir.
    _h = hashlib.sha1(REPO.encode()).hexdigest()[:10]
    OUT = '%s/alt/%s' % (CACHE, _h)
    COQ = OUT + '/coq'
    HARNESS = OUT + '/harness'
    TARGET = OUT + '/target'


def prepare_alt():
    if REPO == '/repo':
        return
    os.makedirs(OUT, exist_ok=True)
    subprocess.run("rsync -a --delete --exclude gen/ --exclude '*.vo' --exclude '*.vos' --exclude '*.vok' --exclude '*.glob' "
                   "--exclude '.*.aux' --exclude '.lia.cache' --exclude Makefile --exclude Makefile.conf --exclude .Makefile.d "
                   "--exclude _CoqProject %s/coq/ %s/" % (ROOT, COQ), shell=True, check=True)
    os.makedirs(COQ + '/gen', exist_ok=True)
    subprocess.run('rsync -a --delete --exclude target/ --exclude Cargo.lock %s/harness/ %s/' % (ROOT, HARNESS), shell=True, check=True)
    subprocess.run("grep -rl '\"/repo/' %s --include=Cargo.toml | xargs -r sed -i 's#\"/repo/#\"%s/#g'" % (HARNESS, REPO), shell=True, check=True)
    if not os.path.exists(TARGET) and os.path.exists(CACHE + '/target'):
        subprocess.run('cp -a --reflink=auto %s/target %s' % (CACHE, TARGET), shell=True)


FORBIDDEN = re.compile(
    r'\bAdmitted\b|\badmit\b|\bAxiom\b|\bAxioms\b|\bParameter\b|\bParameters\b|\bConjecture\b|'
    r'Unset\s+Guard|bypass_check|type-in-type|impredicative-set|Admit\s+Obligations|'
    r'Unset\s+Positivity|Unset\s+Universe')

# axioms of the standard library (and libraries shipped with this sandbox) that may
# appear under Print Assumptions; every one that does appear is named in the evidence
STDLIB_AXIOMS = {
    'functional_extensionality_dep', 'FunctionalExtensionality.functional_extensionality_dep',
    'proof_irrelevance', 'ProofIrrelevance.proof_irrelevance', 'Eqdep.Eq_rect_eq.eq_rect_eq',
    'eq_rect_eq', 'JMeq_eq', 'JMeq.JMeq_eq', 'classic', 'Classical_Prop.classic',
    'ClassicalDedekindReals.sig_forall_dec', 'ClassicalDedekindReals.sig_not_dec',
    'FloatAxioms.mul_spec', 'FloatAxioms.sub_spec', 'FloatAxioms.add_spec',
}


def log(*a):
    print('[verif]', *a, file=sys.stderr, flush=True)


def sh(cmd, timeout=1800, env=None, cwd=None, stdin=None):
    e = dict(os.environ)
    e.setdefault('CARGO_NET_OFFLINE', 'true')
    if env:
        e.update(env)
    t0 = time.time()
    try:
        p = subprocess.run(cmd, shell=isinstance(cmd, str), cwd=cwd, env=e, timeout=timeout,
                           stdout=subprocess.PIPE, stderr=subprocess.STDOUT, input=stdin)
        out = p.stdout.decode('utf-8', 'replace')
        return p.returncode, out, time.time() - t0
    except subprocess.TimeoutExpired as ex:
        out = (ex.stdout or b'').decode('utf-8', 'replace')
        return 124, out + '\n[timeout after %ss]' % timeout, time.time() - t0


class Lock:
    def __init__(self, name):
        os.makedirs(OUT if REPO != '/repo' else CACHE, exist_ok=True)
        self.path = '%s/%s.lock' % (OUT if REPO != '/repo' else CACHE, name)

    def __enter__(self):
        self.f = open(self.path, 'w')
        fcntl.flock(self.f, fcntl.LOCK_EX)
        return self

    def __exit__(self, *a):
        fcntl.flock(self.f, fcntl.LOCK_UN)
        self.f.close()


def known_findings():
    p = ROOT + '/known_findings.json'
    if not os.path.exists(p):
        return []
    return json.load(open(p)).get('findings', [])


class Check:
    """One run of one property's check."""

    def __init__(self, pid, tier, seed, replay=None):
        self.pid, self.tier, self.seed, self.replay = pid, tier, seed, replay
        self.t0 = time.time()
        self.obligations = []      # {name, kind, ok, detail}
        self.trusted = []          # strings
        self.assumptions = []      # strings
        self.cov = {}              # extra coverage keys
        self.samples = []
        self.evaluations = 0
        self.distinct = set()
        self.rule = ''
        self.violations = []       # {cls, what, found, replay}
        self.level = 'proof'
        self.checker_cmd = ''
        os.makedirs(CACHE, exist_ok=True)
        prepare_alt()
        self.work = '%s/work/%s' % (OUT if REPO != '/repo' else CACHE, pid)
        os.makedirs(self.work, exist_ok=True)

    # ---------------------------------------------------------------- obligations
    def ob(self, name, ok, kind='theorem', detail=''):
        self.obligations.append({'name': name, 'kind': kind, 'ok': bool(ok), 'detail': detail[-4000:] if detail else ''})
        if not ok and 'not checked: build failed' not in (detail or ''):
            log('OBLIGATION BROKEN: %s (%s) %s' % (name, kind, (detail or '')[-1500:]))
        return bool(ok)

    def broken(self):
        return [o for o in self.obligations if not o['ok']]

    def trust(self, *items):
        for i in items:
            if i not in self.trusted:
                self.trusted.append(i)

    def assume(self, *items):
        for i in items:
            if i not in self.assumptions:
                self.assumptions.append(i)

    def count(self, n=1):
        self.evaluations += n

    def nontrivial(self, key):
        """Record a distinct non-trivial case by its canonical key."""
        self.distinct.add(hashlib.sha1(repr(key).encode()).hexdigest()[:16])

    def sample(self, s, limit=6):
        if len(self.samples) < limit:
            self.samples.append(s)

    # ---------------------------------------------------------------- translator
    def translate(self, only=None):
        """Regenerate coq/gen/*.v from the repository's working tree. Lost anchors are broken obligations.
        only: list of generator module names (e.g. ['gen_policy']) whose lost anchors count for THIS
        property; all generators still run (their files are needed to build), but a lost anchor in a
        generator that serves another property is that property's broken obligation, not this one's."""
        with Lock('coq'):
            rc, out, _ = sh([sys.executable, ROOT + '/tools/translate.py', '--repo', REPO, '--out', COQ + '/gen'], timeout=600)
        lost = [l for l in out.splitlines() if l.startswith('LOST-ANCHOR')]
        if only:
            mine = []
            for l in lost:
                parts = l.split()
                g = parts[1].lower() if len(parts) > 1 else ''
                if any(g == o.lower() or g == o.lower().replace('gen_', 'gen_') or g.replace('gen_', '') == o.lower().replace('gen_', '') for o in only):
                    mine.append(l)
            lost = mine
            ok = not lost
        else:
            ok = rc == 0 and not lost
        self.ob('translator regenerates gen/*.v from the repository working tree', ok, 'generated',
                out if not ok else '')
        self.trust('translator /verif/tools/translate.py (regex extraction of constants, tables and step orders from Rust source)')
        return ok

    # ---------------------------------------------------------------- Coq
    def coq_project(self):
        files = sorted(os.path.relpath(p, COQ) for p in glob.glob(COQ + '/**/*.v', recursive=True))
        files = [f for f in files if not f.startswith('cases/')]
        body = ('-Q . Verif\n'
                '-arg -w -arg -notation-overridden,-deprecated-hint-without-locality,'
                '-deprecated-instance-without-locality,-deprecated-hint-rewrite-without-locality,'
                '-ambiguous-paths,-redundant-canonical-projection,-future-coercion-class-field\n'
                + '\n'.join(files) + '\n')
        cp = COQ + '/_CoqProject'
        old = open(cp).read() if os.path.exists(cp) else ''
        if old != body or not os.path.exists(COQ + '/Makefile'):
            open(cp, 'w').write(body)
            sh('coq_makefile -f _CoqProject -o Makefile', cwd=COQ, timeout=120)
        return files

    def hygiene(self, subdirs):
        bad = []
        for d in subdirs:
            for p in glob.glob('%s/%s/**/*.v' % (COQ, d), recursive=True) + glob.glob('%s/%s/*.v' % (COQ, d)):
                src = open(p).read()
                src_nc = strip_coq_comments(src)
                for m in FORBIDDEN.finditer(src_nc):
                    bad.append('%s: %s' % (os.path.relpath(p, COQ), m.group(0)))
        self.ob('no Admitted/admit/Axiom/Parameter/Conjecture/disabled checks in ' + ','.join(subdirs),
                not bad, 'hygiene', '\n'.join(sorted(set(bad))))

    def coq(self, props_files, subdirs, timeout=1500, extra_allowed=(), model_targets=()):
        """Build the .vo closure of the given Props files; record one obligation per pinned
        theorem (it compiled and its Print Assumptions is within the allowlist)."""
        self.hygiene(subdirs)
        with Lock('coq'):
            self.coq_project()
            targets = [f[:-2] + '.vo' for f in props_files]
            cmd = 'timeout %d make -k -j16 %s' % (timeout, ' '.join(list(model_targets) + targets))
            rc, out, wall = sh(cmd, cwd=COQ, timeout=timeout + 30)
            per_file = {}
            if rc == 0:
                # re-check each file of pinned statements on its own so its Print Assumptions
                # output is captured in order (nothing depends on a Props file)
                def one(f):
                    return f, sh('coqc -q -Q . Verif %s' % f, cwd=COQ, timeout=900)
                with ThreadPoolExecutor(max_workers=8) as ex:
                    for f, (rc2, out2, _) in ex.map(one, props_files):
                        per_file[f] = (rc2, out2)
                        if rc2 != 0:
                            rc, out = rc2, out2
        self.checker_cmd = 'cd ' + COQ + ' && coq_makefile -f _CoqProject -o Makefile && ' + cmd
        self.cov['coq_wall_s'] = round(wall, 1)
        self.trust('Coq 8.16.1 kernel (coqc, vm_compute; no native_compute)')
        ok_build = (rc == 0)
        if not ok_build:
            self.ob('coq build of ' + ' '.join(targets), False, 'theorem', out)
        # map Print Assumptions outputs to theorem names, per file, in order
        all_ok = ok_build
        for f in props_files:
            src = strip_coq_comments(open(COQ + '/' + f).read())
            thms = re.findall(r'\b(?:Theorem|Lemma|Corollary)\s+([A-Za-z0-9_\']+)', src)
            printed = re.findall(r'Print\s+Assumptions\s+([A-Za-z0-9_\'.]+)\s*\.', src)
            for t in thms:
                if t not in printed:
                    self.ob('%s: %s has a Print Assumptions' % (f, t), False, 'hygiene', 'missing Print Assumptions')
            if not ok_build:
                for t in thms:
                    self.ob('%s: %s' % (f, t), False, 'theorem', 'not checked: build failed')
                continue
            blocks = split_assumptions(per_file[f][1], None)
            for i, t in enumerate(printed):
                if i >= len(blocks):
                    self.ob('%s: %s' % (f, t), False, 'theorem', 'no Print Assumptions output captured')
                    all_ok = False
                    continue
                axs = blocks[i]
                notallowed = [a for a in axs if a.split(' ')[0] not in STDLIB_AXIOMS and a.split(' ')[0] not in extra_allowed
                              and not is_primitive(a)]
                for a in axs:
                    self.trust(('primitive ' if is_primitive(a) else 'stdlib axiom ') + a.split(' ')[0] + ' (under ' + t + ')')
                ok = not notallowed
                self.ob('%s: %s' % (f, t), ok, 'theorem', 'assumptions outside allowlist: ' + '; '.join(notallowed) if not ok else '')
                all_ok = all_ok and ok
        return all_ok

    # ---------------------------------------------------------------- harness
    def cargo(self, package, timeout=3000, release=False):
        os.makedirs(TARGET, exist_ok=True)
        with Lock('cargo'):
            # keep the lockfile in step with /repo's
            lock = HARNESS + '/Cargo.lock'
            if not os.path.exists(lock):
                sh('cp %s/Cargo.lock %s' % (REPO, lock))
            cmd = 'cargo build --offline -q -p %s%s' % (package, ' --release' if release else '')
            rc, out, wall = sh(cmd, cwd=HARNESS, timeout=timeout,
                               env={'CARGO_TARGET_DIR': TARGET, 'RUSTFLAGS': GUARD_FLAGS, 'CARGO_NET_OFFLINE': 'true'})
        self.cov.setdefault('cargo_wall_s', 0)
        self.cov['cargo_wall_s'] = round(self.cov['cargo_wall_s'] + wall, 1)
        errs = '\n'.join(l for l in out.splitlines() if not l.startswith('warning') and l.strip())
        self.ob('harness %s builds against /repo working tree (hooks on)' % package, rc == 0, 'correspondence', errs[-3000:] if rc else '')
        self.trust('Rust harness /verif/harness/%s and its canonicalisation' % package)
        return '%s/%s/%s' % (TARGET, 'release' if release else 'debug', package) if rc == 0 else None

    def run_harness(self, binary, args, timeout=1500, env=None):
        e = {'VERIF_SEED': str(self.seed), 'VERIF_TIER': self.tier}
        if env:
            e.update(env)
        rc, out, wall = sh([binary] + list(args), timeout=timeout, env=e)
        self.cov.setdefault('harness_wall_s', 0)
        self.cov['harness_wall_s'] = round(self.cov['harness_wall_s'] + wall, 1)
        return rc, out

    # ---------------------------------------------------------------- model evaluation
    def eval_cases(self, imports, case_type, fn, cases, shard=250, timeout=600, label='cases'):
        """cases: list of JSON-encoded Coq terms of type case_type; fn : case_type -> bool.
        Returns list of bool (None where evaluation failed)."""
        d = '%s/%s' % (self.work, label)
        os.makedirs(d, exist_ok=True)
        for old in glob.glob(d + '/shard_*'):
            os.remove(old)
        shards = [cases[i:i + shard] for i in range(0, len(cases), shard)]
        paths = []
        for k, sc in enumerate(shards):
            p = '%s/shard_%d.v' % (d, k)
            with open(p, 'w') as f:
                f.write(imports + '\nFrom Coq Require Import List ZArith NArith String Floats.\nImport ListNotations.\nOpen Scope list_scope.\n')
                f.write('Definition cases : list (%s) := [\n' % case_type)
                f.write(';\n'.join(to_coq(c) for c in sc))
                f.write('\n].\nEval vm_compute in (map %s cases).\n' % fn)
            paths.append(p)

        def run(p):
            rc, out, _ = sh('coqc -q -noglob -Q %s Verif %s' % (COQ, p), timeout=timeout, cwd=d)
            return rc, out
        with ThreadPoolExecutor(max_workers=16) as ex:
            outs = list(ex.map(run, paths))
        results = []
        for sc, (rc, out) in zip(shards, outs):
            m = re.search(r'=\s*\[(.*?)\]\s*:\s*list bool', out, re.S)
            if rc != 0 or not m:
                if sc:
                    log('case evaluation failed: ' + out[-1500:])
                results.extend([None] * len(sc))
                continue
            vals = re.findall(r'true|false', m.group(1))
            if len(vals) != len(sc):
                results.extend([None] * len(sc))
            else:
                results.extend(v == 'true' for v in vals)
        self.trust('correspondence: model evaluated by coqc vm_compute on generated cases.v (printer lib/coqterm.py)')
        return results

    def eval_term(self, imports, term, timeout=300):
        p = '%s/term_%d.v' % (self.work, int(time.time() * 1000) % 100000000)
        open(p, 'w').write(imports + '\nFrom Coq Require Import List ZArith NArith String Floats.\nImport ListNotations.\nOpen Scope list_scope.\nEval vm_compute in (%s).\n' % term)
        rc, out, _ = sh('coqc -q -noglob -Q %s Verif %s' % (COQ, p), timeout=timeout, cwd=self.work)
        return out.strip()

    # ---------------------------------------------------------------- violations
    def is_known(self, cls):
        """True when cls is an OPEN entry of known_findings.json for this property."""
        return any(k.get('property') == self.pid and k.get('status') == 'open' and k.get('class') == cls
                   for k in known_findings())

    def violation(self, cls, what, found, replay):
        self.violations.append({'cls': cls, 'what': what, 'found': bool(found), 'replay': replay})

    def finish(self, exhaustive=False):
        """Apply the violation protocol, write evidence, exit."""
        os.makedirs(OUT + '/replays', exist_ok=True)
        os.makedirs(OUT + '/evidence', exist_ok=True)
        # one violation per class; broken obligations are attached to a violation with a failing
        # input when there is one, otherwise they are reported as no-failing-input-found
        by_cls = {}
        for v in self.violations:
            if v['cls'] in by_cls:
                by_cls[v['cls']]['replay'].setdefault('further_instances', 0)
                by_cls[v['cls']]['replay']['further_instances'] += 1
            else:
                by_cls[v['cls']] = v
        self.violations = list(by_cls.values())
        known = [k for k in known_findings() if k.get('property') == self.pid and k.get('status') == 'open']
        known_cls = {k.get('class') for k in known}
        rest = self.broken()
        # violations with a failing input that are NOT suppressed as known findings
        found = [v for v in self.violations if v['found'] and v['cls'] not in known_cls]
        if rest and found:
            for v in found:
                v['replay']['broken_obligations'] = [o['name'] for o in rest if 'not checked: build failed' not in o['detail']]
        elif rest:
            self.violation('broken-obligation', 'obligation(s) no longer check: ' + '; '.join(o['name'] for o in rest)[:600],
                           False, {'broken_obligations': [o['name'] for o in rest],
                                   'details': {o['name']: o['detail'] for o in rest if 'not checked: build failed' not in o['detail']}})
        known = [k for k in known_findings() if k.get('property') == self.pid and k.get('status') == 'open']
        reported = 0
        lines = []
        seen_known = set()
        for i, v in enumerate(self.violations):
            k = next((k for k in known if k.get('class') == v['cls']), None)
            if k is not None and v['found']:
                if k['class'] not in seen_known:
                    lines.append('KNOWN-FINDING: property=%s %s' % (self.pid, k.get('what', v['what'])))
                    seen_known.add(k['class'])
                continue
            path = '%s/replays/%s-%d-%d.json' % (OUT, self.pid, self.seed, reported)
            rep = dict(v['replay'])
            rep.update({'property': self.pid, 'class': v['cls'], 'what': v['what'], 'seed': self.seed, 'tier': self.tier,
                        'failing_input_found': v['found'],
                        'rerun': 'cd /verif && VERIF_SEED=%d ./check %s --tier %s' % (self.seed, self.pid, self.tier)})
            json.dump(rep, open(path, 'w'), indent=1, default=str)
            lines.append('VIOLATION property=%s replay=%s%s' % (self.pid, path, '' if v['found'] else ' no-failing-input-found'))
            reported += 1
        nob = len(self.obligations)
        dis = len([o for o in self.obligations if o['ok']])
        cov = {
            'obligations': nob, 'discharged': dis,
            'checker_cmd': self.checker_cmd or 'cd /verif && ./check %s --tier %s' % (self.pid, self.tier),
            'trusted_base': self.trusted,
            'evaluations': self.evaluations, 'distinct_nontrivial': len(self.distinct),
            'rule': self.rule, 'samples': self.samples or ['(no sample recorded)'],
            'obligation_list': [{'name': o['name'], 'kind': o['kind'], 'ok': o['ok']} for o in self.obligations],
            'exhaustive': bool(exhaustive),
        }
        cov.update(self.cov)
        ev = {'property_id': self.pid, 'tier': self.tier, 'seed': self.seed, 'level': self.level,
              'coverage': cov, 'assumptions': self.assumptions, 'wall_s': round(time.time() - self.t0, 1),
              'violations': reported}
        json.dump(ev, open('%s/evidence/%s.json' % (OUT, self.pid), 'w'), indent=1, default=str)
        for l in lines:
            print(l, flush=True)
        log('%s %s: %d/%d obligations, %d evaluations, %d distinct non-trivial, %d violation(s), %.0fs' % (
            self.pid, self.tier, dis, nob, self.evaluations, len(self.distinct), reported, time.time() - self.t0))
        sys.exit(1 if reported else 0)


def strip_coq_comments(s):
    out, depth, i = [], 0, 0
    instr = False
    while i < len(s):
        if not instr and s.startswith('(*', i):
            depth += 1
            i += 2
            continue
        if not instr and depth and s.startswith('*)', i):
            depth -= 1
            i += 2
            continue
        if depth == 0:
            if s[i] == '"':
                instr = not instr
            out.append(s[i])
        i += 1
    return ''.join(out)


PRIM_NAMES = {
    'float', 'classify', 'abs', 'sqrt', 'opp', 'eqb', 'ltb', 'leb', 'compare', 'mul', 'add', 'sub', 'div',
    'of_uint63', 'normfr_mantissa', 'frshiftexp', 'ldshiftexp', 'next_up', 'next_down',
    'int', 'lsl', 'lsr', 'land', 'lor', 'lxor', 'mulc', 'mod', 'head0', 'tail0', 'addc', 'addcarryc',
    'subc', 'subcarryc', 'diveucl', 'diveucl_21', 'addmuldiv', 'divs', 'mods', 'asr', 'ltsb', 'lesb', 'compares',
}
PRIM_TYPE_TOKENS = {'float', 'int', 'bool', 'float_class', 'float_comparison', 'comparison', 'Set', '->', '*',
                    '(', ')', 'carry', 'FloatClass.float_class', 'Z'}


def is_primitive(a):
    """A line `name : type` of Print Assumptions that is a native float/int primitive (not an axiom)."""
    if ':' not in a:
        return False
    name, ty = a.split(':', 1)
    name = name.strip().split('.')[-1]
    toks = re.findall(r'->|[()*]|[A-Za-z_][A-Za-z0-9_.]*', ty)
    return name in PRIM_NAMES and all(t in PRIM_TYPE_TOKENS for t in toks)


def split_assumptions(out, f):
    """Return list of lists of assumption lines, one per Print Assumptions, in order of appearance.
    If f is given, only the section of make output belonging to that file."""
    text = out
    if f is not None:
        # make -j interleaves; output of one coqc invocation is contiguous per file only when it is
        # printed at exit.  coq_makefile prints 'COQC file' lines; take everything and rely on counts
        # when only one Props file is built, otherwise isolate by re-running (caller falls back).
        pass
    blocks = []
    cur = None
    for line in text.splitlines():
        if line.startswith('Closed under the global context'):
            if cur is not None:
                blocks.append(cur)
                cur = None
            blocks.append([])
        elif line.startswith('Axioms:'):
            if cur is not None:
                blocks.append(cur)
            cur = []
        elif cur is not None:
            if re.match(r'^[A-Za-z_][A-Za-z0-9_.\']*\s*:', line):
                cur.append(line.strip())
            elif line.startswith(' ') or line.startswith('\t'):
                if cur:
                    cur[-1] += ' ' + line.strip()
            elif line.strip() == '':
                continue
            else:
                blocks.append(cur)
                cur = None
    if cur is not None:
        blocks.append(cur)
    return blocks
